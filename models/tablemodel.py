"""Reference model for C19: a table is a list of tuples.

Plain Python only (no bionumpy, no NumPy).  A *kind* names the declared type of a
column; the check module maps kinds to bionumpy's declared types and back.

Model value of a cell, per kind
    str, unionstr, id, dna, strand, cigar_op, bamseq      -> Python str
    int, optint, bool                                      -> Python int (True == 1, value level)
    float, optfloat                                        -> int if integral else float, 'nan' for NaN
    intlist, qual, cigar_len                               -> tuple of int
    strlist                                                -> tuple of str
    gt, pgt, hap (VCF genotype matrices)                   -> tuple of str (one genotype text per sample)
    ('table', spec_name)                                   -> tuple of the nested row's cell values
"""

# ------------------------------------------------------------------ value menus (row i, field j)
_STR = ['c', 'chr10', '', 'a_long_name', 'zz', 'c']
_ID = ['id1', 'i', 'identifier3', 'x', 'id1', '']
_INT = [5, -3, 5, 0, 2 ** 40, -3]
_FLOAT = [0.5, -2.25, 1000.0, 0.5, 0.0025, -1.0]
_BOOL = [1, 0, 1, 1, 0, 0]
_OPTFLOAT = [0.5, 'nan', -2.25, 'nan', 7.0, 0.5]
_INTLIST = [(1,), (2, 3), (), (4, 5, 6), (7,), (2, 3)]
_STRLIST = [('0/1', '1/1'), ('0|0', './.'), ('1|1', '0/0'), ('0/1', '0/1'), ('./.', '1|0'), ('0|0', './.')]
_DNA = ['A', 'ACGT', '', 'GG', 'TTTTTTTTTT', 'A']
_STRAND = ['+', '-', '.', '+', '-', '-']
_QUAL = [(0,), (40, 2, 93, 10), (), (1, 2), (33,), (40, 2, 93, 10)]
_CIGAR_OP = ['M', 'MIM', '', 'SMDMH', '=X', 'M']
_CIGAR_LEN = [(3,), (1, 2, 3), (), (5, 10, 1, 200, 7), (4, 4), (3,)]
_BAMSEQ = ['ACG', 'ACGTAC', '', 'NNRY', '=', 'ACG']
_GT = [('0/1', '1/1'), ('0|0', './.'), ('2|1', '0/2'), ('0/1', '0/1'), ('./.', '1|0'), ('0|0', './.')]
_PGT = [('0|1', '1|1'), ('0|0', '1|0'), ('1|1', '0|0'), ('0|1', '0|1'), ('1|0', '1|0'), ('0|0', '1|0')]
_HAP = [('0|1', '1|1'), ('0|0', '1|0'), ('2|1', '0|3'), ('0|1', '0|1'), ('4|0', '.|0'), ('0|0', '1|0')]

MAX_ROWS = 6


def cell(kind, i, j, specs=None):
    """model value of row i of field number j of that kind (fields of equal kind differ, ties inside a column stay)"""
    i = i % MAX_ROWS
    if isinstance(kind, (tuple, list)):
        sub = specs[kind[1]]
        return tuple(cell(k, i, j + 1 + jj, specs) for jj, (_, k) in enumerate(sub['fields']))
    if kind in ('str', 'unionstr'):
        v = _STR[i]
        return v + str(j) if v else v
    if kind == 'id':
        v = _ID[i]
        return v + '_%d' % j if v else v
    if kind in ('int', 'optint'):
        return _INT[i] + 10 * j
    if kind == 'float':
        return norm(_FLOAT[i] + j)
    if kind == 'bool':
        return _BOOL[(i + j) % MAX_ROWS]
    if kind == 'optfloat':
        return norm(_OPTFLOAT[i])
    if kind == 'intlist':
        return tuple(x + j for x in _INTLIST[i])
    return {'strlist': _STRLIST, 'dna': _DNA, 'strand': _STRAND, 'qual': _QUAL, 'cigar_op': _CIGAR_OP, 'cigar_len': _CIGAR_LEN,
            'bamseq': _BAMSEQ, 'gt': _GT, 'pgt': _PGT, 'hap': _HAP}[kind][i]


def replacement_cell(kind, i, j, specs=None):
    """a different valid value for (row i, field j): the row menu rotated by two"""
    return cell(kind, (i + 2) % MAX_ROWS, j + 3, specs)


def norm(v):
    """value-level normalisation (DESIGN 4.3): 1 == 1.0 == True; lists == tuples"""
    if isinstance(v, bool):
        return int(v)
    if isinstance(v, float):
        if v != v:
            return 'nan'
        if v == int(v) and abs(v) < 2 ** 62:
            return int(v)
        return v
    if isinstance(v, (list, tuple)):
        return tuple(norm(x) for x in v)
    return v


def rows_for(spec, n, specs):
    return [tuple(cell(k, i, j, specs) for j, (_, k) in enumerate(spec['fields'])) for i in range(n)]


# ------------------------------------------------------------------ index operations
INDEX_OPS = [('sl', 1, None), ('sl', None, -1), ('step2',), ('rev',), ('mask', 'alt'), ('mask', 'none'), ('mask', 'all'),
             ('fancy', 'rep'), ('fancy', 'empty')]


def index_plan(op, n):
    """JSON-free description of the index object for a table of n rows: ('slice', a, b, c) | ('mask', [..]) | ('ints', [..])"""
    k = op[0]
    if k == 'sl':
        return ('slice', op[1], op[2], None)
    if k == 'step2':
        return ('slice', None, None, 2)
    if k == 'rev':
        return ('slice', None, None, -1)
    if k == 'mask':
        if op[1] == 'alt':
            return ('mask', [i % 2 == 0 for i in range(n)])
        if op[1] == 'none':
            return ('mask', [False] * n)
        return ('mask', [True] * n)
    if k == 'fancy':
        if op[1] == 'empty' or n == 0:
            return ('ints', [])
        return ('ints', [n - 1, 0, 0])
    raise ValueError(op)


def index_rows(rows, plan):
    if plan[0] == 'slice':
        return list(rows[slice(plan[1], plan[2], plan[3])])
    if plan[0] == 'mask':
        return [r for r, m in zip(rows, plan[1]) if m]
    return [rows[i] for i in plan[1]]


# ------------------------------------------------------------------ sorting oracle
ALPHABET_ORDER = {'strand': '+-.'}


def sort_keys(kind, values):
    """list of admissible key functions for 'sorted by this column' (the statement does not say whether an encoded
    column sorts by letter or by code: both are accepted)"""
    if any(v == 'nan' for v in values):
        # NaN has no place in the order: accepted first or last (NumPy puts it last)
        return [lambda v: float('inf') if v == 'nan' else v, lambda v: float('-inf') if v == 'nan' else v]
    keys = [lambda v: v]
    if kind in ALPHABET_ORDER:
        order = ALPHABET_ORDER[kind]
        keys.append(lambda v: order.index(v))
    return keys


def sort_verdict(before, after, j, kind):
    """None if `after` is a permutation of `before` whose column j is non-decreasing, else a reason string"""
    if len(after) != len(before):
        return 'row count changed'
    if sorted(repr(norm(r)) for r in before) != sorted(repr(norm(r)) for r in after):
        return 'rows are not a permutation of the operand rows'
    col = [r[j] for r in after]
    for key in sort_keys(kind, col):
        ks = [key(v) for v in col]
        if all(ks[i] <= ks[i + 1] for i in range(len(ks) - 1)):
            return None
    return 'column %d is not in non-decreasing order' % j


# ------------------------------------------------------------------ the model
class TableModel:
    """fields: list of names; kinds: parallel list; rows: list of tuples of model values"""

    def __init__(self, fields, kinds, rows):
        self.fields = list(fields)
        self.kinds = list(kinds)
        self.rows = [tuple(r) for r in rows]

    def copy(self):
        return TableModel(self.fields, self.kinds, self.rows)

    def key(self):
        return (tuple(self.fields), tuple(self.rows))

    def column(self, j):
        return [r[j] for r in self.rows]

    def project(self, j):
        return TableModel([self.fields[j]], [self.kinds[j]], [(r[j],) for r in self.rows])

    # -- transformations ------------------------------------------------
    def index(self, op):
        self.rows = index_rows(self.rows, index_plan(op, len(self.rows)))

    def concat(self, parts):
        """parts: list of row lists"""
        out = []
        for p in parts:
            out.extend(p)
        self.rows = out

    def replace(self, j, values):
        assert len(values) == len(self.rows)
        self.rows = [r[:j] + (v,) + r[j + 1:] for r, v in zip(self.rows, values)]

    def add_field(self, name, kind, values):
        assert name not in self.fields and len(values) == len(self.rows)
        self.fields.append(name)
        self.kinds.append(kind)
        self.rows = [r + (v,) for r, v in zip(self.rows, values)]

    def keep_fields(self, names):
        idx = [self.fields.index(n) for n in names]
        self.rows = [tuple(r[i] for i in idx) for r in self.rows]
        self.kinds = [self.kinds[i] for i in idx]
        self.fields = list(names)


def flat_keys(fields, kinds, specs, prefix=''):
    """todict()/topandas() layout: [(flat key, path of tuple positions)]; nested tables are flattened as 'field.sub'"""
    out = []
    for j, (f, k) in enumerate(zip(fields, kinds)):
        if isinstance(k, (tuple, list)):
            sub = specs[k[1]]
            for key, path in flat_keys([n for n, _ in sub['fields']], [kk for _, kk in sub['fields']], specs, prefix + f + '.'):
                out.append((key, (j,) + path))
        else:
            out.append((prefix + f, (j,)))
    return out


def pick(row, path):
    v = row
    for p in path:
        v = v[p]
    return v


def differing_columns(exp_rows, obs_rows):
    """indices of the columns in which two equally long row lists differ; None if the shapes differ"""
    if len(exp_rows) != len(obs_rows):
        return None
    bad = set()
    for a, b in zip(exp_rows, obs_rows):
        if len(a) != len(b):
            return None
        for j, (x, y) in enumerate(zip(a, b)):
            if x != y:
                bad.add(j)
    return sorted(bad)
