"""Independent BAM + BGZF encoder and decoder, written from the SAM/BAM format
specification (SAMv1, section 4 "The BAM format specification", section 4.1
"The BGZF compression format", section 5.3 "C source code for computing bin
number"), NOT from bionumpy's code.  Plain boring Python: struct + zlib.

Record model (a plain dict, all values Python ints / str / bytes / lists):

    ref_id        int   -1 for a read without a reference ("unmapped", RNAME '*')
    pos           int   0-based leftmost coordinate, -1 when unavailable
    mapq          int   0..255
    flag          int   0..65535
    name          str   1..254 printable characters (stored NUL terminated)
    cigar         list of (op_char, length)  op_char in 'MIDNSHP=X', 0 <= length < 2**28
    seq           str   over '=ACMGRSVTWYHKDBN' (4-bit codes 0..15), any length >= 0
    qual          list of ints 0..93, len == len(seq); or None (stored as 0xFF * l_seq)
    next_ref_id, next_pos, tlen   ints
    tags          bytes raw optional-field bytes (already in BAM tag encoding)

Layout of an alignment (little endian), SAMv1 4.2:

    block_size int32 | refID int32 | pos int32 | l_read_name uint8 | mapq uint8 | bin uint16 |
    n_cigar_op uint16 | flag uint16 | l_seq uint32 | next_refID int32 | next_pos int32 | tlen int32 |
    read_name char[l_read_name] | cigar uint32[n_cigar_op] (len<<4|op) |
    seq uint8[(l_seq+1)/2] (high nibble first) | qual char[l_seq] | tags ... until block end
"""
import struct
import zlib

SEQ_CODES = '=ACMGRSVTWYHKDBN'
CIGAR_OPS = 'MIDNSHP=X'
REF_CONSUMING = 'MDN=X'          # SAMv1 1.4 table "consumes reference"
QUERY_CONSUMING = 'MIS=X'

BGZF_EOF = bytes.fromhex('1f8b08040000000000ff0600424302001b0003000000000000000000')
BGZF_MAX_INPUT = 0xff00          # what htslib uses; anything <= 65536 whose compressed block fits 65536 is legal


class SpecError(Exception):
    """the bytes are not what the specification describes"""


# ---------------------------------------------------------------------------------------------------- records
def make_record(ref_id=0, pos=0, mapq=0, flag=0, name='r', cigar=(), seq='', qual=(), next_ref_id=-1, next_pos=-1,
                tlen=0, tags=b''):
    if qual is not None:
        qual = [int(q) for q in qual]
    return {'ref_id': int(ref_id), 'pos': int(pos), 'mapq': int(mapq), 'flag': int(flag), 'name': str(name),
            'cigar': [(str(o), int(n)) for o, n in cigar], 'seq': str(seq), 'qual': qual,
            'next_ref_id': int(next_ref_id), 'next_pos': int(next_pos), 'tlen': int(tlen), 'tags': bytes(tags)}


def reference_length(cigar):
    return sum(n for o, n in cigar if o in REF_CONSUMING)


def reg2bin(beg, end):
    """SAMv1 5.3: bin for the 0-based half-open interval [beg, end)"""
    end -= 1
    if beg >> 14 == end >> 14:
        return ((1 << 15) - 1) // 7 + (beg >> 14)
    if beg >> 17 == end >> 17:
        return ((1 << 12) - 1) // 7 + (beg >> 17)
    if beg >> 20 == end >> 20:
        return ((1 << 9) - 1) // 7 + (beg >> 20)
    if beg >> 23 == end >> 23:
        return ((1 << 6) - 1) // 7 + (beg >> 23)
    if beg >> 26 == end >> 26:
        return ((1 << 3) - 1) // 7 + (beg >> 26)
    return 0


def record_bin(rec):
    """SAMv1 4.2: bin is computed from [pos, pos + reference length); an alignment without reference length
    (unmapped, or no CIGAR) is treated as having length one; pos = -1 gives reg2bin(-1, 0) = 4680"""
    beg = rec['pos']
    rl = reference_length(rec['cigar'])
    end = beg + (rl if rl > 0 else 1)
    return reg2bin(beg, end) & 0xffff


def check_record(rec):
    """generator-side validity (what "valid BAM" means for one alignment)"""
    name = rec['name']
    if not (1 <= len(name) <= 254) or any(not (33 <= ord(c) <= 126) or c == '@' for c in name):
        raise ValueError('bad read name %r' % (name,))
    if not (0 <= rec['mapq'] <= 255 and 0 <= rec['flag'] <= 0xffff):
        raise ValueError('mapq/flag out of range')
    if not (-1 <= rec['pos'] <= 2 ** 31 - 2):
        raise ValueError('pos out of range')
    if len(rec['cigar']) > 0xffff:
        raise ValueError('more than 65535 CIGAR operations need the CG tag')
    for o, n in rec['cigar']:
        if o not in CIGAR_OPS or not (0 <= n < 2 ** 28):
            raise ValueError('bad cigar op %r' % ((o, n),))
    if rec['pos'] + reference_length(rec['cigar']) > 2 ** 31 - 1:
        raise ValueError('alignment end beyond the largest reference length')
    if any(c not in SEQ_CODES for c in rec['seq']):
        raise ValueError('bad sequence letter')
    qlen = sum(n for o, n in rec['cigar'] if o in QUERY_CONSUMING)
    if rec['seq'] and rec['cigar'] and qlen != len(rec['seq']):
        # SAMv1 1.4: "If not a '*', the length of the sequence must equal the sum of lengths of M/I/S/=/X operations"
        raise ValueError('sequence length %d != query length of the CIGAR %d' % (len(rec['seq']), qlen))
    if rec['qual'] is not None:
        if len(rec['qual']) != len(rec['seq']) or any(not (0 <= q <= 93) for q in rec['qual']):
            raise ValueError('bad qualities')


def encode_record(rec):
    check_record(rec)
    name = rec['name'].encode('ascii') + b'\x00'
    l_seq = len(rec['seq'])
    fixed = struct.pack('<iiBBHHHIiii', rec['ref_id'], rec['pos'], len(name), rec['mapq'], record_bin(rec),
                        len(rec['cigar']), rec['flag'], l_seq, rec['next_ref_id'], rec['next_pos'], rec['tlen'])
    cig = b''.join(struct.pack('<I', (n << 4) | CIGAR_OPS.index(o)) for o, n in rec['cigar'])
    codes = [SEQ_CODES.index(c) for c in rec['seq']]
    if l_seq % 2:
        codes.append(0)                                   # "when l_seq is odd the bottom 4 bits of the last byte are undefined, but we recommend writing these as zero"
    packed = bytes((codes[i] << 4) | codes[i + 1] for i in range(0, len(codes), 2))
    qual = bytes([0xff]) * l_seq if rec['qual'] is None else bytes(rec['qual'])
    body = fixed + name + cig + packed + qual + rec['tags']
    return struct.pack('<i', len(body)) + body


def encode_header(refs, text=''):
    """refs: list of (name, length)"""
    t = text.encode('ascii')
    out = [b'BAM\x01', struct.pack('<i', len(t)), t, struct.pack('<i', len(refs))]
    for name, length in refs:
        n = name.encode('ascii') + b'\x00'
        out.append(struct.pack('<i', len(n)) + n + struct.pack('<i', length))
    return b''.join(out)


def encode_bam(refs, recs, text=''):
    """-> (uncompressed BAM stream, header length, [record byte strings])"""
    for r in recs:
        if not (-1 <= r['ref_id'] < len(refs)) or not (-1 <= r['next_ref_id'] < len(refs)):
            raise ValueError('reference id out of range')
    header = encode_header(refs, text)
    blobs = [encode_record(r) for r in recs]
    return header + b''.join(blobs), len(header), blobs


# tag helpers (SAMv1 4.2.4) -- used by the generator for "optional tag bytes"
def tag_int(tag, value, code='i'):
    fmt = {'c': '<b', 'C': '<B', 's': '<h', 'S': '<H', 'i': '<i', 'I': '<I'}[code]
    return tag.encode('ascii') + code.encode('ascii') + struct.pack(fmt, value)


def tag_string(tag, value):
    return tag.encode('ascii') + b'Z' + value.encode('ascii') + b'\x00'


def tag_array(tag, code, values):
    fmt = {'c': 'b', 'C': 'B', 's': 'h', 'S': 'H', 'i': 'i', 'I': 'I', 'f': 'f'}[code]
    return tag.encode('ascii') + b'B' + code.encode('ascii') + struct.pack('<i', len(values)) + \
        struct.pack('<%d%s' % (len(values), fmt), *values)


# ---------------------------------------------------------------------------------------------------- BGZF
def bgzf_block(payload, level=6):
    """one BGZF block (SAMv1 4.1): gzip member with FEXTRA subfield 'BC' holding total block size - 1"""
    if len(payload) > 65536:
        raise ValueError('BGZF block input too large')
    co = zlib.compressobj(level, zlib.DEFLATED, -15)
    cdata = co.compress(payload) + co.flush()
    bsize = 12 + 6 + len(cdata) + 8
    if bsize > 65536:
        # incompressible input: store it
        co = zlib.compressobj(0, zlib.DEFLATED, -15)
        cdata = co.compress(payload) + co.flush()
        bsize = 12 + 6 + len(cdata) + 8
        if bsize > 65536:
            raise ValueError('BGZF block too large')
    head = struct.pack('<BBBBIBBH', 31, 139, 8, 4, 0, 0, 255, 6) + struct.pack('<BBHH', 66, 67, 2, bsize - 1)
    return head + cdata + struct.pack('<II', zlib.crc32(payload) & 0xffffffff, len(payload))


def bgzf_compress(data, cuts=(), eof=True, level=6, max_input=BGZF_MAX_INPUT):
    """BGZF file with member boundaries at the (sorted, unique) uncompressed offsets `cuts` and additionally
    wherever a piece would exceed max_input; an empty piece (cut at 0 or len) is emitted as an empty block only
    if asked for explicitly by a duplicate offset -- here simply dropped."""
    pts = sorted({c for c in cuts if 0 < c < len(data)})
    pieces = []
    prev = 0
    for c in pts + [len(data)]:
        piece = data[prev:c]
        prev = c
        while len(piece) > max_input:
            pieces.append(piece[:max_input])
            piece = piece[max_input:]
        if piece:
            pieces.append(piece)
    out = b''.join(bgzf_block(p, level) for p in pieces)
    if eof:
        out += BGZF_EOF
    return out


def gzip_single_member(data, level=6):
    """plain single-member gzip (RFC 1952) without the BGZF extra field: not BGZF, but what Python's gzip writes"""
    co = zlib.compressobj(level, zlib.DEFLATED, -15)
    cdata = co.compress(data) + co.flush()
    return (struct.pack('<BBBBIBB', 31, 139, 8, 0, 0, 0, 255) + cdata +
            struct.pack('<II', zlib.crc32(data) & 0xffffffff, len(data) & 0xffffffff))


def gunzip_members(blob):
    """RFC 1952 multi-member decoder written out by hand (header parsing, raw inflate, CRC and ISIZE checks).
    -> (data, info) with info = {'members': n, 'bgzf_members': n with a valid BC subfield, 'eof_block': bool,
    'member_input_sizes': [...]}.  Raises SpecError on any violation of RFC 1952."""
    pos = 0
    out = []
    info = {'members': 0, 'bgzf_members': 0, 'eof_block': False, 'member_input_sizes': []}
    n = len(blob)
    if n == 0:
        raise SpecError('empty file')
    while pos < n:
        start = pos
        if n - pos < 18:
            raise SpecError('truncated gzip member header at %d' % pos)
        id1, id2, cm, flg, mtime, xfl, osb = struct.unpack_from('<BBBBIBB', blob, pos)
        if (id1, id2, cm) != (31, 139, 8):
            raise SpecError('bad gzip magic at %d' % pos)
        if flg & 0xe0:
            raise SpecError('reserved gzip flag bits set')
        pos += 10
        bsize = None
        if flg & 4:
            xlen, = struct.unpack_from('<H', blob, pos)
            pos += 2
            extra = blob[pos:pos + xlen]
            if len(extra) != xlen:
                raise SpecError('truncated extra field')
            pos += xlen
            q = 0
            while q < len(extra):
                if len(extra) - q < 4:
                    raise SpecError('bad extra subfield')
                si1, si2, slen = struct.unpack_from('<BBH', extra, q)
                sub = extra[q + 4:q + 4 + slen]
                if len(sub) != slen:
                    raise SpecError('bad extra subfield length')
                if (si1, si2, slen) == (66, 67, 2):
                    bsize = struct.unpack('<H', sub)[0] + 1
                q += 4 + slen
        if flg & 8:
            pos = blob.index(b'\x00', pos) + 1
        if flg & 16:
            pos = blob.index(b'\x00', pos) + 1
        if flg & 2:
            pos += 2
        d = zlib.decompressobj(-15)
        try:
            payload = d.decompress(blob[pos:])
        except zlib.error as e:
            raise SpecError('deflate error: %s' % e)
        if not d.eof:
            raise SpecError('truncated deflate stream')
        consumed = len(blob) - pos - len(d.unused_data)
        pos += consumed
        if n - pos < 8:
            raise SpecError('truncated gzip trailer')
        crc, isize = struct.unpack_from('<II', blob, pos)
        pos += 8
        if crc != (zlib.crc32(payload) & 0xffffffff):
            raise SpecError('CRC32 mismatch')
        if isize != (len(payload) & 0xffffffff):
            raise SpecError('ISIZE mismatch')
        info['members'] += 1
        info['member_input_sizes'].append(len(payload))
        if bsize is not None and bsize == pos - start and len(payload) <= 65536:
            info['bgzf_members'] += 1
        out.append(payload)
    info['eof_block'] = blob.endswith(BGZF_EOF)
    return b''.join(out), info


# ---------------------------------------------------------------------------------------------------- decoder
def _need(data, pos, n, what):
    if pos + n > len(data):
        raise SpecError('truncated %s at %d' % (what, pos))


def decode_tags(raw):
    """-> list of (tag, type, value); raises SpecError if the bytes are not a sequence of well-formed tags"""
    out = []
    p = 0
    sizes = {'A': 1, 'c': 1, 'C': 1, 's': 2, 'S': 2, 'i': 4, 'I': 4, 'f': 4}
    fmts = {'c': '<b', 'C': '<B', 's': '<h', 'S': '<H', 'i': '<i', 'I': '<I', 'f': '<f'}
    while p < len(raw):
        _need(raw, p, 3, 'tag')
        tag = raw[p:p + 2].decode('latin1')
        t = chr(raw[p + 2])
        p += 3
        if t == 'A':
            _need(raw, p, 1, 'tag value')
            out.append((tag, t, chr(raw[p])))
            p += 1
        elif t in fmts:
            _need(raw, p, sizes[t], 'tag value')
            out.append((tag, t, struct.unpack_from(fmts[t], raw, p)[0]))
            p += sizes[t]
        elif t in 'ZH':
            e = raw.find(b'\x00', p)
            if e < 0:
                raise SpecError('unterminated string tag')
            out.append((tag, t, raw[p:e].decode('latin1')))
            p = e + 1
        elif t == 'B':
            _need(raw, p, 5, 'array tag')
            st = chr(raw[p])
            cnt, = struct.unpack_from('<i', raw, p + 1)
            p += 5
            if st not in fmts or cnt < 0:
                raise SpecError('bad array tag')
            _need(raw, p, cnt * sizes[st], 'array tag values')
            out.append((tag, 'B' + st, list(struct.unpack_from('<%d%s' % (cnt, fmts[st][1]), raw, p))))
            p += cnt * sizes[st]
        else:
            raise SpecError('unknown tag type %r' % t)
    return out


def decode_record(blob):
    """blob = one alignment INCLUDING its block_size field"""
    _need(blob, 0, 36, 'alignment fixed part')
    block_size, = struct.unpack_from('<i', blob, 0)
    if block_size + 4 != len(blob):
        raise SpecError('block_size does not match')
    (ref_id, pos, l_read_name, mapq, bin_, n_cigar_op, flag, l_seq, next_ref_id, next_pos, tlen) = \
        struct.unpack_from('<iiBBHHHIiii', blob, 4)
    p = 36
    if l_read_name < 1:
        raise SpecError('l_read_name must count the NUL')
    _need(blob, p, l_read_name, 'read name')
    raw_name = blob[p:p + l_read_name]
    if raw_name[-1] != 0 or 0 in raw_name[:-1]:
        raise SpecError('read name is not NUL terminated exactly once')
    p += l_read_name
    _need(blob, p, 4 * n_cigar_op, 'cigar')
    cigar = []
    for (v,) in struct.iter_unpack('<I', blob[p:p + 4 * n_cigar_op]):
        op = v & 0xf
        if op > 8:
            raise SpecError('cigar op code %d' % op)
        cigar.append((CIGAR_OPS[op], v >> 4))
    p += 4 * n_cigar_op
    nb = (l_seq + 1) // 2
    _need(blob, p, nb, 'sequence')
    letters = []
    for b in blob[p:p + nb]:
        letters.append(SEQ_CODES[b >> 4])
        letters.append(SEQ_CODES[b & 0xf])
    seq = ''.join(letters[:l_seq])
    p += nb
    _need(blob, p, l_seq, 'qualities')
    q = blob[p:p + l_seq]
    p += l_seq
    qual = None if (l_seq > 0 and all(x == 0xff for x in q)) else list(q)
    tags = blob[p:]
    decode_tags(tags)
    return {'ref_id': ref_id, 'pos': pos, 'mapq': mapq, 'flag': flag, 'name': raw_name[:-1].decode('latin1'),
            'cigar': cigar, 'seq': seq, 'qual': qual, 'next_ref_id': next_ref_id, 'next_pos': next_pos, 'tlen': tlen,
            'tags': bytes(tags), 'bin': bin_}


def decode_bam(data):
    """uncompressed BAM stream -> (text, refs, recs, record_blobs).  Strict: every length must add up."""
    _need(data, 0, 12, 'header')
    if data[:4] != b'BAM\x01':
        raise SpecError('bad magic %r' % data[:4])
    l_text, = struct.unpack_from('<i', data, 4)
    if l_text < 0:
        raise SpecError('negative l_text')
    p = 8
    _need(data, p, l_text + 4, 'header text')
    text = data[p:p + l_text].decode('latin1')
    p += l_text
    n_ref, = struct.unpack_from('<i', data, p)
    p += 4
    if n_ref < 0:
        raise SpecError('negative n_ref')
    refs = []
    for _ in range(n_ref):
        _need(data, p, 4, 'l_name')
        l_name, = struct.unpack_from('<i', data, p)
        p += 4
        if l_name < 1:
            raise SpecError('bad l_name')
        _need(data, p, l_name + 4, 'reference name')
        nm = data[p:p + l_name]
        if nm[-1] != 0:
            raise SpecError('reference name not NUL terminated')
        p += l_name
        l_ref, = struct.unpack_from('<i', data, p)
        p += 4
        refs.append((nm[:-1].decode('latin1'), l_ref))
    header_len = p
    recs = []
    blobs = []
    while p < len(data):
        _need(data, p, 4, 'block_size')
        bs, = struct.unpack_from('<i', data, p)
        if bs < 32:
            raise SpecError('block_size %d too small' % bs)
        _need(data, p, 4 + bs, 'alignment')
        blob = data[p:p + 4 + bs]
        r = decode_record(blob)
        if not (-1 <= r['ref_id'] < n_ref):
            raise SpecError('refID %d out of range' % r['ref_id'])
        recs.append(r)
        blobs.append(bytes(blob))
        p += 4 + bs
    return text, refs, recs, blobs, header_len


def decode_bam_file(blob):
    """compressed file bytes -> dict(text, refs, recs, blobs, gz=info)"""
    data, info = gunzip_members(blob)
    text, refs, recs, blobs, header_len = decode_bam(data)
    return {'text': text, 'refs': refs, 'recs': recs, 'blobs': blobs, 'gz': info, 'header': data[:header_len]}


# ---------------------------------------------------------------------------------------------------- expectations
def ref_name(rec, refs):
    """reference name the specification defines; None for a record without a reference"""
    return None if rec['ref_id'] < 0 else refs[rec['ref_id']][0]


def expected_row(rec, refs):
    """the nine values named by the property, as plain Python values"""
    return {'chromosome': ref_name(rec, refs), 'name': rec['name'], 'flag': rec['flag'], 'position': rec['pos'],
            'mapq': rec['mapq'], 'cigar_op': ''.join(o for o, _ in rec['cigar']),
            'cigar_length': [n for _, n in rec['cigar']], 'sequence': rec['seq'],
            'quality': None if rec['qual'] is None else list(rec['qual'])}


def expected_interval(rec, refs):
    """reference interval: [pos, pos + sum of reference-consuming op lengths), strand from flag 0x10"""
    return {'chromosome': ref_name(rec, refs), 'start': rec['pos'], 'stop': rec['pos'] + reference_length(rec['cigar']),
            'name': rec['name'], 'score': rec['mapq'], 'strand': '-' if rec['flag'] & 0x10 else '+'}


# ---------------------------------------------------------------------------------------------------- SAM text (self-test only)
def _fmt_float(v):
    return ('%g' % v)


def sam_line(rec, refs, with_tags=True):
    rname = '*' if rec['ref_id'] < 0 else refs[rec['ref_id']][0]
    if rec['next_ref_id'] < 0:
        rnext = '*'
    elif rec['next_ref_id'] == rec['ref_id']:
        rnext = '='
    else:
        rnext = refs[rec['next_ref_id']][0]
    cigar = ''.join('%d%s' % (n, o) for o, n in rec['cigar']) or '*'
    seq = rec['seq'] or '*'
    qual = '*' if (rec['qual'] is None or not rec['seq']) else ''.join(chr(q + 33) for q in rec['qual'])
    cols = [rec['name'], str(rec['flag']), rname, str(rec['pos'] + 1), str(rec['mapq']), cigar, rnext,
            str(rec['next_pos'] + 1), str(rec['tlen']), seq, qual]
    if with_tags:
        for tag, t, v in decode_tags(rec['tags']):
            if t in 'cCsSiI':
                cols.append('%s:i:%d' % (tag, v))
            elif t == 'f':
                cols.append('%s:f:%s' % (tag, _fmt_float(v)))
            elif t[0] == 'B':
                cols.append('%s:B:%s,%s' % (tag, t[1], ','.join(_fmt_float(x) if t[1] == 'f' else str(x) for x in v)))
            else:
                cols.append('%s:%s:%s' % (tag, t, v))
    return '\t'.join(cols)


def selftest(example_dir, names=('alignments', 'small_alignments', 'test', 'many_alignments')):
    """Decode example BAMs with this decoder and compare with their SAM twins (written by samtools), re-encode every
    record with this encoder and compare with the original record bytes.  -> list of problems (empty = ok) and a
    count of records checked."""
    import os
    problems = []
    checked = 0
    for nm in names:
        bam = os.path.join(example_dir, nm + '.bam')
        sam = os.path.join(example_dir, nm + '.sam')
        if not (os.path.exists(bam) and os.path.exists(sam)) or os.path.getsize(bam) == 0 or os.path.getsize(sam) == 0:
            continue
        d = decode_bam_file(open(bam, 'rb').read())
        lines = [l for l in open(sam).read().split('\n') if l and not l.startswith('@')]
        if len(lines) != len(d['recs']):
            problems.append('%s: %d SAM lines, %d BAM records' % (nm, len(lines), len(d['recs'])))
            continue
        for i, (line, rec, blob) in enumerate(zip(lines, d['recs'], d['blobs'])):
            mine = sam_line(rec, d['refs']).split('\t')
            theirs = line.split('\t')
            if mine[:11] != theirs[:11]:
                problems.append('%s record %d: mandatory columns differ %r / %r' % (nm, i, mine[:11], theirs[:11]))
            elif sorted(mine[11:]) != sorted(theirs[11:]):
                problems.append('%s record %d: tags differ %r / %r' % (nm, i, mine[11:], theirs[11:]))
            again = encode_record(rec) if _encodable(rec) else None
            if again is not None and again != blob:
                problems.append('%s record %d: re-encoding differs' % (nm, i))
            checked += 1
        if d['gz']['bgzf_members'] != d['gz']['members']:
            problems.append('%s: example BAM is not BGZF according to the decoder' % nm)
        # BGZF round trip of the whole stream with this encoder
        whole = d['header'] + b''.join(d['blobs'])
        back, info = gunzip_members(bgzf_compress(whole, cuts=[len(whole) // 3, len(whole) // 2]))
        if back != whole or info['bgzf_members'] != info['members'] or not info['eof_block']:
            problems.append('%s: BGZF round trip failed' % nm)
    return problems, checked


def _encodable(rec):
    try:
        check_record(rec)
    except ValueError:
        return False
    return True


if __name__ == '__main__':
    import sys
    pr, n = selftest(sys.argv[1] if len(sys.argv) > 1 else '/repo/example_data')
    print('records checked against SAM twins:', n)
    for p in pr[:20]:
        print('PROBLEM', p)
    sys.exit(1 if pr or n == 0 else 0)
