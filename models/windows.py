"""Reference model for sliding-window sequence functions (C13).

Plain Python on str / int / float.  A *collection* is a list of str (rows);
an *alphabet* is a str whose index gives the digit of a letter.  Everything is
defined on one row alone and then mapped over the rows; that IS the property.

  windows(row, w)        the texts row[i:i+w] for every window lying entirely inside the row
                         (none when len(row) < w)
  kmer_code(text, A)     little-endian base-|A| number: sum(digit(text[i]) * |A|**i)
  code_to_text(c, k, A)  inverse of kmer_code
  minimizer              min of the k-mer codes inside a window
  match                  window text == pattern
  motif score            sum(matrix[digit(window[i])][i])
  k-mer count            multiset of the row's k-mer codes as a dense vector of |A|**k counts

Per-row results are memoised (pure functions of their arguments).
"""
import functools


def windows(row, w):
    if w < 1:
        raise ValueError('window must be >= 1')
    return [row[i:i + w] for i in range(len(row) - w + 1)]


def kmer_code(text, alphabet):
    n = len(alphabet)
    code = 0
    for i, ch in enumerate(text):
        code += alphabet.index(ch) * n ** i
    return code


def code_to_text(code, k, alphabet):
    n = len(alphabet)
    out = []
    for _ in range(k):
        out.append(alphabet[code % n])
        code //= n
    if code:
        raise ValueError('code too large for k')
    return ''.join(out)


@functools.lru_cache(maxsize=20000)
def row_kmers(row, k, alphabet):
    return tuple(kmer_code(t, alphabet) for t in windows(row, k))


@functools.lru_cache(maxsize=20000)
def row_minimizers(row, k, w, alphabet):
    """one value per window of length w: the smallest code among the w-k+1 k-mers inside it"""
    if k > w:
        raise ValueError('k must be <= w')
    codes = row_kmers(row, k, alphabet)
    n_inside = w - k + 1
    return tuple(min(codes[i:i + n_inside]) for i in range(len(row) - w + 1))


@functools.lru_cache(maxsize=20000)
def row_matches(row, pattern):
    return tuple(t == pattern for t in windows(row, len(pattern)))


def row_motif_scores(row, matrix, alphabet):
    """matrix[letter][position]; width = len(matrix[0])"""
    w = len(matrix[0])
    out = []
    for t in windows(row, w):
        s = 0.0
        for i, ch in enumerate(t):
            s += matrix[alphabet.index(ch)][i]
        out.append(s)
    return out


def row_counts(row, k, alphabet):
    counts = [0] * (len(alphabet) ** k)
    for c in row_kmers(row, k, alphabet):
        counts[c] += 1
    return counts


# ---- collections ---------------------------------------------------------
def kmers(rows, k, alphabet):
    return [list(row_kmers(r, k, alphabet)) for r in rows]


def window_texts(rows, w):
    return [windows(r, w) for r in rows]


def minimizers(rows, k, w, alphabet):
    return [list(row_minimizers(r, k, w, alphabet)) for r in rows]


def matches(rows, pattern):
    return [list(row_matches(r, pattern)) for r in rows]


def motif_scores(rows, matrix, alphabet):
    return [row_motif_scores(r, matrix, alphabet) for r in rows]


def counts_per_row(rows, k, alphabet):
    return [row_counts(r, k, alphabet) for r in rows]


def counts_total(rows, k, alphabet):
    tot = [0] * (len(alphabet) ** k)
    for r in rows:
        for c in row_kmers(r, k, alphabet):
            tot[c] += 1
    return tot


def n_windows(rows, w):
    return [max(0, len(r) - w + 1) for r in rows]


def count_labels(k, alphabet):
    """label of count slot c is the text of code c"""
    return [code_to_text(c, k, alphabet) for c in range(len(alphabet) ** k)]


# ---- the model checked against independent sources -------------------------
def selftest():
    """Documented examples from bionumpy's own docstrings / docs and hand-computed values
    (independent of the implementation's behaviour on the explored space)."""
    A = 'ACGT'
    # docs of get_kmers: ["ACTG","AAA","TTGGC"], k=3 -> [[ACT,CTG],[AAA],[TTG,TGG,GGC]]
    assert window_texts(['ACTG', 'AAA', 'TTGGC'], 3) == [['ACT', 'CTG'], ['AAA'], ['TTG', 'TGG', 'GGC']]
    # docs of get_minimizers(k=2, window=4): [[AC],[],[GG,GC]]
    got = minimizers(['ACTG', 'AAA', 'TTGGC'], 2, 4, A)
    assert [[code_to_text(c, 2, A) for c in r] for r in got] == [['AC'], [], ['GG', 'GC']]
    # docs of match_string: ['ACGT','TACTAC'] vs 'AC'
    assert matches(['ACGT', 'TACTAC'], 'AC') == [[True, False, False], [False, True, False, False, True]]
    # hand-computed little-endian codes: 'AC' = 0 + 1*4, 'CT' = 1 + 3*4, 'TG' = 3 + 2*4
    assert kmers(['ACTG'], 2, A) == [[4, 13, 11]]
    assert kmer_code('GC', 'ACG') == 2 + 1 * 3 and code_to_text(5, 2, 'ACG') == 'GC'
    assert kmer_code('T' * 31, A) == 4 ** 31 - 1
    for a in ('AC', 'ACG', A, 'ACGTN'):
        for k in (1, 2, 3):
            for c in range(len(a) ** k):
                assert kmer_code(code_to_text(c, k, a), a) == c
    # docs of get_motif_scores: log-odds of {"A":[5,1],"C":[1,5],"G":[0,0],"T":[0,0]} against uniform 1/4
    import math
    m = [[math.log(5 * 4), math.log(1 * 4)], [math.log(1 * 4), math.log(5 * 4)],
         [float('-inf')] * 2, [float('-inf')] * 2]
    got = motif_scores(['ACTGAC', 'CA', 'GG'], m, A)
    assert [len(r) for r in got] == [5, 1, 1]
    assert abs(got[0][0] - 5.99146455) < 1e-8 and got[0][1] == float('-inf') and abs(got[0][4] - 5.99146455) < 1e-8
    assert abs(got[1][0] - 2.77258872) < 1e-8 and got[2][0] == float('-inf')
    assert counts_total(['ACGT', '', 'TTGGC'], 2, A) == [0, 0, 0, 0, 1, 0, 1, 0, 0, 1, 1, 1, 0, 0, 1, 1]
    assert n_windows(['', 'A', 'AC', 'ACG'], 2) == [0, 0, 1, 2]
    return True
