"""Reference model for genomic arrays (C09): a genome is a list of contig sizes, a genomic array is one dense
per-base array per contig (concatenated in genome order when an operation is applied).

Plain boring Python + dense NumPy on purpose.  Nothing in here imports bionumpy.

  * enumeration helpers: every run layout of a contig, every bedGraph of a genome, value assignments
  * dense expansion of bedGraph records / interval sets, record by record
  * back-conversion oracle: records in genome order, non-overlapping, inside the contig, re-expanding to the array
  * dense NumPy evaluation of the expression operators  + - * < > == & | ~
"""
import itertools

import numpy as np


# ------------------------------------------------------------------ genomes
def chrom_names(n):
    return ['chr%d' % (i + 1) for i in range(n)]


def genomes(max_chroms, max_size, min_chroms=1):
    """every tuple of contig sizes, fewest contigs first"""
    out = []
    for n in range(min_chroms, max_chroms + 1):
        out.extend(itertools.product(range(1, max_size + 1), repeat=n))
    return out


def offsets(sizes):
    out = [0]
    for s in sizes:
        out.append(out[-1] + s)
    return out


# ------------------------------------------------------------------ run layouts (bedGraph shapes)
_LAYOUT_CACHE = {}


def run_layouts(size):
    """every list of sorted, pairwise disjoint (touching allowed), non-empty half-open runs inside [0, size):
    covers 'starts at 0 / later', 'ends at size / before', 'gap / no gap' in every combination, and the empty list"""
    if size in _LAYOUT_CACHE:
        return _LAYOUT_CACHE[size]
    out = []

    def rec(pos, cur):
        out.append(tuple(cur))
        for a in range(pos, size):
            for b in range(a + 1, size + 1):
                cur.append((a, b))
                rec(b, cur)
                cur.pop()

    rec(0, [])
    out.sort(key=lambda l: (len(l), l))
    _LAYOUT_CACHE[size] = out
    return out


def genome_layouts(sizes):
    """every bedGraph shape on the genome: list of (contig index, start, stop), in genome order"""
    per = [run_layouts(s) for s in sizes]
    for combo in itertools.product(*per):
        yield [(ci, a, b) for ci, runs in enumerate(combo) for (a, b) in runs]


def value_assignments(n_runs, mode):
    """mode ('all', values)      -> every function runs -> values
       mode ('pattern', pattern) -> run i (counted along the genome) gets pattern[i % len(pattern)]"""
    if mode[0] == 'all':
        return itertools.product(mode[1], repeat=n_runs)
    if mode[0] == 'pattern':
        p = mode[1]
        return [tuple(p[i % len(p)] for i in range(n_runs))]
    raise ValueError(mode)


def to_kind(v, kind):
    """abstract value 0/1/2 -> concrete value of the kind (floats are dyadic so that sums are exact)"""
    if kind == 'int':
        return int(v)
    if kind == 'float':
        return {0: 0.0, 1: 0.5, 2: 2.0}[v]
    if kind == 'bool':
        return bool(v)
    raise ValueError(kind)


NP_DTYPE = {'int': np.int64, 'float': np.float64, 'bool': np.bool_}


def all_intervals(sizes):
    """every non-empty half-open interval inside a contig: (contig index, start, stop), genome order"""
    return [(ci, a, b) for ci, s in enumerate(sizes) for a in range(s) for b in range(a + 1, s + 1)]


# ------------------------------------------------------------------ dense expansion
def dense_from_bedgraph(sizes, records, kind):
    """records (contig, start, stop, value) -> one dense array per contig, built record by record; gaps are 0 / False"""
    out = [np.zeros(s, dtype=NP_DTYPE[kind]) for s in sizes]
    for ci, a, b, v in records:
        for x in range(a, b):
            out[ci][x] = v
    return out


def coverage(sizes, intervals):
    out = [np.zeros(s, dtype=np.int64) for s in sizes]
    for ci, a, b in intervals:
        for x in range(a, b):
            out[ci][x] += 1
    return out


def mask(sizes, intervals):
    return [c > 0 for c in coverage(sizes, intervals)]


def concat(per_contig):
    return np.concatenate(per_contig) if len(per_contig) else np.zeros(0)


def split(flat, sizes):
    off = offsets(sizes)
    return [flat[off[i]:off[i + 1]] for i in range(len(sizes))]


def kind_of(arr):
    k = np.asarray(arr).dtype.kind
    return {'b': 'bool', 'i': 'int', 'u': 'int', 'f': 'float'}.get(k, k)


def values_equal(observed, expected):
    """value-level equality of two 1-d arrays (1 == 1.0 == True); lengths must agree"""
    o = np.asarray(observed).tolist()
    e = np.asarray(expected).tolist()
    return len(o) == len(e) and all(x == y for x, y in zip(o, e))


# ------------------------------------------------------------------ back-conversion oracle
def judge_records(sizes, names, rows, dense_per_contig, with_value):
    """rows: list of (chromosome name, start, stop[, value]) as the library returned them.
    -> (clause, detail) of the first clause broken, or None.
    Clauses (exactly what the statement lists):
      unknown-contig     a record names a contig the genome does not have
      not-genome-order   contigs not in genome order, or starts not ascending inside a contig
      overlapping        a record starts before the previous record of the same contig stops
      outside-contig     a record reaches outside [0, size) (so it cannot expand into the dense array)
      expands-differently   the records, with gaps filled by 0 / False, do not give the dense array"""
    index = {n: i for i, n in enumerate(names)}
    last_ci, last_start, last_stop = -1, -1, 0
    rebuilt = [np.zeros(s, dtype=np.asarray(d).dtype if with_value else np.bool_) for s, d in zip(sizes, dense_per_contig)]
    for row in rows:
        name, a, b = row[0], int(row[1]), int(row[2])
        if name not in index:
            return ('unknown-contig', row)
        ci = index[name]
        if ci < last_ci or (ci == last_ci and a < last_start):
            return ('not-genome-order', row)
        if ci != last_ci:
            last_stop = 0
        if a < last_stop:
            return ('overlapping', row)
        if a < 0 or b > sizes[ci]:
            return ('outside-contig', row)
        for x in range(a, b):
            rebuilt[ci][x] = row[3] if with_value else True
        last_ci, last_start, last_stop = ci, a, max(b, last_stop)
    for ci in range(len(sizes)):
        if not values_equal(rebuilt[ci], dense_per_contig[ci]):
            return ('expands-differently', {'contig': names[ci], 'rebuilt': rebuilt[ci].tolist()})
    return None


# ------------------------------------------------------------------ expression operators on dense arrays
ARITH = ('+', '-', '*')
COMPARE = ('<', '>', '==')
LOGIC = ('&', '|')

_NP_OPS = {
    '+': np.add, '-': np.subtract, '*': np.multiply,
    '<': np.less, '>': np.greater, '==': np.equal,
    '&': np.logical_and, '|': np.logical_or,
}


def apply_binary(op, a, b):
    """the same NumPy operation on dense operands (a, b: dense arrays or Python scalars)"""
    if op in LOGIC:
        # operands are boolean by construction (DESIGN 4.3); & and | on bool arrays are logical and/or
        return {'&': np.bitwise_and, '|': np.bitwise_or}[op](a, b)
    return _NP_OPS[op](a, b)


def apply_invert(a):
    return np.invert(a)


HIST_EDGES = [-2, 0, 0.5, 1, 2, 4]


def dense_histogram(flat):
    counts, edges = np.histogram(flat, bins=HIST_EDGES)
    return counts.tolist(), edges.tolist()


def dense_sum(flat):
    return np.sum(flat).tolist()
