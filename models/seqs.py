"""Reference models for DNA sequence semantics (C14): complement, reverse
complement, stranded extraction, translation with the standard genetic code.

Plain, boring Python.  Everything is table driven; the tables are written out
by hand from the textbook definitions (NOT derived from bionumpy and NOT derived
from Biopython).  `cross_check_with_biopython()` compares them with Bio.Seq /
Bio.Data.CodonTable (a cross-check of the model, not the oracle, DESIGN 4.6).
"""
import itertools

# ----------------------------------------------------------------------------
# alphabet and complement (Watson-Crick pairs; N is its own complement);
# the model keeps the case of the input, comparisons with the library are made
# case-insensitively by the check (DESIGN 4.3).
UPPER = 'ACGTN'
LOWER = 'acgtn'
DNA_LETTERS = UPPER + LOWER                     # the statement's alphabet
DNA_LETTERS_NO_N = 'ACGTacgt'

COMPLEMENT = {
    'A': 'T', 'T': 'A', 'C': 'G', 'G': 'C', 'N': 'N',
    'a': 't', 't': 'a', 'c': 'g', 'g': 'c', 'n': 'n',
}


def complement(s):
    return ''.join(COMPLEMENT[ch] for ch in s)


def reverse_complement(s):
    """reversed sequence with A<->T, C<->G exchanged and N fixed"""
    out = []
    for ch in reversed(s):
        out.append(COMPLEMENT[ch])
    return ''.join(out)


def reverse_complement_rows(rows):
    return [reverse_complement(r) for r in rows]


def fold(s):
    """case-insensitive comparison key for one sequence"""
    return s.upper()


def fold_rows(rows):
    return [r.upper() for r in rows]


# ----------------------------------------------------------------------------
# stranded extraction
def stranded_extract(reference, intervals):
    """intervals: iterable of (start, stop, strand) with strand in '+-';
    '+' -> reference[start:stop]; '-' -> reverse complement of it."""
    out = []
    for start, stop, strand in intervals:
        if not (0 <= start <= stop <= len(reference)):
            raise ValueError('interval out of bounds: %r on %d' % ((start, stop), len(reference)))
        sub = reference[start:stop]
        if strand == '+':
            out.append(sub)
        elif strand == '-':
            out.append(reverse_complement(sub))
        else:
            raise ValueError('model defines only + and - strands, got %r' % (strand,))
    return out


def all_intervals(n):
    """every [start, stop) with 0 <= start <= stop <= n (empty intervals included), simplest first"""
    out = []
    for length in range(0, n + 1):
        for start in range(0, n - length + 1):
            out.append((start, start + length))
    return out


def all_stranded_intervals(n):
    return [(s, e, st) for (s, e) in all_intervals(n) for st in '+-']


# ----------------------------------------------------------------------------
# standard genetic code (NCBI translation table 1), amino acid -> codons,
# written in the usual textbook form.
_AMINO_ACID_CODONS = {
    'F': 'TTT TTC',
    'L': 'TTA TTG CTT CTC CTA CTG',
    'I': 'ATT ATC ATA',
    'M': 'ATG',
    'V': 'GTT GTC GTA GTG',
    'S': 'TCT TCC TCA TCG AGT AGC',
    'P': 'CCT CCC CCA CCG',
    'T': 'ACT ACC ACA ACG',
    'A': 'GCT GCC GCA GCG',
    'Y': 'TAT TAC',
    'H': 'CAT CAC',
    'Q': 'CAA CAG',
    'N': 'AAT AAC',
    'K': 'AAA AAG',
    'D': 'GAT GAC',
    'E': 'GAA GAG',
    'C': 'TGT TGC',
    'W': 'TGG',
    'R': 'CGT CGC CGA CGG AGA AGG',
    'G': 'GGT GGC GGA GGG',
    '*': 'TAA TAG TGA',
}

GENETIC_CODE = {}
for _aa, _codons in _AMINO_ACID_CODONS.items():
    for _c in _codons.split():
        assert _c not in GENETIC_CODE, _c
        GENETIC_CODE[_c] = _aa
assert len(GENETIC_CODE) == 64
assert sorted(GENETIC_CODE) == sorted(''.join(p) for p in itertools.product('ACGT', repeat=3))

CODONS = sorted(GENETIC_CODE)                   # the 64 codons, alphabetical (AAA .. TTT)
STOP_CODONS = ('TAA', 'TAG', 'TGA')


def translate(s):
    """amino acid of each codon in order, stop codons as '*'; len(s) % 3 == 0 is a precondition"""
    if len(s) % 3 != 0:
        raise ValueError('precondition: length multiple of three')
    out = []
    for i in range(0, len(s), 3):
        out.append(GENETIC_CODE[s[i:i + 3].upper()])
    return ''.join(out)


def translate_rows(rows):
    return [translate(r) for r in rows]


# ----------------------------------------------------------------------------
# finite spaces (canonical order: shortest first, then lexicographic in the
# order of the alphabet given)
def strings_of_length(alphabet, n):
    for tup in itertools.product(alphabet, repeat=n):
        yield ''.join(tup)


def strings_up_to(alphabet, max_len):
    for n in range(0, max_len + 1):
        for s in strings_of_length(alphabet, n):
            yield s


def count_strings_up_to(k, max_len):
    return sum(k ** n for n in range(0, max_len + 1))


def length_profiles(n_rows, total):
    """every tuple of n_rows non-negative row lengths summing to total"""
    if n_rows == 0:
        if total == 0:
            yield ()
        return
    if n_rows == 1:
        yield (total,)
        return
    for first in range(0, total + 1):
        for rest in length_profiles(n_rows - 1, total - first):
            yield (first,) + rest


def split_by_profile(s, profile):
    out = []
    pos = 0
    for l in profile:
        out.append(s[pos:pos + l])
        pos += l
    assert pos == len(s)
    return out


def row_lists(alphabet, max_rows, max_total, min_rows=1):
    """every list of min_rows..max_rows strings over alphabet with at most max_total letters in total
    (empty rows included), simplest first"""
    for total in range(0, max_total + 1):
        for n_rows in range(min_rows, max_rows + 1):
            for profile in length_profiles(n_rows, total):
                for s in strings_of_length(alphabet, total):
                    yield split_by_profile(s, profile)


def count_row_lists(k, max_rows, max_total, min_rows=1):
    import math
    n = 0
    for total in range(0, max_total + 1):
        for n_rows in range(min_rows, max_rows + 1):
            n += math.comb(total + n_rows - 1, n_rows - 1) * k ** total
    return n


# ----------------------------------------------------------------------------
# cross-check of the tables against Biopython (never the oracle)
def bio_reverse_complement(s):
    from Bio.Seq import reverse_complement as rc
    return rc(s)


def bio_translate(s):
    from Bio.Seq import translate as tr
    return tr(s.upper(), table=1) if s else ''


def cross_check_with_biopython(max_len=3):
    """Raises AssertionError if the hand-written tables disagree with Biopython.
    Complement: every string over the 10 letters up to max_len; genetic code: all 64 codons in all
    8 case spellings, plus the stop set and the forward table of NCBI table 1."""
    from Bio.Data import CodonTable
    n = 0
    for s in strings_up_to(DNA_LETTERS, max_len):
        assert bio_reverse_complement(s) == reverse_complement(s), s
        assert reverse_complement(reverse_complement(s)) == s, s
        assert len(reverse_complement(s)) == len(s)
        n += 1
    std = CodonTable.unambiguous_dna_by_id[1]
    for codon in CODONS:
        if codon in std.stop_codons:
            assert GENETIC_CODE[codon] == '*', codon
        else:
            assert GENETIC_CODE[codon] == std.forward_table[codon], codon
        for spelled in itertools.product(*[(ch, ch.lower()) for ch in codon]):
            sp = ''.join(spelled)
            assert translate(sp) == bio_translate(sp) == GENETIC_CODE[codon], sp
            n += 1
    assert tuple(sorted(std.stop_codons)) == STOP_CODONS
    return n


def selftest():
    """entry point for selftest/: 0 on success"""
    cross_check_with_biopython(4)
    return 0
