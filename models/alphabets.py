"""Reference model for alphabet encodings (C06).  Plain Python, no bionumpy import.

Text is a Python str of latin-1 characters (one character == one byte 0..255).
An *alphabet* is an ordered string of upper-case symbols; the code of a symbol
is its index.  A character is accepted iff it is a symbol of the alphabet or
the ASCII lower-case form of a symbol that is a *letter* (A-Z).  Decoding an
accepted text gives the text with ASCII a-z upper-cased.

The alphabets are written down here from their definitions (IUPAC nucleotides,
the 20 amino acids + stop, SAMv1 section 4.2 for the BAM 4-bit sequence table
'=ACMGRSVTWYHKDBN' and the CIGAR operation table 'MIDNSHP=X', BED strand
'+-.', decimal digits) and do not read anything from the library.
"""
import collections
import itertools

ALPHABETS = collections.OrderedDict([
    ('ACGT', 'ACGT'),
    ('ACTG', 'ACTG'),
    ('ACGTN', 'ACGTN'),
    ('ACTGN', 'ACTGN'),
    ('ACUG', 'ACUG'),
    ('amino', 'ACDEFGHIKLMNPQRSTVWY*'),
    ('bam4bit', '=ACMGRSVTWYHKDBN'),
    ('cigarop', 'MIDNSHP=X'),
    ('strand', '+-.'),
    ('digits', '0123456789'),
])

# attribute of bionumpy.encodings.alphabet_encoding that holds the predefined encoding
LIB_ATTR = {
    'ACGT': 'ACGTEncoding', 'ACTG': 'ACTGEncoding', 'ACGTN': 'ACGTnEncoding', 'ACTGN': 'ACTGnEncoding',
    'ACUG': 'ACUGEncoding', 'amino': 'AminoAcidEncoding', 'bam4bit': 'BamEncoding', 'cigarop': 'CigarOpEncoding',
    'strand': 'StrandEncoding', 'digits': 'DigitEncoding',
}
FLAT_ENCODINGS = ('strand',)      # FlatAlphabetEncoding: n-d input is flattened by design

# <= 6 symbols per alphabet for the multi-character enumeration: first and last symbol, every kind of
# symbol the alphabet has (upper letter, non-letter) and lower-case spellings of letters.
SUB_ALPHABET = {
    'ACGT': 'ACGTag',
    'ACTG': 'ACTGat',
    'ACGTN': 'ACGTNn',
    'ACTGN': 'ACTGNn',
    'ACUG': 'ACUGau',
    'amino': 'A*YCkW',
    'bam4bit': '=NATmB',
    'cigarop': 'MX=iDS',
    'strand': '+-.',
    'digits': '014589',
}

# numeric "offset" encodings of bionumpy.encodings (value = byte - offset)
NUMERIC = collections.OrderedDict([('quality', 33), ('digit_offset', 48), ('cigar_offset', 0)])
NUMERIC_LIB_ATTR = {'quality': 'QualityEncoding', 'digit_offset': 'DigitEncoding', 'cigar_offset': 'CigarEncoding'}

ACCEPTED_CLASSES = ('upper_letter', 'nonletter_symbol', 'lower_of_letter')
FOREIGN_CLASSES = ('nonletter_symbol+32', 'nul', 'high', 'symbol-32', 'adjacent', 'other_ascii')


def is_upper_letter(ch):
    return 'A' <= ch <= 'Z'


def upper(text):
    """ASCII upper-casing only (str.upper would also touch latin-1 letters)."""
    return ''.join(chr(ord(c) - 32) if 'a' <= c <= 'z' else c for c in text)


def char_class(name, ch):
    """Class of one character relative to an alphabet; the first matching rule wins."""
    alpha = ALPHABETS[name]
    o = ord(ch)
    if ch in alpha:
        return 'upper_letter' if is_upper_letter(ch) else 'nonletter_symbol'
    if 'a' <= ch <= 'z' and chr(o - 32) in alpha:
        return 'lower_of_letter'
    if o - 32 >= 0 and chr(o - 32) in alpha:
        return 'nonletter_symbol+32'          # the symbol is not a letter, else the rule above had matched
    if o == 0:
        return 'nul'
    if o >= 128:
        return 'high'
    if chr(o + 32) in alpha:
        return 'symbol-32'
    if chr(o + 1) in alpha or (o >= 1 and chr(o - 1) in alpha):
        return 'adjacent'
    return 'other_ascii'


def accepts(name, ch):
    return char_class(name, ch) in ACCEPTED_CLASSES


def code_of(name, ch):
    return ALPHABETS[name].index(upper(ch))


def encode_model(name, rows):
    """rows: list of str.  -> dict(ok, rows (upper-cased), codes, offending, classes)"""
    offending = None
    classes = set()
    for ri, row in enumerate(rows):
        for ci, ch in enumerate(row):
            cl = char_class(name, ch)
            classes.add(cl)
            if cl not in ACCEPTED_CLASSES and offending is None:
                offending = {'row': ri, 'pos': ci, 'byte': ord(ch), 'class': cl}
    ok = offending is None
    out = {'ok': ok, 'offending': offending, 'classes': sorted(classes)}
    if ok:
        out['rows'] = [upper(r) for r in rows]
        out['codes'] = [[code_of(name, c) for c in r] for r in rows]
    return out


def class_label(classes):
    return '+'.join(sorted(classes)) if classes else 'empty'


def foreign_representatives(name):
    """One (two for 'adjacent') character per foreign class, chosen deterministically: lowest byte of the class
    (and the highest for 'adjacent').  Every byte is covered one by one in the byte sweep; these stand for their
    class inside longer texts."""
    by_class = collections.OrderedDict((c, []) for c in FOREIGN_CLASSES)
    for b in range(256):
        cl = char_class(name, chr(b))
        if cl in by_class:
            by_class[cl].append(chr(b))
    out = []
    for cl, chars in by_class.items():
        if not chars:
            continue
        out.append((cl, chars[0]))
        if cl == 'adjacent' and len(chars) > 1:
            out.append((cl, chars[-1]))
    return out


# ---------------------------------------------------------------- enumeration helpers
def profiles(n, max_rows):
    """every tuple of 1..max_rows row lengths (zeros allowed) that sums to n, canonical order"""
    out = []
    for r in range(1, max_rows + 1):
        for cuts in itertools.combinations_with_replacement(range(n + 1), r - 1):
            edges = (0,) + cuts + (n,)
            out.append(tuple(edges[i + 1] - edges[i] for i in range(r)))
    return out


def split_rows(text, lengths):
    rows = []
    pos = 0
    for l in lengths:
        rows.append(text[pos:pos + l])
        pos += l
    assert pos == len(text)
    return rows


# ---------------------------------------------------------------- re-targeting facts
def common_prefix_len(a, b):
    n = 0
    for x, y in zip(a, b):
        if x != y:
            break
        n += 1
    return n


def retarget_facts(src, tgt, text):
    """Facts about (source alphabet, target, upper-case text over the source alphabet).
    tgt may be 'ascii' (the base encoding: every byte is a symbol, code == byte)."""
    sa = ALPHABETS[src]
    if tgt == 'ascii':
        return {'max_code_vs_common_prefix': 'target-not-an-alphabet', 'text_in_target': True,
                'text_vs_target': 'all-symbols', 'codes_reusable': False if text else True}
    ta = ALPHABETS[tgt]
    p = common_prefix_len(sa, ta)
    if not text:
        rel = 'empty'
    else:
        m = max(sa.index(c) for c in text)
        rel = '<' if m < p else ('==' if m == p else '>')
    in_target = all(c in ta for c in text)
    reusable = all(c in ta and ta.index(c) == sa.index(c) for c in text)
    foreign = sorted({char_class(tgt, c) for c in text} - set(ACCEPTED_CLASSES))
    return {'max_code_vs_common_prefix': rel, 'text_in_target': in_target,
            'text_vs_target': '+'.join(foreign) if foreign else 'all-symbols', 'codes_reusable': reusable}
