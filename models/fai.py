"""Reference model for FASTA + faidx-style index (.fai) + random access.  Plain Python, LF only.

A *record* is (header, sequence, width):
  header   text after '>' on the header line; the record NAME is its first whitespace-delimited token, the
           rest (if any) is the description;
  sequence the bases, a str of length >= 1;
  width    bases per full sequence line, or None for "everything on one line".

A .fai row is (name, rlen, offset, lenc, lenb):
  rlen    number of bases of the record (the true sequence length)
  offset  byte offset in the file of the first base
  lenc    bases per sequence line     (= length of the first sequence line)
  lenb    bytes per sequence line     (= lenc + 1 for LF files)

Two independent derivations of the rows are provided (constructive from the record list while rendering, and by
scanning the rendered bytes line by line); `build` asserts they agree, so a slip in either one is a model
error (harness error), never a verdict on bionumpy.
"""

ALPHABET = 'ACGTNacgtn'      # 10 distinct letters: every window of <= 10 consecutive bases has distinct letters


def name_of(header):
    return header.split()[0]


def sequence_for(record_index, length):
    """Deterministic content: neighbouring bases differ, every position of a record of length <= 10 carries a
    different letter, and different records start at a different phase (a read that strays into a neighbour
    record or is shifted by one base cannot return the right text)."""
    phase = (3 * record_index) % len(ALPHABET)
    return ''.join(ALPHABET[(phase + i) % len(ALPHABET)] for i in range(length))


def lines_of(sequence, width):
    if width is None or width >= len(sequence):
        return [sequence]
    return [sequence[i:i + width] for i in range(0, len(sequence), width)]


def render(records, final_newline=True):
    """-> (bytes, rows) : the file and the constructive index rows."""
    out = []
    rows = []
    pos = 0
    for header, sequence, width in records:
        assert len(sequence) >= 1 and '\n' not in header and header.strip() == header and header
        head = '>' + header + '\n'
        out.append(head)
        pos += len(head)
        ls = lines_of(sequence, width)
        lenc = len(ls[0])
        rows.append((name_of(header), len(sequence), pos, lenc, lenc + 1))
        body = '\n'.join(ls) + '\n'
        out.append(body)
        pos += len(body)
    text = ''.join(out)
    if not final_newline:
        assert text.endswith('\n')
        text = text[:-1]
    return text.encode('ascii'), rows


def scan(data):
    """Spec-level faidx of LF-terminated FASTA bytes, by scanning lines (independent of `render`).
    -> rows.  The bytes-per-line of a record is the byte length of its first sequence line including the
    terminator that is actually present in the file."""
    rows = []
    pos = 0
    cur = None
    n = len(data)
    while pos < n:
        end = data.find(b'\n', pos)
        if end < 0:
            line, nxt, term = data[pos:], n, 0
        else:
            line, nxt, term = data[pos:end], end + 1, 1
        if line.startswith(b'>'):
            if cur is not None:
                rows.append(tuple(cur))
            cur = [line[1:].decode('ascii').split()[0], 0, None, None, None]
        else:
            assert cur is not None, 'sequence line before the first header'
            if cur[2] is None:
                cur[2], cur[3], cur[4] = pos, len(line), len(line) + term
            cur[1] += len(line)
        pos = nxt
    if cur is not None:
        rows.append(tuple(cur))
    return rows


def build(records, final_newline=True):
    """-> (bytes, rows, sequences{name: str}).  Asserts the two derivations agree (except for the bytes-per-line
    of an unterminated single last line, where the scanner sees no terminator: see `lenb_is_ambiguous`)."""
    data, rows = render(records, final_newline)
    scanned = scan(data)
    assert len(scanned) == len(rows), (scanned, rows)
    for i, (a, b) in enumerate(zip(rows, scanned)):
        if a != b:
            assert lenb_is_ambiguous(records, final_newline, i) and a[:4] == b[:4] and b[4] == a[4] - 1, (a, b)
    seqs = {}
    for header, sequence, width in records:
        assert name_of(header) not in seqs, 'duplicate name'
        seqs[name_of(header)] = sequence
    # the index must address the file: check it against the bytes themselves
    for (name, rlen, offset, lenc, lenb) in rows:
        assert fetch_from_bytes(data, (name, rlen, offset, lenc, lenb), 0, rlen) == seqs[name]
    return data, rows, seqs


def lenb_is_ambiguous(records, final_newline, i):
    """The last record, on a single line, with no newline after it: 'bytes per line' may be read as lenc (what
    is in the file) or lenc+1 (what a terminated line would have); both address the record correctly."""
    if final_newline or i != len(records) - 1:
        return False
    header, sequence, width = records[i]
    return len(lines_of(sequence, width)) == 1


def fetch_from_bytes(data, row, a, b):
    """faidx addressing, base by base (deliberately not the row/mod block arithmetic of the implementation)."""
    name, rlen, offset, lenc, lenb = row
    assert 0 <= a <= b <= rlen
    out = []
    for i in range(a, b):
        p = offset + (i // lenc) * lenb + (i % lenc)
        out.append(chr(data[p]))
    return ''.join(out)


def fai_text(rows):
    return ''.join('%s\t%d\t%d\t%d\t%d\n' % r for r in rows)


def parse_fai_text(text):
    """-> list of (name_column_verbatim, rlen, offset, lenc, lenb); raises ValueError on a malformed file."""
    rows = []
    for line in text.split('\n'):
        if line == '':
            continue
        parts = line.split('\t')
        if len(parts) != 5:
            raise ValueError('fai line with %d columns: %r' % (len(parts), line))
        rows.append((parts[0],) + tuple(int(p) for p in parts[1:]))
    return rows


def all_intervals(length):
    """every [a,b) with 0 <= a < b <= length, simplest first"""
    return [(a, b) for b in range(1, length + 1) for a in range(0, b)]


def break_class(a, b, length, lenc):
    """Where an interval's ends fall relative to line breaks (a break sits between base k*lenc-1 and k*lenc)."""
    def cls(x):
        if lenc >= length:
            return 'single-line'
        m = x % lenc
        if m == 0:
            return 'on-break'
        if m == lenc - 1:
            return 'before-break'
        if m == 1:
            return 'after-break'
        return 'inside'
    return cls(a), cls(b)


def crosses_break(a, b, lenc):
    """True iff bases a..b-1 lie on more than one line"""
    return (a // lenc) != ((b - 1) // lenc)


def selftest(example_dir='/repo/example_data'):
    """The model must reproduce the samtools-written example indexes.  -> list of problems (empty = ok)"""
    import os
    problems = []
    # small_sequence.fa.fai in the repository carries a length column that counts the newline bytes
    # (10124 for 10000 bases: it was not written by samtools), so only its other columns are compared.
    for stem, cols in (('small_genome.fa', (0, 1, 2, 3, 4)), ('small_sequence.fa', (0, 2, 3, 4))):
        fa, fai = os.path.join(example_dir, stem), os.path.join(example_dir, stem + '.fai')
        if not (os.path.isfile(fa) and os.path.isfile(fai) and os.path.getsize(fa) and os.path.getsize(fai)):
            continue
        with open(fa, 'rb') as f:
            data = f.read()
        with open(fai) as f:
            ref = parse_fai_text(f.read())
        rows = scan(data)
        if [tuple(r[c] for c in cols) for r in rows] != [tuple(r[c] for c in cols) for r in ref]:
            problems.append((stem, rows, ref))
        for row in rows:      # the scanned index addresses the file: first and last base are not newlines
            s = fetch_from_bytes(data, row, 0, row[1])
            if '\n' in s or '>' in s or len(s) != row[1]:
                problems.append((stem, 'scanned row does not address bases', row))
    return problems
