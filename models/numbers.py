"""Reference model for C18 (numbers <-> text) and the finite domains the check enumerates.

The semantic model is Python's own int / float / str (CPython's float() is
correctly rounded, repr(int) is the canonical decimal text).  Everything else
here is plain enumeration of the boundary sets named in DESIGN 7 / C18 and
classification of a value or text into a handful of *case* classes that are
used as failure features (facts about the input, never about the symptom).
"""
import itertools
import math
import re
import struct

INT64_MIN = -2 ** 63
INT64_MAX = 2 ** 63 - 1

# ---------------------------------------------------------------- integer semantics
_INT_RE = re.compile(r'^[+-]?[0-9]+$')


def int_text(v):
    """canonical decimal text of an integer"""
    return str(int(v))


def int_value(text):
    """value of a decimal integer text: optional sign, digits, leading zeros allowed"""
    if not _INT_RE.match(text):
        raise ValueError('not a decimal integer text: %r' % (text,))
    return int(text)


def join_ints_text(element_texts, sep=',', keep_last=False):
    """element-by-element join of already formatted element texts"""
    s = sep.join(element_texts)
    if keep_last and element_texts:
        s += sep
    return s


def split_text(text, sep=','):
    return text.split(sep)


# ---------------------------------------------------------------- integer domains
POW2_Q = (7, 8, 15, 16, 31, 32, 52, 53, 62)


def boundary_ints():
    """DESIGN 7 / C18 set B, ascending, all inside int64."""
    s = {0, INT64_MIN, INT64_MAX, INT64_MIN + 1}
    for p in range(0, 19):
        for d in (-2, -1, 0, 1, 2):
            for sign in (1, -1):
                s.add(sign * (10 ** p + d))
    for q in POW2_Q:
        for d in (-1, 0, 1):
            for sign in (1, -1):
                s.add(sign * (2 ** q + d))
    return sorted(v for v in s if INT64_MIN <= v <= INT64_MAX)


def boundary_ints_small():
    """the d in {-1,0,1} / exact 2^q part of B (quick-tier pair batches; singletons always use all of B)"""
    s = {0, INT64_MIN, INT64_MAX, INT64_MIN + 1}
    for p in range(0, 19):
        for d in (-1, 0, 1):
            for sign in (1, -1):
                s.add(sign * (10 ** p + d))
    for q in POW2_Q:
        for sign in (1, -1):
            s.add(sign * 2 ** q)
    return sorted(v for v in s if INT64_MIN <= v <= INT64_MAX)


# a 12-value core covering widths 1, 2, 3, 10, 15, 16, 18, 19 and both signs, away from / at the extremes
CORE_INTS_12 = (0, 7, -1, 10, -99, 100, 2 ** 31, -(10 ** 14 + 1), 10 ** 15, -(10 ** 17), INT64_MAX, INT64_MIN + 1)
# thorough: 24 values (adds the remaining widths and the values just below powers of ten / two)
CORE_INTS_24 = CORE_INTS_12 + (9, -10, 999, -1000, 65535, -(2 ** 32), 10 ** 9 - 1, 2 ** 53 + 1, -(10 ** 12),
                               10 ** 16 + 2, -(10 ** 18 - 1), INT64_MIN)
CORE_INTS_4 = (0, -7, 100, 10 ** 17)
CORE_INTS_6 = (0, -7, 10, 999, -(10 ** 14), INT64_MAX)


def n_digits(v):
    return len(str(abs(int(v))))


def int_class(v):
    """A handful of classes; facts about the value only."""
    v = int(v)
    if v == INT64_MIN:
        return 'int64-min'
    if v == INT64_MIN + 1:
        return 'int64-min+1'
    if v == INT64_MAX:
        return 'int64-max'
    a = abs(v)
    if a == 0:
        return 'zero'
    best = None
    for p in range(0, 19):
        d = a - 10 ** p
        if abs(d) <= 2 and (best is None or abs(d) < abs(best)):
            best = d
    if best is not None:
        if best == 0:
            return 'pow10'
        return 'pow10-below' if best < 0 else 'pow10-above'
    for q in range(1, 63):
        if abs(a - 2 ** q) <= 1:
            return 'pow2-near'
    return 'other'


def int_features(v):
    return {'class': int_class(v), 'digits': '15-19' if n_digits(v) >= 15 else '1-14', 'negative': int(v) < 0}


def int_spellings(v):
    """(spelling name, text) for every spelling of v in the property's grammar that the check enumerates."""
    v = int(v)
    digits = str(abs(v))
    out = [('canonical', str(v))]
    if v >= 0:
        out.append(('plus', '+' + digits))
        out.append(('zeros', '0' + digits))
        out.append(('zeros', '000' + digits))
        out.append(('plus+zeros', '+00' + digits))
    else:
        out.append(('minus+zeros', '-0' + digits))
        out.append(('minus+zeros', '-000' + digits))
    if v == 0:
        out.append(('minus-zero', '-0'))
        out.append(('minus-zero', '-000'))
    return out


def spelling_of(text):
    t = text
    sign = ''
    if t[0] in '+-':
        sign, t = t[0], t[1:]
    zeros = len(t) > 1 and t[0] == '0'
    if int(t) == 0 and sign == '-':
        return 'minus-zero'
    if sign == '+':
        return 'plus+zeros' if zeros else 'plus'
    if sign == '-':
        return 'minus+zeros' if zeros else 'canonical'
    return 'zeros' if zeros else 'canonical'


def lists_upto(values, maxlen):
    """every list (tuple) of length 0..maxlen over values, shortest first"""
    for n in range(0, maxlen + 1):
        for t in itertools.product(values, repeat=n):
            yield t


# ---------------------------------------------------------------- float semantics
_FLOAT_RE = re.compile(r'^(-?)([0-9]*)(\.?)([0-9]*)(?:e([+-]?)([0-9]+))?$')


def float_value(text):
    """nearest double of a decimal / lower-case scientific text (CPython float() is correctly rounded)"""
    m = _FLOAT_RE.match(text)
    if not m or not (m.group(2) or m.group(4)):
        raise ValueError('not in the float grammar: %r' % (text,))
    return float(text)


def _ordinal(x):
    i = struct.unpack('<q', struct.pack('<d', x))[0]
    return i if i >= 0 else -(i & 0x7fffffffffffffff)


def ulp_distance(a, b):
    """number of representable doubles between a and b (0.0 and -0.0 are 0 apart); inf if either is nan"""
    a = float(a)
    b = float(b)
    if math.isnan(a) or math.isnan(b):
        return float('inf')
    return abs(_ordinal(a) - _ordinal(b))


MIN_NORMAL = 2.2250738585072014e-308


def judgeable_double(x):
    """inside the property's quantifier: finite, and zero or normal (|x| within about 1e-307..1e308)"""
    return (not math.isinf(x)) and (not math.isnan(x)) and (x == 0.0 or abs(x) >= MIN_NORMAL)


def float_text_facts(text):
    """facts about a float text of the grammar (used as failure features)"""
    m = _FLOAT_RE.match(text)
    neg, ip, dot, fp, esign, edigits = m.groups()
    digits = (ip + fp).lstrip('0')
    sig = len(digits.rstrip('0')) if digits else 0
    sig = max(sig, 1)
    if not dot:
        point = 'none'
    elif not ip:
        point = 'leading'
    elif not fp:
        point = 'trailing'
    else:
        point = 'inner'
    if edigits is None:
        exp = 'none'
    else:
        exp = 'abs<=22' if abs(int(edigits)) <= 22 else 'abs>22'
    return {'point': point, 'neg': bool(neg), 'sig_digits': '1-15' if sig <= 15 else '16-17', 'exp': exp}


def double_facts(x):
    """facts about a double, derived from its shortest round-trip text (Python repr)"""
    r = repr(float(x))
    mant, _, e = r.partition('e')
    digits = mant.replace('-', '').replace('.', '').lstrip('0').rstrip('0')
    sig = max(len(digits), 1)
    return {'repr_form': 'scientific' if e else 'decimal', 'sig_digits': '1-15' if sig <= 15 else '16-17'}


# ---------------------------------------------------------------- float domains
MANT_DIGITS = '1590'
EXPONENTS_QUICK = ('', 'e0', 'e1', 'e-1', 'e10', 'e+10', 'e-10', 'e300', 'e-300')
EXPONENTS_THOROUGH = EXPONENTS_QUICK + ('e22', 'e-22', 'e23', 'e-23', 'e100', 'e-100', 'e007')
LONG_PATTERNS = ('9999999999999999999', '1234567890123456789', '1111111111111111111', '1000000000000000001',
                 '9876543210987654321', '5555555555555555555', '1000000000000000000', '7071067811865475244')


def with_points(digits):
    """the digit string without a point and with a point at every position (leading and trailing included)"""
    yield digits
    for p in range(0, len(digits) + 1):
        yield digits[:p] + '.' + digits[p:]


def short_mantissas(maxlen):
    for n in range(1, maxlen + 1):
        for t in itertools.product(MANT_DIGITS, repeat=n):
            for m in with_points(''.join(t)):
                yield m


def long_mantissas(patterns, lengths=range(6, 18)):
    for pat in patterns:
        for n in lengths:
            d = pat[:n]
            if pat == '1000000000000000001':    # 1 0...0 1 of every length
                d = '1' + '0' * (n - 2) + '1'
            for m in with_points(d):
                yield m


def float_texts(mantissas, exponents, signs=('', '-')):
    for m in mantissas:
        for e in exponents:
            for s in signs:
                yield s + m + e


def written_out_mantissas(max_zeros=24):
    """few significant digits, many digits in the text: d, dd followed by 10..max_zeros zeros (values beyond 2**63, the
    integer written out in full), without a point, with a trailing point, '.0' and '.5'; and the mirror image
    0.000...0d with as many leading zeros"""
    for lead in ('1', '9', '5', '93', '18', '10'):
        for z in range(10, max_zeros + 1):
            for tail in ('', '.', '.0', '.5'):
                yield lead + '0' * z + tail
            yield '0.' + '0' * z + lead
            yield '.' + '0' * z + lead


# partners for the independence batches: short/long, decimal/scientific, with/without point, both signs
PARTNERS_DEC = ('5', '-100.001', '.25', '12345678901234567')
PARTNERS_SCI = ('1.5e-10', '-9e300', '5.e+10', '.125e-300')
FLOAT_CORE_TEXTS = ('0', '5', '-1', '1.5', '-.5', '5.', '0.001', '-100.001', '99999', '12345678901234567',
                    '0.1', '1e0', '-1e1', '1.5e-1', '.5e10', '5.e+10', '-9e300', '1e-300', '9.99e-10',
                    '1.2345678901234567e100', '-0.0', '1e22', '1e23', '00.50', '1e007')


def structured_doubles():
    """doubles for the format->parse round trip that do not come from the text space:
    powers of ten and their neighbours, powers of two, classic non-terminating fractions."""
    out = []
    for k in range(-300, 301):
        x = float('1e%d' % k)
        out.extend([x, math.nextafter(x, math.inf), math.nextafter(x, 0.0)])
    for k in range(-996, 997):
        out.append(2.0 ** k)
    for k in range(1, 11):
        out.append(k / 10.0)
        out.append(k * 0.1)
        out.append(1.0 / k)
        out.append(-k / 3.0)
    for q in (24, 31, 32, 52, 53, 62, 63, 64):
        out.extend([float(2 ** q - 1), float(2 ** q + 1), -float(2 ** q)])
    out.extend([0.0, -0.0, 123456789.123, 9007199254740993.0, 1e15 + 0.5, 1e16 + 2, 9999999999999998.0,
                0.0001, 0.00001, 0.00009999999999999999, 3.141592653589793, 2.718281828459045, 1.7976931348623157e300,
                2.2250738585072014e-300])
    seen = set()
    res = []
    for x in out:
        k = struct.pack('<d', x)
        if k not in seen and judgeable_double(x):
            seen.add(k)
            res.append(x)
    return res
