"""Reference model for C07: arrays of characters as plain Python strings.

A *value* is one of
    ('R', rows)          ragged array     rows: tuple of str (any lengths)
    ('S', text)          1-d array        text: str
    ('M', rows, width)   2-d array        rows: tuple of str, each of length `width`

A *state* is (t, u, link): the current value, the saved value (or None) and what
is known about memory sharing between the two implementation objects:
    'same'   u is t (the very same object)
    'maybe'  t was derived from u's object by indexing etc. (sharing unspecified)
    'indep'  a copy() lies between them: a mutation of t must not change u

Operations are JSON-able lists.  Every index that depends on the size of the
value (masks, index lists) is *resolved here* from the model value, so the
implementation driver and the model use literally the same concrete index.
Everything is boring Python: slicing of str / list, comprehension, join, split.
"""

FILL = {
    # no two aligned chunks of length 1..4 inside the first 16 letters coincide for the profiles used,
    # so row order / column order changes are visible in the decoded value
    'ascii': 'ab,cD,xy,Z0,q1,w',
    'dna': 'ACGTTGCAGATCCTAG',
    'acgtn': 'ACGNTTGNCAGATNCC',
}
ALPHABET = {'ascii': None, 'dna': 'ACGT', 'acgtn': 'ACGTN'}
MUT_CHARS = {'ascii': '#%', 'dna': 'TA', 'acgtn': 'NA'}
ABSENT = {'ascii': '~', 'dna': None, 'acgtn': None}
SEP = {'ascii': ',', 'dna': 'G', 'acgtn': 'N'}


def fill_rows(profile, enc):
    s = FILL[enc]
    out, k = [], 0
    for L in profile:
        out.append(''.join(s[(k + i) % len(s)] for i in range(L)))
        k += L
    return tuple(out)


# ------------------------------------------------------------------ index resolution
def mask_for(which, n):
    if which == 'alt':
        return [i % 2 == 0 for i in range(n)]
    if which == 'odd':
        return [i % 2 == 1 for i in range(n)]
    if which == 'none':
        return [False] * n
    if which == 'all':
        return [True] * n
    raise ValueError(which)


def fancy_for(which, n):
    if which == 'rep':
        return [n - 1, 0, 0]
    if which == 'empty':
        return []
    if which == 'neg':
        return [-1, -2]
    raise ValueError(which)


def sl(a, b, c):
    return slice(a, b, c)


def sl_text(a, b, c):
    s = ('' if a is None else str(a)) + ':' + ('' if b is None else str(b))
    if c is not None:
        s += ':' + str(c)
    return s


# ------------------------------------------------------------------ pure value operations
def n_rows(v):
    return len(v[1]) if v[0] in 'RM' else None


def size(v):
    return len(v[1]) if v[0] == 'S' else sum(len(r) for r in v[1])


def with_rows(v, rows):
    rows = tuple(rows)
    if v[0] == 'M':
        return ('M', rows, v[2])
    return ('R', rows)


def rows_select(v, op):
    """row selection op on R / M, element selection on S -> concrete (index-kind, index)"""
    n = len(v[1])
    k = op[0]
    if k in ('rs', 's'):
        return 'slice', sl(op[1], op[2], op[3])
    if k in ('rm', 'm'):
        return 'mask', mask_for(op[1], n)
    if k in ('rf', 'f'):
        return 'fancy', fancy_for(op[1], n)
    raise ValueError(op)


def select(seq, kind, idx):
    if kind == 'slice':
        return seq[idx]
    if kind == 'mask':
        assert len(idx) == len(seq)
        out = [x for x, m in zip(seq, idx) if m]
    else:
        out = [seq[i] for i in idx]
    return ''.join(out) if isinstance(seq, str) else tuple(out)


def col_slice(v, s):
    rows = tuple(r[s] for r in v[1])
    if v[0] == 'M':
        w = len(('x' * v[2])[s])
        return ('M', rows, w)
    return ('R', rows)


def set_cells(row, s, new):
    """row with the cells selected by slice/int s replaced by the characters of `new` (a str of the right length,
    or one character that is broadcast)"""
    lst = list(row)
    if isinstance(s, int):
        assert len(new) == 1
        lst[s] = new
        return ''.join(lst)
    k = len(lst[s])
    if len(new) == 1:
        new = new * k
    assert len(new) == k, (row, s, new)
    lst[s] = list(new)
    return ''.join(lst)


def mut_char(enc, current_cells):
    """the character written by a mutation: first candidate that changes at least one target cell"""
    for c in MUT_CHARS[enc]:
        if any(x != c for x in current_cells):
            return c
    return None


def compare_chars(v, enc):
    """(a character that occurs in the value (or the first letter), a character that does not occur (or None))"""
    flat = v[1] if v[0] == 'S' else ''.join(v[1])
    alpha = ALPHABET[enc]
    present = flat[0] if flat else (alpha[0] if alpha else 'a')
    absent = ABSENT[enc]
    if absent is None:
        for c in alpha:
            if c not in flat:
                absent = c
                break
    return present, absent


def perturbed_text(text, enc):
    """same length, last character changed (to something legal in the encoding)"""
    if not text:
        return text
    alpha = ALPHABET[enc] or 'ab#'
    for c in alpha:
        if c != text[-1]:
            return text[:-1] + c
    raise AssertionError


def perturbed_rows(rows, enc):
    rows = list(rows)
    for i in range(len(rows) - 1, -1, -1):
        if rows[i]:
            rows[i] = perturbed_text(rows[i], enc)
            break
    return rows


class State:
    __slots__ = ('t', 'u', 'link')

    def __init__(self, t, u=None, link=None):
        self.t, self.u, self.link = t, u, link

    def key(self):
        return (self.t, self.u, self.link)

    def derived(self, t):
        link = self.link
        if link == 'same':
            link = 'maybe'
        return State(t, self.u, link)

    def mutated(self, t):
        if self.u is None:
            return State(t)
        if self.link == 'same':
            return State(t, t, 'same')
        if self.link == 'indep':
            return State(t, self.u, 'indep')
        return State(t, None, None)     # sharing unspecified: the saved value is no longer judged


def elem_pos(rows, which):
    """(row, col) of the first character of the first non-empty row (non-negative indices) or of the last character
    of the last non-empty row (negative indices); None if there is no character"""
    nz = [i for i, r in enumerate(rows) if r]
    if not nz:
        return None
    if which == 'first':
        return nz[0], 0
    return nz[-1] - len(rows), -1


def apply(st, op, enc):
    """-> new State.  Raises ValueError for an op that is not enabled in st (callers use `menu`)."""
    v = st.t
    kind = v[0]
    k = op[0]
    # ---- register ops
    if k == 'save':
        return State(v, v, 'same')
    if k == 'copy':
        return State(v, st.u, 'indep' if st.u is not None else None)
    if k == 'touch':
        return State(v, st.u, st.link)
    if k in ('cat_tu', 'cat_ut'):
        u = st.u
        assert u is not None and u[0] == kind and (kind != 'M' or u[2] == v[2])
        a, b = (v, u) if k == 'cat_tu' else (u, v)
        if kind == 'S':
            return st.derived(('S', a[1] + b[1]))
        return st.derived(with_rows(v, a[1] + b[1]))
    if k == 'ravel':
        return st.derived(('S', ''.join(v[1]) if kind != 'S' else v[1]))
    # ---- selections
    if kind == 'S':
        if k in ('s', 'm', 'f'):
            ik, idx = rows_select(v, op)
            return st.derived(('S', select(v[1], ik, idx)))
        if k == 'set_i':
            i = op[1]
            c = mut_char(enc, v[1][i])
            return st.mutated(('S', set_cells(v[1], i, c)))
        if k == 'set_s':
            s = sl(op[1], op[2], op[3])
            c = mut_char(enc, v[1][s])
            if op[4] == 'str':
                c = alt_text(enc, v[1][s])
            return st.mutated(('S', set_cells(v[1], s, c)))
        if k in ('set_f', 'set_m'):
            idx = [0, -1] if k == 'set_f' else [i for i, m in enumerate(mask_for('alt', len(v[1]))) if m]
            c = mut_char(enc, [v[1][i] for i in idx])
            text = v[1]
            for i in idx:
                text = set_cells(text, i, c)
            return st.mutated(('S', text))
        raise ValueError(op)
    rows = v[1]
    if k in ('rs', 'rm', 'rf'):
        ik, idx = rows_select(v, op)
        return st.derived(with_rows(v, select(rows, ik, idx)))
    if k == 'cs':
        return st.derived(col_slice(v, sl(op[1], op[2], op[3])))
    if k == 'rc':
        ik, idx = rows_select(v, op[1])
        return st.derived(col_slice(with_rows(v, select(rows, ik, idx)), sl(*op[2])))
    if k == 'row':
        return st.derived(('S', rows[op[1]]))
    if k == 'col':
        return st.derived(('S', ''.join(r[op[1]] for r in rows)))
    if k == 'set_elem':
        i, j = elem_pos(rows, op[1])
        c = mut_char(enc, rows[i][j])
        new = list(rows)
        new[i] = set_cells(rows[i], j, c)
        return st.mutated(with_rows(v, new))
    if k == 'set_col':
        j = op[1]
        c = mut_char(enc, [r[j] for r in rows])
        return st.mutated(with_rows(v, [set_cells(r, j, c) for r in rows]))
    if k == 'set_row':
        i = op[1]
        c = mut_char(enc, rows[i])
        if op[2] == 'str':
            c = alt_text(enc, rows[i])
        new = list(rows)
        new[i] = set_cells(rows[i], slice(None), c)
        return st.mutated(with_rows(v, new))
    if k == 'set_rows':
        s = sl(op[1], op[2], op[3])
        sel = list(range(len(rows)))[s]
        c = mut_char(enc, ''.join(rows[i] for i in sel))
        new = list(rows)
        for i in sel:
            new[i] = c * len(rows[i])
        return st.mutated(with_rows(v, new))
    if k == 'set_cs':
        s = sl(op[1], op[2], op[3])
        c = mut_char(enc, ''.join(r[s] for r in rows))
        if op[4] == 'char':
            return st.mutated(with_rows(v, [set_cells(r, s, c) for r in rows]))
        vals = set_cs_values(rows, s, enc)
        return st.mutated(with_rows(v, [set_cells(r, s, x) if x else r for r, x in zip(rows, vals)]))
    raise ValueError(op)


def _alt(enc, first, k):
    return ''.join(MUT_CHARS[enc][(first + j) % 2] for j in range(k))


def set_cs_values(rows, s, enc):
    """ragged value assigned by ['set_cs', a, b, c, 'arr']: for every row a string as long as the selected cells,
    alternating the two mutation characters; the phase is the first that changes at least one cell"""
    for first in (0, 1):
        vals = [_alt(enc, first, len(r[s])) for r in rows]
        if any(x != r[s] for x, r in zip(vals, rows)):
            return vals
    raise AssertionError


def alt_text(enc, cells):
    """string as long as `cells`, alternating the two mutation characters, different from `cells`"""
    for first in (0, 1):
        text = _alt(enc, first, len(cells))
        if text != cells:
            return text
    raise AssertionError


# ------------------------------------------------------------------ menus (enabled transitions, simplest first)
ROW_SLICES = [(1, None, None), (None, -1, None), (None, None, -1), (None, None, 2), (-2, None, None)]
COL_SLICES = [(1, None, None), (None, -1, None), (None, None, -1), (None, None, 2), (-2, None, None), (1, -1, None)]
ROWCOL = [(['rs', 1, None, None], (1, None, None)), (['rs', None, None, -1], (None, None, -1)),
          (['rm', 'alt'], (None, -1, None)), (['rf', 'rep'], (1, None, None))]


def menu(st, enc):
    v = st.t
    kind = v[0]
    ops = []
    if kind == 'S':
        n = len(v[1])
        ops += [['s', a, b, c] for a, b, c in ROW_SLICES]
        ops += [['m', 'alt'], ['m', 'none']] + ([['m', 'all']] if n else [])
        ops += ([['f', 'rep']] if n >= 1 else []) + [['f', 'empty']] + ([['f', 'neg']] if n >= 2 else [])
        ops += [['copy'], ['save']]
        if st.u is not None and st.u[0] == 'S':
            ops += [['cat_tu'], ['cat_ut']]
        if n >= 1:
            ops += [['set_i', 0], ['set_i', -1], ['set_s', None, None, None, 'char'], ['set_f']]
        if n >= 2:
            ops += [['set_s', 1, None, None, 'char'], ['set_s', None, -1, None, 'str'], ['set_s', None, None, 2, 'char'], ['set_m']]
        return [o for o in ops if _changes_something(st, o, enc)]
    rows = v[1]
    n = len(rows)
    minlen = min((len(r) for r in rows), default=0)
    ops += [['rs', a, b, c] for a, b, c in ROW_SLICES]
    ops += [['rm', 'alt'], ['rm', 'none']] + ([['rm', 'all']] if n else [])
    ops += ([['rf', 'rep']] if n >= 1 else []) + [['rf', 'empty']] + ([['rf', 'neg']] if n >= 2 else [])
    ops += [['cs', a, b, c] for a, b, c in COL_SLICES]
    ops += [['rc', r, list(c)] for r, c in ROWCOL if not (r[0] == 'rf' and n == 0)]
    if n >= 1:
        ops += [['row', 0], ['row', -1]]
        if minlen >= 1:
            ops += [['col', 0], ['col', -1]]
    ops += [['ravel']] + ([['touch']] if kind == 'R' else []) + [['copy'], ['save']]
    if st.u is not None and st.u[0] == kind and (kind != 'M' or st.u[2] == v[2]):
        ops += [['cat_tu'], ['cat_ut']]
    if size(v) >= 1:
        ops += [['set_elem', 'first'], ['set_elem', 'last']]
        if minlen >= 1:
            ops += [['set_col', 0], ['set_col', -1]]
        if rows[0]:
            ops += [['set_row', 0, 'char']]
        if rows[-1]:
            ops += [['set_row', -1, 'str']]
        if kind == 'R':
            # assignments the library itself relies on (strops.join): ragged value into a column slice
            ops += [['set_cs', None, -1, None, 'arr']]
        else:
            ops += [['set_rows', 1, None, None], ['set_cs', None, -1, None, 'char'], ['set_cs', 1, None, None, 'char']]
    return [o for o in ops if _changes_something(st, o, enc)]


def _changes_something(st, op, enc):
    """mutations that cannot change any cell are not offered (mut_char() is None)"""
    if not op[0].startswith('set_'):
        return True
    v = st.t
    k = op[0]
    if v[0] == 'S':
        text = v[1]
        if k == 'set_i':
            cells = text[op[1]]
        elif k == 'set_s':
            cells = text[sl(op[1], op[2], op[3])]
        elif k == 'set_f':
            cells = text[0] + text[-1]
        else:
            cells = ''.join(text[i] for i, m in enumerate(mask_for('alt', len(text))) if m)
    else:
        rows = v[1]
        if k == 'set_elem':
            i, j = elem_pos(rows, op[1])
            cells = rows[i][j]
        elif k == 'set_col':
            cells = ''.join(r[op[1]] for r in rows)
        elif k == 'set_row':
            cells = rows[op[1]]
        elif k == 'set_rows':
            cells = ''.join(rows[sl(op[1], op[2], op[3])])
        else:
            cells = ''.join(r[sl(op[1], op[2], op[3])] for r in rows)
    return len(cells) > 0 and mut_char(enc, cells) is not None
