"""Reference model for interval-set operations (C08): everything is computed from a dense
per-base coverage list.  Plain Python on purpose; an interval is a pair (start, stop), half-open.

Nothing in here imports bionumpy or NumPy.
"""
import itertools


# ------------------------------------------------------------------ enumeration helpers
def all_intervals(S, lo=0, hi=None):
    """every non-empty half-open interval [a,b) with lo <= a < b <= hi (default: inside a contig of size S)"""
    hi = S if hi is None else hi
    return [(a, b) for a in range(lo, hi) for b in range(a + 1, hi + 1)]


def zero_length_intervals(S):
    return [(a, a) for a in range(0, S + 1)]


def sequences(items, kmax, kmin=0):
    """every ordered sequence (= every input order of every multiset) of kmin..kmax items, shortest first"""
    for k in range(kmin, kmax + 1):
        for t in itertools.product(items, repeat=k):
            yield list(t)


def multisets(items, kmax, kmin=0):
    """every multiset of kmin..kmax items in canonical (sorted) order, smallest first"""
    for k in range(kmin, kmax + 1):
        for t in itertools.combinations_with_replacement(items, k):
            yield list(t)


def internally_disjoint(ivs):
    """no base is covered twice (touching is allowed)"""
    s = sorted(ivs)
    return all(s[i][1] <= s[i + 1][0] for i in range(len(s) - 1))


def sorted_on_start(ivs):
    return all(ivs[i][0] <= ivs[i + 1][0] for i in range(len(ivs) - 1))


# ------------------------------------------------------------------ per-base definitions
def coverage(ivs, S):
    """number of intervals covering each base 0..S-1 (bases outside the contig are ignored)"""
    cov = [0] * S
    for a, b in ivs:
        for x in range(max(a, 0), min(b, S)):
            cov[x] += 1
    return cov


def mask(ivs, S):
    return [1 if c > 0 else 0 for c in coverage(ivs, S)]


def runs(bits):
    """maximal runs of truthy entries -> [(start, stop)]"""
    out = []
    start = None
    for i, v in enumerate(bits):
        if v and start is None:
            start = i
        if not v and start is not None:
            out.append((start, i))
            start = None
    if start is not None:
        out.append((start, len(bits)))
    return out


def merged(ivs, S, distance=0):
    """maximal runs of the union, then runs whose gap is <= distance are bridged"""
    rs = runs(mask(ivs, S))
    out = []
    for a, b in rs:
        if out and a - out[-1][1] <= distance:
            out[-1] = (out[-1][0], b)
        else:
            out.append((a, b))
    return out


def gaps(ivs, S):
    rs = runs(mask(ivs, S))
    return [rs[i + 1][0] - rs[i][1] for i in range(len(rs) - 1)]


def overlap_count(a, b, S):
    ma, mb = mask(a, S), mask(b, S)
    return sum(1 for x, y in zip(ma, mb) if x and y)


def intersection_mask(a, b, S):
    ma, mb = mask(a, S), mask(b, S)
    return [1 if (x and y) else 0 for x, y in zip(ma, mb)]


def unique_intersect(a, b, S):
    """entries of a (in a's order) that have at least one base covered by b"""
    mb = mask(b, S)
    return [(s, e) for (s, e) in a if any(mb[x] for x in range(max(s, 0), min(e, S)))]


def contingency(a, b, S):
    """[[both, a only], [b only, neither]] in bases"""
    ma, mb = mask(a, S), mask(b, S)
    n11 = sum(1 for x, y in zip(ma, mb) if x and y)
    n10 = sum(1 for x, y in zip(ma, mb) if x and not y)
    n01 = sum(1 for x, y in zip(ma, mb) if y and not x)
    n00 = S - n11 - n10 - n01
    return n11, n10, n01, n00


def jaccard(a, b, S):
    """|A and B| / |A or B|; None where undefined (empty union)"""
    n11, n10, n01, n00 = contingency(a, b, S)
    if n11 + n10 + n01 == 0:
        return None
    return n11 / (n11 + n10 + n01)


def forbes(a, b, S):
    """|A and B| * N / (|A| * |B|); None where undefined (A or B covers nothing)"""
    n11, n10, n01, n00 = contingency(a, b, S)
    if (n11 + n10) == 0 or (n11 + n01) == 0:
        return None
    return n11 * S / ((n11 + n10) * (n11 + n01))


# ------------------------------------------------------------------ sorting
def is_permutation(rows_in, rows_out):
    return sorted(rows_in) == sorted(rows_out)


def ordered_by(rows, rank, use_stop=True):
    """rows = [(chromosome, start, stop)]; rank: chromosome -> position in the demanded chromosome order"""
    keys = [(rank[c], s, e) if use_stop else (rank[c], s) for c, s, e in rows]
    return all(keys[i] <= keys[i + 1] for i in range(len(keys) - 1))


def tie_on_chrom_start(rows):
    """two entries with equal chromosome and start but different stop (only there does 'and stop' matter)"""
    seen = {}
    for c, s, e in rows:
        seen.setdefault((c, s), set()).add(e)
    return any(len(v) > 1 for v in seen.values())


# ------------------------------------------------------------------ clipping and extension
def clip(ivs, S):
    return [(max(0, a), min(S, b)) for a, b in ivs]


def overlaps_contig(iv, S):
    a, b = iv
    return a < b and a < S and b > 0


def extend_to_size(rows, L, S):
    """rows = [(start, stop, strand)]: '+' keeps start, '-' keeps stop; new length L unless the contig ends first"""
    out = []
    for a, b, strand in rows:
        if strand == '+':
            out.append((a, min(a + L, S)))
        else:
            out.append((max(b - L, 0), b))
    return out


def inside(ivs, S):
    return all(0 <= a and b <= S for a, b in ivs)


# ------------------------------------------------------------------ case classification (failure features)
def relation(ivs):
    """one coarse label for how the intervals of one set relate to each other"""
    if len(ivs) == 0:
        return 'empty'
    if len(ivs) == 1:
        return 'single'
    s = sorted(ivs)
    if len(set(s)) < len(s):
        return 'duplicated'
    overl = any(s[i][1] > s[j][0] for i in range(len(s)) for j in range(i + 1, len(s)))
    if overl:
        nested = any(s[i][0] <= s[j][0] and s[j][1] <= s[i][1] for i in range(len(s)) for j in range(len(s)) if i != j)
        return 'nested' if nested else 'overlapping'
    if any(s[i][1] == s[i + 1][0] for i in range(len(s) - 1)):
        return 'touching'
    return 'disjoint'
