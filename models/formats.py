"""Per-format grammars with constructive expectations.

A record is rendered from field *texts*; the expected entry is computed from
those same texts with Python's own int()/float() (spec-level semantics: strings
verbatim, VCF POS minus one, every other coordinate as written).  Rendering is
string joining, so the expected values are correct by construction and do not
share code with bionumpy.
"""
import importlib

LF, CRLF = b'\n', b'\r\n'


def resolve(path):
    mod, name = path.split(':')
    return getattr(importlib.import_module(mod), name)


# ---------------------------------------------------------------- field kinds
def parse_field(kind, text):
    if kind in ('str', 'seq', 'id'):
        return text
    if kind == 'int':
        return int(text)
    if kind == 'optint':          # Optional[int]: '.' is a placeholder
        return None if text == '.' else int(text)
    if kind == 'vcfpos':
        return int(text) - 1
    if kind == 'float':
        return float(text)
    if kind == 'strand':
        return text
    if kind == 'intlist':
        return tuple(int(x) for x in text.split(',') if x != '')
    if kind == 'qual':            # phred+33
        return tuple(ord(c) - 33 for c in text)
    raise ValueError(kind)


class Rec:
    __slots__ = ('lines', 'expected', 'texts')

    def __init__(self, lines, expected, texts=None):
        self.lines = lines          # list of bytes, no line terminators
        self.expected = expected    # tuple of model values in Format.fields order
        self.texts = texts


class Format:
    name = None
    buffer = None                   # 'module:Class'
    fields = ()                     # entry-type fields that are observed
    kinds = ()
    header = ()                     # header lines (bytes, no terminator)
    lazy_capable = True
    n_variants = 3

    def buffer_type(self):
        return resolve(self.buffer)

    def record(self, variant, i):
        raise NotImplementedError

    def render(self, recs, eol=LF, final_newline=True, header=None):
        lines = list(self.header if header is None else header)
        for r in recs:
            lines.extend(r.lines)
        data = eol.join(lines)
        if final_newline and lines:
            data += eol
        return data

    def expected(self, recs):
        from engine.observe import norm
        return [tuple(norm(v) for v in r.expected) for r in recs]


class Delimited(Format):
    """cols: list of (field or None, kind, [text per variant]); '{i}' in a text is the record position.
    field None = a column present in the file but not in the entry type (or folded, see `fold`)."""
    cols = ()
    sep = b'\t'

    @property
    def fields(self):
        return tuple(c[0] for c in self.cols if c[0] is not None)

    @property
    def kinds(self):
        return tuple(c[1] for c in self.cols if c[0] is not None)

    def texts(self, variant, i):
        out = []
        for name, kind, alts in self.cols:
            t = alts[variant % len(alts)] if not callable(alts) else alts(variant, i)
            out.append(t.replace('{i}', str(i)))
        return out

    def record_from_texts(self, texts):
        exp = tuple(parse_field(kind, t) for (name, kind, _), t in zip(self.cols, texts) if name is not None)
        line = self.sep.join(t.encode('latin1') for t in texts)
        return Rec([line], exp, texts)

    def record(self, variant, i):
        return self.record_from_texts(self.texts(variant, i))


# ---------------------------------------------------------------- concrete formats
class Bed3(Delimited):
    name = 'bed3'
    buffer = 'bionumpy.io.delimited_buffers:BedBuffer'
    cols = [('chromosome', 'id', ['c', 'chr1{i}', 'chrUn_gl0002{i}']),
            ('start', 'int', ['{i}', '12345{i}', '7']),
            ('stop', 'int', ['1{i}', '9', '123456789{i}'])]


class Bed6(Delimited):
    name = 'bed6'
    buffer = 'bionumpy.io.delimited_buffers:Bed6Buffer'
    cols = Bed3.cols + [('name', 'id', ['n{i}', 'a_long_name_{i}', 'x']),
                        ('score', 'optint', ['{i}', '100{i}', '0']),
                        ('strand', 'strand', ['+', '-', '.'])]


class BedGraph(Delimited):
    name = 'bedgraph'
    buffer = 'bionumpy.io.delimited_buffers:BdgBuffer'
    cols = Bed3.cols + [('value', 'float', ['{i}', '-2.25', '1{i}.5'])]


class NarrowPeak(Delimited):
    name = 'narrowpeak'
    buffer = 'bionumpy.io.delimited_buffers:NarrowPeakBuffer'
    cols = Bed6.cols + [('signal_value', 'float', ['{i}', '12.5', '0.25']),
                        ('p_value', 'float', ['-1', '3.{i}5', '10']),
                        ('q_value', 'float', ['0.5', '-1', '2{i}.125']),
                        ('summit', 'int', ['{i}', '-1', '1234{i}'])]


class VcfPlain(Delimited):
    """VCF without any header line (read through VCFBuffer, info kept as text)."""
    name = 'vcf'
    buffer = 'bionumpy.io.vcf_buffers:VCFBuffer'
    cols = [('chromosome', 'id', ['c', 'chr1{i}', '2']),
            ('position', 'vcfpos', ['1{i}', '1234{i}', '5']),
            ('id', 'str', ['.', 'rs{i}', 'id{i};b']),
            ('ref_seq', 'str', ['A', 'AC{i}'.replace('{i}', ''), 'G']),
            ('alt_seq', 'str', ['T', 'G,GT', 'ACGT']),
            ('quality', 'str', ['.', '4{i}', '29.5']),
            ('filter', 'str', ['PASS', '.', 'q10;s50']),
            ('info', 'str', ['.', 'DP=1{i}', 'NS=3;DP={i};DB'])]


class VcfHeader(VcfPlain):
    """VCF with ## meta lines (no INFO declarations, so info stays text) and a #CHROM line."""
    name = 'vcf_header'
    header = (b'##fileformat=VCFv4.2', b'##source=verif',
              b'#CHROM\tPOS\tID\tREF\tALT\tQUAL\tFILTER\tINFO')


class Sam(Delimited):
    name = 'sam'
    buffer = 'bionumpy.io.buffers.sam:SAMBuffer'
    header = (b'@HD\tVN:1.6\tSO:coordinate', b'@SQ\tSN:chr1\tLN:1000')
    cols = [('name', 'id', ['r{i}', 'read_number_{i}', 'q']),
            ('flag', 'int', ['0', '16', '99']),
            ('chromosome', 'id', ['chr1', 'c', '*']),
            ('position', 'int', ['{i}', '100{i}', '0']),
            ('mapq', 'int', ['60', '0', '255']),
            ('cigar', 'str', ['1M', '2M1I3M', '*']),
            ('next_chromosome', 'str', ['*', '=', 'chr1']),
            ('next_position', 'int', ['0', '12{i}', '7']),
            ('length', 'int', ['0', '-15', '30{i}']),
            ('sequence', 'str', ['A', 'ACGTAC', '*']),
            ('quality', 'str', ['!', 'IIII#~', '*']),
            ('extra', 'str', ['NM:i:{i}', 'NM:i:0\tMD:Z:6\tAS:i:{i}', 'RG:Z:g'])]


class SamNoTags(Sam):
    """SAM lines with exactly 11 columns (no optional tags)."""
    name = 'sam_notags'
    cols = Sam.cols[:-1]


class Gtf(Delimited):
    name = 'gtf'
    buffer = 'bionumpy.io.delimited_buffers:GTFBuffer'
    lazy_capable = False     # read eagerly by design (npdataclassreader._should_be_lazy)
    cols = [('chromosome', 'id', ['c', 'chr1{i}', '2']),
            ('source', 'str', ['s', 'HAVANA', 'ensembl_havana']),
            ('feature_type', 'id', ['gene', 'exon', 'CDS']),
            ('start', 'int', ['{i}', '1234{i}', '1']),
            ('stop', 'int', ['1{i}', '99999{i}', '5']),
            ('score', 'str', ['.', '0.5', '1000']),
            ('strand', 'strand', ['+', '-', '.']),
            ('phase', 'str', ['.', '0', '2']),
            ('atributes', 'str', ['gene_id "g{i}";', 'gene_id "ENSG{i}"; transcript_id "ENST{i}"; exon_number "1";',
                                  'gene_id "x"; gene_name "y z";'])]


class _SeqFormat(Format):
    names = ['s{i}', 'sequence_{i} some description', 'x']
    seqs = ['A', 'ACGTTGCATG', 'GGC']

    def _name(self, variant, i):
        return self.names[variant % 3].replace('{i}', str(i))

    def _seq(self, variant, i):
        s = self.seqs[variant % 3]
        # rotate so that neighbouring records differ
        k = i % len(s)
        return s[k:] + s[:k]


class Fasta2(_SeqFormat):
    name = 'fasta2'
    buffer = 'bionumpy.io.one_line_buffer:TwoLineFastaBuffer'
    fields = ('name', 'sequence')
    kinds = ('id', 'seq')

    def record(self, variant, i):
        n, s = self._name(variant, i), self._seq(variant, i)
        return Rec([b'>' + n.encode(), s.encode()], (n, s), (n, s))


class FastaWrapped(_SeqFormat):
    """Multi-line FASTA; width is part of the variant (sequence wrapped at `width`)."""
    name = 'fasta_wrapped'
    buffer = 'bionumpy.io.multiline_buffer:MultiLineFastaBuffer'
    fields = ('name', 'sequence')
    kinds = ('id', 'seq')
    lazy_capable = False
    seqs = ['A', 'ACGTTGCATG', 'GGCAT']
    widths = [1, 4, 3]

    def record(self, variant, i, width=None):
        n, s = self._name(variant, i), self._seq(variant, i)
        w = width or self.widths[variant % 3]
        lines = [b'>' + n.encode()] + [s[k:k + w].encode() for k in range(0, len(s), w)]
        return Rec(lines, (n, s), (n, s, w))


class Fastq(_SeqFormat):
    name = 'fastq'
    buffer = 'bionumpy.io.fastq_buffer:FastQBuffer'
    fields = ('name', 'sequence', 'quality')
    kinds = ('id', 'seq', 'qual')
    quals = ['!', 'IIII#~5+@>', '+@>']    # '+' and '@' inside qualities: the classic FASTQ trap

    def record(self, variant, i, plus=b'+'):
        n, s = self._name(variant, i), self._seq(variant, i)
        q = self.quals[variant % 3]
        k = i % len(q)
        q = q[k:] + q[:k]
        assert len(q) == len(s)
        return Rec([b'@' + n.encode(), s.encode(), plus, q.encode()], (n, s, parse_field('qual', q)), (n, s, q))


FORMATS = {f.name: f for f in [Bed3(), Bed6(), BedGraph(), NarrowPeak(), VcfPlain(), VcfHeader(), Sam(), SamNoTags(),
                               Gtf(), Fasta2(), FastaWrapped(), Fastq()]}
