"""Per-format grammars with constructive expectations.

A record is rendered from field *texts*; the expected entry is computed from
those same texts with Python's own int()/float() (spec-level semantics: strings
verbatim, VCF POS minus one, every other coordinate as written).  Rendering is
string joining, so the expected values are correct by construction and do not
share code with bionumpy.
"""
import importlib

LF, CRLF = b'\n', b'\r\n'


def resolve(path):
    mod, name = path.split(':')
    return getattr(importlib.import_module(mod), name)


# ---------------------------------------------------------------- field kinds
def parse_field(kind, text):
    if kind in ('str', 'seq', 'id'):
        return text
    if kind == 'int':
        return int(text)
    if kind == 'optint':          # Optional[int]: '.' is a placeholder
        return None if text == '.' else int(text)
    if kind == 'vcfpos':
        return int(text) - 1
    if kind == 'float':
        return float(text)
    if kind == 'strand':
        return text
    if kind == 'intlist':
        return tuple(int(x) for x in text.split(',') if x != '')
    if kind == 'qual':            # phred+33
        return tuple(ord(c) - 33 for c in text)
    raise ValueError(kind)


class Rec:
    __slots__ = ('lines', 'expected', 'texts')

    def __init__(self, lines, expected, texts=None):
        self.lines = lines          # list of bytes, no line terminators
        self.expected = expected    # tuple of model values in Format.fields order
        self.texts = texts


class Format:
    name = None
    buffer = None                   # 'module:Class'
    fields = ()                     # entry-type fields that are observed
    kinds = ()
    header = ()                     # header lines (bytes, no terminator)
    lazy_capable = True
    n_variants = 3

    def buffer_type(self):
        return resolve(self.buffer)

    def record(self, variant, i):
        raise NotImplementedError

    interior_comment = None

    def render(self, recs, eol=LF, final_newline=True, header=None, comment_after=()):
        lines = list(self.header if header is None else header)
        for i, r in enumerate(recs):
            lines.extend(r.lines)
            if i in comment_after and self.interior_comment is not None:
                lines.append(self.interior_comment)
        data = eol.join(lines)
        if final_newline and lines:
            data += eol
        return data

    def expected(self, recs):
        from engine.observe import norm
        return [tuple(norm(v) for v in r.expected) for r in recs]


class Delimited(Format):
    """cols: list of (field or None, kind, [text per variant]); '{i}' in a text is the record position.
    field None = a column present in the file but not in the entry type (or folded, see `fold`)."""
    cols = ()
    sep = b'\t'

    @property
    def fields(self):
        return tuple(c[0] for c in self.cols if c[0] is not None)

    @property
    def kinds(self):
        return tuple(c[1] for c in self.cols if c[0] is not None)

    def texts(self, variant, i):
        out = []
        for name, kind, alts in self.cols:
            t = alts[variant % len(alts)] if not callable(alts) else alts(variant, i)
            out.append(t.replace('{i}', str(i)))
        return out

    def record_from_texts(self, texts):
        exp = tuple(parse_field(kind, t) for (name, kind, _), t in zip(self.cols, texts) if name is not None)
        line = self.sep.join(t.encode('latin1') for t in texts)
        return Rec([line], exp, texts)

    def record(self, variant, i):
        return self.record_from_texts(self.texts(variant, i))


# ---------------------------------------------------------------- concrete formats
class Bed3(Delimited):
    name = 'bed3'
    buffer = 'bionumpy.io.delimited_buffers:BedBuffer'
    cols = [('chromosome', 'id', ['c', 'chr1{i}', 'chrUn_gl0002{i}']),
            ('start', 'int', ['{i}', '12345{i}', '7']),
            ('stop', 'int', ['1{i}', '9', '123456789{i}'])]


class Bed6(Delimited):
    name = 'bed6'
    buffer = 'bionumpy.io.delimited_buffers:Bed6Buffer'
    cols = Bed3.cols + [('name', 'id', ['n{i}', 'a_long_name_{i}', 'x']),
                        ('score', 'optint', ['{i}', '100{i}', '0']),
                        ('strand', 'strand', ['+', '-', '.'])]


class BedGraph(Delimited):
    name = 'bedgraph'
    buffer = 'bionumpy.io.delimited_buffers:BdgBuffer'
    cols = Bed3.cols + [('value', 'float', ['{i}', '-2.25', '1{i}.5'])]


class NarrowPeak(Delimited):
    name = 'narrowpeak'
    buffer = 'bionumpy.io.delimited_buffers:NarrowPeakBuffer'
    cols = Bed6.cols + [('signal_value', 'float', ['{i}', '12.5', '0.25']),
                        ('p_value', 'float', ['-1', '3.{i}5', '10']),
                        ('q_value', 'float', ['0.5', '-1', '2{i}.125']),
                        ('summit', 'int', ['{i}', '-1', '1234{i}'])]


class VcfPlain(Delimited):
    """VCF without any header line (read through VCFBuffer, info kept as text)."""
    name = 'vcf'
    buffer = 'bionumpy.io.vcf_buffers:VCFBuffer'
    cols = [('chromosome', 'id', ['c', 'chr1{i}', '2']),
            ('position', 'vcfpos', ['1{i}', '1234{i}', '5']),
            ('id', 'str', ['.', 'rs{i}', 'id{i};b']),
            ('ref_seq', 'str', ['A', 'AC{i}'.replace('{i}', ''), 'G']),
            ('alt_seq', 'str', ['T', 'G,GT', 'ACGT']),
            ('quality', 'str', ['.', '4{i}', '29.5']),
            ('filter', 'str', ['PASS', '.', 'q10;s50']),
            ('info', 'str', ['.', 'DP=1{i}', 'NS=3;DP={i};DB'])]


class VcfHeader(VcfPlain):
    """VCF with ## meta lines (no INFO declarations, so info stays text) and a #CHROM line."""
    name = 'vcf_header'
    header = (b'##fileformat=VCFv4.2', b'##source=verif',
              b'#CHROM\tPOS\tID\tREF\tALT\tQUAL\tFILTER\tINFO')


class Sam(Delimited):
    name = 'sam'
    buffer = 'bionumpy.io.buffers.sam:SAMBuffer'
    header = (b'@HD\tVN:1.6\tSO:coordinate', b'@SQ\tSN:chr1\tLN:1000')
    cols = [('name', 'id', ['r{i}', 'read_number_{i}', 'q']),
            ('flag', 'int', ['0', '16', '99']),
            ('chromosome', 'id', ['chr1', 'c', '*']),
            ('position', 'int', ['{i}', '100{i}', '0']),
            ('mapq', 'int', ['60', '0', '255']),
            ('cigar', 'str', ['1M', '2M1I3M', '*']),
            ('next_chromosome', 'str', ['*', '=', 'chr1']),
            ('next_position', 'int', ['0', '12{i}', '7']),
            ('length', 'int', ['0', '-15', '30{i}']),
            ('sequence', 'str', ['A', 'ACGTAC', '*']),
            ('quality', 'str', ['!', 'IIII#~', '*']),
            ('extra', 'str', ['NM:i:{i}', 'NM:i:0\tMD:Z:6\tAS:i:{i}', 'RG:Z:g'])]


class SamNoTags(Sam):
    """SAM lines with exactly 11 columns (no optional tags)."""
    name = 'sam_notags'
    cols = Sam.cols[:-1]


class Gtf(Delimited):
    name = 'gtf'
    buffer = 'bionumpy.io.delimited_buffers:GTFBuffer'
    lazy_capable = False     # read eagerly by design (npdataclassreader._should_be_lazy)
    cols = [('chromosome', 'id', ['c', 'chr1{i}', '2']),
            ('source', 'str', ['s', 'HAVANA', 'ensembl_havana']),
            ('feature_type', 'id', ['gene', 'exon', 'CDS']),
            ('start', 'int', ['{i}', '1234{i}', '1']),
            ('stop', 'int', ['1{i}', '99999{i}', '5']),
            ('score', 'str', ['.', '0.5', '1000']),
            ('strand', 'strand', ['+', '-', '.']),
            ('phase', 'str', ['.', '0', '2']),
            ('atributes', 'str', ['gene_id "g{i}";', 'gene_id "ENSG{i}"; transcript_id "ENST{i}"; exon_number "1";',
                                  'gene_id "x"; gene_name "y z";'])]


class _SeqFormat(Format):
    names = ['s{i}', 'sequence_{i} some description', 'x']
    seqs = ['A', 'ACGTTGCATG', 'GGC']

    def _name(self, variant, i):
        return self.names[variant % 3].replace('{i}', str(i))

    def _seq(self, variant, i):
        s = self.seqs[variant % 3]
        # rotate so that neighbouring records differ
        k = i % len(s)
        return s[k:] + s[:k]


class Fasta2(_SeqFormat):
    name = 'fasta2'
    buffer = 'bionumpy.io.one_line_buffer:TwoLineFastaBuffer'
    fields = ('name', 'sequence')
    kinds = ('id', 'seq')

    def record(self, variant, i):
        n, s = self._name(variant, i), self._seq(variant, i)
        return Rec([b'>' + n.encode(), s.encode()], (n, s), (n, s))


class FastaWrapped(_SeqFormat):
    """Multi-line FASTA; width is part of the variant (sequence wrapped at `width`)."""
    name = 'fasta_wrapped'
    buffer = 'bionumpy.io.multiline_buffer:MultiLineFastaBuffer'
    fields = ('name', 'sequence')
    kinds = ('id', 'seq')
    lazy_capable = False
    seqs = ['A', 'ACGTTGCATG', 'GGCAT']
    widths = [1, 4, 3]

    def record(self, variant, i, width=None):
        n, s = self._name(variant, i), self._seq(variant, i)
        w = width or self.widths[variant % 3]
        lines = [b'>' + n.encode()] + [s[k:k + w].encode() for k in range(0, len(s), w)]
        return Rec(lines, (n, s), (n, s, w))


class Fastq(_SeqFormat):
    name = 'fastq'
    buffer = 'bionumpy.io.fastq_buffer:FastQBuffer'
    fields = ('name', 'sequence', 'quality')
    kinds = ('id', 'seq', 'qual')
    quals = ['!', 'IIII#~5+@>', '+@>']    # '+' and '@' inside qualities: the classic FASTQ trap

    def record(self, variant, i, plus=b'+'):
        n, s = self._name(variant, i), self._seq(variant, i)
        q = self.quals[variant % 3]
        k = i % len(q)
        q = q[k:] + q[:k]
        assert len(q) == len(s)
        return Rec([b'@' + n.encode(), s.encode(), plus, q.encode()], (n, s, parse_field('qual', q)), (n, s, q))


FORMATS = {f.name: f for f in [Bed3(), Bed6(), BedGraph(), NarrowPeak(), VcfPlain(), VcfHeader(), Sam(), SamNoTags(),
                               Gtf(), Fasta2(), FastaWrapped(), Fastq()]}


# ======================================================================
# C02 material: more formats and per-column domains
# ======================================================================
class Bed12(Delimited):
    name = 'bed12'
    buffer = 'bionumpy.io.delimited_buffers:Bed12Buffer'
    cols = Bed6.cols + [('thick_start', 'int', ['{i}', '1000', '7']),
                        ('thick_end', 'int', ['5', '2000{i}', '8']),
                        ('item_rgb', 'str', ['0', '255,0,{i}', '0,0,0']),
                        ('block_count', 'int', ['1', '2', '3']),
                        ('block_sizes', 'intlist', ['5', '10,2{i}', '1,2,3']),
                        ('block_starts', 'intlist', ['0', '0,10{i}', '0,5,9'])]


class ChromSizes(Delimited):
    name = 'chromsizes'
    buffer = 'bionumpy.io.delimited_buffers:ChromosomeSizeBuffer'
    cols = [('name', 'str', ['c', 'chr1{i}', 'chrUn_gl0002{i}']),
            ('size', 'int', ['{i}', '24895642{i}', '7'])]


class Gff3(Gtf):
    """GFF3 with a '##gff-version' header and interior comment lines (DelimitedBufferWithInernalComments)."""
    name = 'gff3'
    buffer = 'bionumpy.io.delimited_buffers:GFFBuffer'
    lazy_capable = True
    header = (b'##gff-version 3',)
    cols = Gtf.cols[:-1] + [('atributes', 'str', ['ID=g{i}', 'ID=exon{i};Parent=t{i};Name=some name', 'ID=x;Note=a%2Cb'])]
    interior_comment = b'###'


class Gfa(Delimited):
    """GFA segment lines: S <name> <sequence>."""
    name = 'gfa'
    buffer = 'bionumpy.io.delimited_buffers:GfaSequenceBuffer'
    cols = [(None, 'str', ['S', 'S', 'S']),
            ('name', 'id', ['{i}', 'segment{i}', 's']),
            ('sequence', 'seq', ['A', 'ACGTACGT', 'GGC'])]


class Pairs(Delimited):
    name = 'pairs'
    buffer = 'bionumpy.io.pairs:PairsBuffer'
    header = (b'## pairs format v1.0', b'#columns: readID chr1 pos1 chr2 pos2 strand1 strand2')
    cols = [('read_id', 'str', ['r{i}', 'EAS139:136:FC706VJ:2:2104:23462:{i}', '.']),
            ('chrom1', 'id', ['c', 'chr1{i}', '2']),
            ('pos1', 'int', ['{i}', '1234{i}', '1']),
            ('chrom2', 'id', ['chr2', 'c', 'chrX']),
            ('pos2', 'int', ['1{i}', '9', '30000{i}']),
            ('strand1', 'strand', ['+', '-', '+']),
            ('strand2', 'strand', ['-', '-', '+'])]


class Wig(BedGraph):
    """bedGraph-style wig with interior comment lines."""
    name = 'wig'
    buffer = 'bionumpy.io.wig:WigBuffer'
    interior_comment = b'#bedGraph section'


for _f in (Bed12(), ChromSizes(), Gff3(), Gfa(), Pairs(), Wig()):
    FORMATS[_f.name] = _f


_ID = ['c', 'chr10', 'a_much_longer_identifier{i}']
_COORD = ['0', '7', '10', '4294967296', '007', '1234567890123']      # 4294967296: ten digits, beyond every 32-bit integer
_SIGNED = ['0', '7', '-3', '+5', '007', '-12345', '100000']
_FLOAT = ['0.5', '-2.25', '10', '1e3', '2.5e-3', '0', '-0.0625']
_STRAND = ['+', '-', '.']
_STR = ['.', 'x', 'some text {i}']

# per format: column index -> domain (texts).  Columns not listed keep their 3 variant texts.
DOMAINS = {
    'bed3': {0: _ID, 1: _COORD, 2: _COORD},
    'bed6': {0: _ID, 1: _COORD, 2: _COORD, 3: _ID, 4: ['.', '0', '7', '1000', '-3'], 5: _STRAND},
    'bedgraph': {0: _ID, 1: _COORD, 2: _COORD, 3: _FLOAT},
    'wig': {0: _ID, 1: _COORD, 2: _COORD, 3: _FLOAT},
    'narrowpeak': {0: _ID, 1: _COORD, 2: _COORD, 3: _ID, 4: ['.', '0', '7', '1000'], 5: _STRAND, 6: _FLOAT, 7: _FLOAT,
                   8: _FLOAT, 9: _SIGNED},
    'bed12': {0: _ID, 1: _COORD, 2: _COORD, 3: _ID, 5: _STRAND, 6: _COORD, 7: _COORD, 8: ['0', '255,0,0', '1,22,333'],
              9: ['1', '2', '10'], 10: ['5', '10,20', '10,20,', '1,2,3', '7,'], 11: ['0', '0,10', '0,10,', '0,5,9', '3,']},
    'chromsizes': {0: _ID, 1: _COORD},
    'vcf': {0: _ID, 1: ['1', '7', '10', '12345', '1234567890'], 2: ['.', 'rs1', 'rs123456;x'], 3: ['A', 'ACGT', 'N'],
            4: ['T', 'G,GT', '<DEL>', '.'], 5: ['.', '40', '29.5'], 6: ['PASS', '.', 'q10;s50'],
            7: ['.', 'DP=1', 'NS=3;DP=14;AF=0.5;DB;H2']},
    'sam': {0: _ID, 1: ['0', '16', '99', '4095'], 2: ['chr1', '*', 'c'], 3: _COORD, 4: ['0', '60', '255'],
            5: ['*', '1M', '10M2I5D3M', '3S5M'], 6: ['*', '=', 'chr2'], 7: _COORD, 8: _SIGNED,
            9: ['*', 'A', 'ACGTNACGT'], 10: ['*', '!', '~', 'II#I!~5;@'],
            11: ['NM:i:0', 'NM:i:1\tMD:Z:5A3\tXS:A:+', 'RG:Z:grp 1']},
    'sam_notags': {0: _ID, 1: ['0', '16', '99', '4095'], 3: _COORD, 8: _SIGNED},
    'gtf': {0: _ID, 1: _STR[1:] + ['HAVANA'], 2: ['gene', 'exon', 'five_prime_UTR'], 3: _COORD, 4: _COORD,
            5: ['.', '0.5', '1000'], 6: _STRAND, 7: ['.', '0', '1', '2'],
            8: ['gene_id "g";', 'gene_id "ENSG01"; transcript_id "ENST01"; exon_number "1";', 'a "b c"; d "e";']},
    'gff3': {0: _ID, 3: _COORD, 4: _COORD, 6: _STRAND, 7: ['.', '0', '1', '2'],
             8: ['ID=g', 'ID=exon1;Parent=t1;Name=some name', '.']},
    'gfa': {1: _ID, 2: ['A', 'ACGTACGT', 'N', 'acgt']},
    'pairs': {0: ['.', 'r', 'EAS139:136:FC706VJ:2:2104:23462:1'], 1: _ID, 2: _COORD, 3: _ID, 4: _COORD, 5: ['+', '-'],
              6: ['+', '-']},
}


class Bam(Format):
    """BAM records produced by the independent spec-level encoder (models/bam_spec.py).  `render` gives the
    UNCOMPRESSED BAM stream; readers get it through a gzip file object (a single gzip member is a valid container
    for bionumpy's reader, see C16)."""
    name = 'bam'
    buffer = 'bionumpy.io.bam:BamBuffer'
    fields = ('chromosome', 'name', 'flag', 'position', 'mapq', 'cigar_op', 'cigar_length', 'sequence', 'quality')
    kinds = ('id', 'id', 'int', 'int', 'int', 'enc', 'intlist', 'enc', 'intlist')
    refs = [('chr1', 1000), ('chr2', 500)]
    gzip_container = True
    _menu = [dict(ref_id=0, pos=5, mapq=60, flag=0, name='r{i}', cigar=[('M', 3)], seq='ACG', qual=[30, 31, 32]),
             dict(ref_id=1, pos=70, mapq=0, flag=16, name='read_number_{i}', cigar=[('S', 1), ('M', 2), ('I', 1)], seq='TTAG',
                  qual=[1, 2, 3, 4]),
             dict(ref_id=0, pos=9, mapq=255, flag=99, name='q', cigar=[('M', 5)], seq='ACGTN', qual=[40, 40, 40, 40, 40])]

    def record(self, variant, i):
        from models import bam_spec as S
        kw = dict(self._menu[variant % 3])
        kw['name'] = kw['name'].replace('{i}', str(i))
        rec = S.make_record(**kw)
        row = S.expected_row(rec, self.refs)
        exp = tuple(tuple(row[f]) if isinstance(row[f], list) else row[f] for f in self.fields)
        return Rec([S.encode_record(rec)], exp, rec)

    def render(self, recs, eol=LF, final_newline=True, header=None, comment_after=()):
        from models import bam_spec as S
        return S.encode_header(self.refs, '@HD\tVN:1.6\n') + b''.join(r.lines[0] for r in recs)


FORMATS['bam'] = Bam()
