"""Reference model for multi-chromosome genomes (C10).

A genome is an ordered list of (name, size); an entry is (chromosome, start, stop, strand), half-open.  Every
expected value is computed chromosome by chromosome from the single-contig definitions of models/intervals.py
(dense per-base coverage), so by construction nothing here can depend on a neighbouring chromosome.  Plain Python,
no bionumpy, no NumPy.
"""
from . import intervals as IV

NAME_MENU = ('chr1', 'chr10', 'chr1_alt', 'c')          # prefix pairs: c < chr1 < chr10, chr1 < chr1_alt; one '_' name
SEQ_BLOCK = {'chr1': 'ACG', 'chr10': 'TGA', 'chr1_alt': 'CAT', 'c': 'GTC'}
COMPLEMENT = {'A': 'T', 'C': 'G', 'G': 'C', 'T': 'A'}
MODES = ('keepall', 'default')                          # Genome.from_dict(d)  /  ..., filter_function=ignore_underscores


# ------------------------------------------------------------------ genome layout
def is_ignored(name, mode):
    return mode == 'default' and '_' in name


def included(names, mode):
    return [n for n in names if not is_ignored(n, mode)]


def size_of(names, sizes):
    return dict(zip(names, sizes))


def offsets(names, sizes, mode):
    """name -> offset of the chromosome in concatenated coordinates (included chromosomes only), and the total"""
    out = {}
    pos = 0
    for n, s in zip(names, sizes):
        if is_ignored(n, mode):
            continue
        out[n] = pos
        pos += s
    return out, pos


def to_global(names, sizes, mode, chrom, x):
    off, _ = offsets(names, sizes, mode)
    return off[chrom] + x


def to_local(names, sizes, mode, g):
    pos = 0
    for n, s in zip(names, sizes):
        if is_ignored(n, mode):
            continue
        if pos <= g < pos + s:
            return n, g - pos
        pos += s
    raise ValueError('global position %r outside the genome' % (g,))


# ------------------------------------------------------------------ the boundary-biased menu of interval sets
def set_menu(size):
    """interval sets of one chromosome, each start-sorted: nothing, first base, whole, last base, two touching
    (together reaching both ends), two nested (the outer one reaching both ends); duplicates removed"""
    cand = [
        (),
        ((0, 1),),
        ((0, size),),
        ((size - 1, size),),
        ((0, 1), (1, size)) if size >= 2 else None,
        ((0, size), (min(1, size - 1), max(size - 1, min(1, size - 1) + 1))) if size >= 1 else None,
    ]
    out = []
    for c in cand:
        if c is None or c in out:
            continue
        if any(not (0 <= a < b <= size) for a, b in c):
            continue
        out.append(c)
    return out


def small_menu(size):
    """the four sets that carry the boundary coincidences: nothing, first base, whole, last base"""
    out = []
    for c in [(), ((0, 1),), ((0, size),), ((size - 1, size),)]:
        if c not in out:
            out.append(c)
    return out


def tiny_menu(size):
    """nothing, whole (starts at 0 and reaches the end), last base (reaches the end only)"""
    out = []
    for c in [(), ((0, size),), ((size - 1, size),)]:
        if c not in out:
            out.append(c)
    return out


MENUS = {'full': set_menu, 'small': small_menu, 'tiny': tiny_menu}

STRAND_PATTERNS = ('+-', '-+', '++', '--')


def strand_of(pattern, i):
    return pattern[i % len(pattern)]


def make_rows(names, sets, pattern, order):
    """entries in genome order (chromosome by chromosome, each chromosome's set start-sorted), strands assigned by
    position from the repeating pattern; order 'reversed' reverses the whole list"""
    rows = []
    for n, ivs in zip(names, sets):
        for a, b in ivs:
            rows.append((n, a, b))
    rows = [(c, a, b, strand_of(pattern, i)) for i, (c, a, b) in enumerate(rows)]
    if order == 'reversed':
        rows = rows[::-1]
    elif order == 'interleaved':
        # round robin over the chromosomes: rows are NOT grouped by chromosome, each chromosome's own rows keep their order
        per = [[r for r in rows if r[0] == n] for n in names]
        rows = [p[i] for i in range(max((len(p) for p in per), default=0)) for p in per if i < len(p)]
    return rows


def of_chrom(rows, name):
    return [r for r in rows if r[0] == name]


def overhang(rows):
    """every entry grown by one base on both sides (sticks out of the chromosome wherever it touched an end)"""
    return [(c, a - 1, b + 1, s) for c, a, b, s in rows]


def overhang_right(rows):
    """every entry grown by one base at its end only: no negative start anywhere, so only the per-chromosome upper bound
    decides (a clip that compares with the largest chromosome instead of the entry's own one shows only here)"""
    return [(c, a, b + 1, s) for c, a, b, s in rows]


# ------------------------------------------------------------------ per-chromosome data carried by the genome
def distinct_values(name, size):
    base = 10 * (NAME_MENU.index(name) + 1) if name in NAME_MENU else 90
    return [base + p for p in range(size)]


def paired_values(names, sizes):
    """value = (global position + 1) // 2 over ALL listed chromosomes: runs of two equal values straddle
    chromosome boundaries, so the run-length representation has runs that cross them"""
    out = {}
    g = 0
    for n, s in zip(names, sizes):
        out[n] = [(g + p + 1) // 2 + 1 for p in range(s)]
        g += s
    return out


def chrom_seq(name, size):
    block = SEQ_BLOCK.get(name, 'ACG')
    return (block * (size // len(block) + 1))[:size]


def revcomp(s):
    return ''.join(COMPLEMENT[ch] for ch in reversed(s))


# ------------------------------------------------------------------ single-contig definitions
def mask(ivs, size):
    return IV.mask(ivs, size)


def pileup(ivs, size):
    return IV.coverage(ivs, size)


def mask_runs(ivs, size):
    return IV.runs(IV.mask(ivs, size))


def merged(ivs, size, distance):
    return IV.merged(ivs, size, distance)


def clip(ivs, size):
    return IV.clip(ivs, size)


def extend(rows3, length, size):
    """rows3 = [(start, stop, strand)]"""
    return IV.extend_to_size(rows3, length, size)


def sort_key_rows(rows, names):
    rank = {n: i for i, n in enumerate(names)}
    return sorted(rows, key=lambda r: (rank[r[0]], r[1], r[2]))


def window_flank(p, flank, size):
    return (max(0, p - flank), min(size, p + flank + 1))


def values_under(values, a, b, strand, stranded):
    v = list(values[a:b])
    if stranded and strand == '-':
        v = v[::-1]
    return v


def seq_under(seq, a, b, strand, stranded):
    s = seq[a:b]
    if stranded and strand == '-':
        s = revcomp(s)
    return s


def binned(positions, size, bin_size):
    n = (size + bin_size - 1) // bin_size
    out = [0] * n
    for p in positions:
        out[p // bin_size] += 1
    return out


def jaccard(names, sizes, mode, rows_a, rows_b):
    """sum over chromosomes of |A and B| / sum of |A or B|; None if the union is empty"""
    inter = union = 0
    for n, s in zip(names, sizes):
        if is_ignored(n, mode):
            continue
        ma = IV.mask([(a, b) for _, a, b, _ in of_chrom(rows_a, n)], s)
        mb = IV.mask([(a, b) for _, a, b, _ in of_chrom(rows_b, n)], s)
        inter += sum(1 for x, y in zip(ma, mb) if x and y)
        union += sum(1 for x, y in zip(ma, mb) if x or y)
    if union == 0:
        return None
    return inter / union


def mirrored(rows, names, sizes):
    sz = size_of(names, sizes)
    return [(c, sz[c] - b, sz[c] - a, s) for c, a, b, s in rows]


# ------------------------------------------------------------------ facts about a case (failure features)
def cross_gap(names, sizes, mode, rows):
    """smallest distance, in concatenated coordinates, between the covered bases of two DIFFERENT included
    chromosomes (0 = an entry ends at a chromosome end and the next chromosome with entries starts at 0 and
    every chromosome in between, if any, has size 0 -- impossible here -- so 0 means adjacent chromosomes touch).
    None if fewer than two included chromosomes have entries."""
    off, _ = offsets(names, sizes, mode)
    spans = []
    for n in names:
        if n not in off:
            continue
        r = of_chrom(rows, n)
        if r:
            spans.append((off[n] + min(a for _, a, _, _ in r), off[n] + max(b for _, _, b, _ in r)))
    if len(spans) < 2:
        return None
    return min(spans[i + 1][0] - spans[i][1] for i in range(len(spans) - 1))


def has_empty_chrom(names, mode, rows):
    return any(not of_chrom(rows, n) for n in included(names, mode))


def underscore_status(names, mode, rows):
    us = [n for n in names if '_' in n]
    if not us:
        return 'none'
    has = any(of_chrom(rows, n) for n in us)
    if mode == 'default':
        return 'ignored-with-entries' if has else 'ignored-empty'
    return 'kept-with-entries' if has else 'kept-empty'
