"""Row menus and canonical serialisation for the writable table types (C03, also used by C05/C19/C20)."""
import math

I64MAX = 2 ** 63 - 1

# kind per field: 'str' exact text, 'int' exact canonical decimal, 'float' by value, 'strand', 'intlist', 'qual', 'vcfpos'
TYPES = {
    'bed3': dict(cls='Interval', fmt='bed3',
                 fields=[('chromosome', 'str'), ('start', 'int'), ('stop', 'int')],
                 rows=[('c', 0, 10), ('chr10', 12345, 123456789012), ('chrUn_gl0002', 7, I64MAX - 1), ('c', 99, 100)]),
    'bed6': dict(cls='Bed6', fmt='bed6',
                 fields=[('chromosome', 'str'), ('start', 'int'), ('stop', 'int'), ('name', 'str'), ('score', 'int'),
                         ('strand', 'strand')],
                 rows=[('c', 0, 10, 'n', 0, '+'), ('chr10', 12345, 99, 'a_long_name', -3, '-'),
                       ('chr2', 1000000, 1000001, 'x', 1000, '.'), ('c', 5, 6, 'nn', 7, '+')]),
    'bedgraph': dict(cls='BedGraph', fmt='bedgraph',
                     fields=[('chromosome', 'str'), ('start', 'int'), ('stop', 'int'), ('value', 'float')],
                     rows=[('c', 0, 10, 0.5), ('chr10', 12345, 99, -2.25), ('chr2', 7, 8, 1e19), ('c', 1, 2, 0.0025)]),
    'narrowpeak': dict(cls='NarrowPeak', fmt='narrowpeak',
                       fields=[('chromosome', 'str'), ('start', 'int'), ('stop', 'int'), ('name', 'str'), ('score', 'int'),
                               ('strand', 'strand'), ('signal_value', 'float'), ('p_value', 'float'), ('q_value', 'float'),
                               ('summit', 'int')],
                       rows=[('c', 0, 10, 'n', 0, '+', 1.0, -1.0, 0.5, -1),
                             ('chr10', 12345, 99, 'a_long_name', 5, '.', 12.5, 3.25, 1000.0, 7),
                             ('chr2', 7, 8, 'x', 1000, '-', 0.0025, 10.0, -1.0, 123456)]),
    'bed12': dict(cls='Bed12', fmt='bed12',
                  fields=[('chromosome', 'str'), ('start', 'int'), ('stop', 'int'), ('name', 'str'), ('score', 'int'),
                          ('strand', 'strand'), ('thick_start', 'int'), ('thick_end', 'int'), ('item_rgb', 'str'),
                          ('block_count', 'int'), ('block_sizes', 'intlist'), ('block_starts', 'intlist')],
                  rows=[('c', 0, 10, 'n', 0, '+', 1, 3, '0', 1, (5,), (0,)),
                        ('chr10', 12345, 99, 'a_long_name', 5, '.', 2, 4, '255,0,0', 2, (10, 20), (0, 100)),
                        ('chr2', 7, 8, 'x', 9, '-', 7, 8, '0,0,0', 3, (1, 2, 3), (0, 5, 9))]),
    'fasta': dict(cls='SequenceEntry', fmt='fasta_wrapped',
                  fields=[('name', 'str'), ('sequence', 'str')], rows=None),   # rows generated from the line width
    'fastq': dict(cls='SequenceEntryWithQuality', fmt='fastq',
                  fields=[('name', 'str'), ('sequence', 'str'), ('quality', 'qual')],
                  rows=[('s', 'A', (0,)), ('seq two', 'ACGTA', (40, 2, 93, 10, 11)), ('x', 'GG', (10, 31)),
                        ('r4', 'ACGTACGTAC', (1, 2, 3, 4, 5, 6, 7, 8, 9, 60))]),
    'sam': dict(cls='SAMEntry', fmt='sam',
                fields=[('name', 'str'), ('flag', 'int'), ('chromosome', 'str'), ('position', 'int'), ('mapq', 'int'),
                        ('cigar', 'str'), ('next_chromosome', 'str'), ('next_position', 'int'), ('length', 'int'),
                        ('sequence', 'str'), ('quality', 'str'), ('extra', 'str')],
                rows=[('r', 0, 'chr1', 0, 60, '1M', '*', 0, 0, 'A', '!', 'NM:i:0'),
                      ('read2', 16, 'c', 1000, 0, '2M1I3M', '=', 12, -15, 'ACGTAC', 'IIII#~', 'NM:i:1\tMD:Z:6'),
                      ('q', 99, '*', 7, 255, '*', 'chr1', 7, 300, '*', '*', 'RG:Z:g')]),
    'gtf': dict(cls='GTFEntry', fmt='gtf',
                fields=[('chromosome', 'str'), ('source', 'str'), ('feature_type', 'str'), ('start', 'int'), ('stop', 'int'),
                        ('score', 'str'), ('strand', 'strand'), ('phase', 'str'), ('atributes', 'str')],
                rows=[('c', 's', 'gene', 0, 10, '.', '+', '.', 'gene_id "g";'),
                      ('chr10', 'HAVANA', 'exon', 1234, 99999, '0.5', '-', '0', 'gene_id "E"; transcript_id "T";'),
                      ('2', 'ensembl', 'CDS', 1, 5, '1000', '.', '2', 'gene_id "x"; gene_name "y z";')]),
    'vcf': dict(cls='VCFWithInfoAsStringEntry', fmt='vcf',
                fields=[('chromosome', 'str'), ('position', 'vcfpos'), ('id', 'str'), ('ref_seq', 'str'), ('alt_seq', 'str'),
                        ('quality', 'str'), ('filter', 'str'), ('info', 'str')],
                rows=[('c', 0, '.', 'A', 'T', '.', 'PASS', '.'), ('chr10', 12344, 'rs1', 'AC', 'G,GT', '40', '.', 'DP=1'),
                      ('2', 9, 'x;y', 'G', 'ACGT', '29.5', 'q10;s50', 'NS=3;DP=14;DB')]),
}


TYPES['vcf_entry'] = dict(TYPES['vcf'], cls='VCFEntry')      # a VCFEntry built by hand (info column holds text)


def fasta_rows(width):
    w = width
    lens = [1, w - 1, w, w + 1, 2 * w, 2 * w + 1]
    base = 'ACGTTGCA'
    rows = []
    for i, L in enumerate(lens):
        rows.append(('s%d' % i if i % 2 == 0 else 'seq_%d some description' % i,
                     ''.join(base[(i + k) % 8] for k in range(L))))
    return rows


def cell_text_ok(kind, text, value):
    """Does `text` canonically serialise `value`?  ints exactly, floats by value to printing precision."""
    if kind in ('str', 'strand'):
        return text == value
    if kind == 'int':
        return text == str(value)
    if kind == 'vcfpos':
        return text == str(value + 1)
    if kind == 'float':
        try:
            v = float(text)
        except ValueError:
            return False
        return float_close(v, value)
    if kind == 'intlist':
        return text.rstrip(',') == ','.join(str(x) for x in value)
    raise ValueError(kind)


def float_close(a, b, rel=1e-6):
    if a == b:
        return True
    if math.isnan(a) and math.isnan(b):
        return True
    return abs(a - b) <= rel * max(abs(a), abs(b))


def rows_close(kinds, a, b):
    """row lists equal, floats to printing precision"""
    if len(a) != len(b):
        return False
    for ra, rb in zip(a, b):
        if len(ra) != len(rb):
            return False
        for k, x, y in zip(kinds, ra, rb):
            if k == 'float':
                if not float_close(float(x), float(y)):
                    return False
            elif k in ('intlist', 'qual'):
                if tuple(x) != tuple(y):
                    return False
            else:
                if x != y:
                    return False
    return True


def build_table(tname, rows):
    """model rows -> bionumpy table of that type (public constructor with plain lists; 0 rows -> .empty())"""
    import bionumpy.datatypes as dt
    spec = TYPES[tname]
    cls = getattr(dt, spec['cls'])
    if not rows:
        return cls.empty()
    cols = {}
    for j, (name, kind) in enumerate(spec['fields']):
        vals = [r[j] for r in rows]
        if kind in ('intlist', 'qual'):
            vals = [list(v) for v in vals]
        cols[name] = vals
    return cls(**cols)
