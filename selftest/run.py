"""setup_cmd: offline self-test of the framework (no build step exists; bionumpy is imported from /repo)."""
import json
import os
import subprocess
import sys

ROOT = os.path.dirname(os.path.dirname(os.path.abspath(__file__)))


def main():
    ok = True
    import bionumpy  # noqa: F401  (must import from /repo)
    assert os.path.realpath(bionumpy.__file__).startswith('/repo/'), bionumpy.__file__
    from engine import findings
    db = findings.load()
    print('known findings: %d open, %d fixed' % (len(db['open']), len(db['fixed'])))
    man = json.load(open(os.path.join(ROOT, 'MANIFEST.json')))
    props = [json.loads(l)['id'] for l in open(os.path.join(ROOT, 'properties.jsonl'))]
    claimed = [c['property_id'] for c in man['checks']]
    na = [c['property_id'] for c in man.get('not_applicable', [])]
    assert sorted(claimed + na) == sorted(props), (claimed, na)
    for c in man['checks']:
        from engine.runner import find_check, load_check
        mod = load_check(find_check(c['property_id']))
        assert mod.PROPERTY == c['property_id']
        for tier in ('quick', 'thorough'):
            n = len(mod.shards(tier, 0))
            assert n > 0
    # schema validation with jsonschema where available (tooling venv)
    vt = '/opt/veriftools/pyvenv/bin/python'
    if os.path.exists(vt):
        code = ("import json,jsonschema,sys;"
                "jsonschema.validate(json.load(open(sys.argv[1])), json.load(open(sys.argv[2])))")
        r = subprocess.run([vt, '-c', code, os.path.join(ROOT, 'MANIFEST.json'), '/root/.vp/MANIFEST.schema.json'],
                           capture_output=True, text=True)
        if r.returncode != 0:
            print('MANIFEST schema validation failed:\n' + r.stderr[-2000:])
            ok = False
    for name in sorted(os.listdir(os.path.join(ROOT, 'selftest'))):
        if name.startswith('st_') and name.endswith('.py'):
            mod = __import__('selftest.' + name[:-3], fromlist=['main'])
            r = mod.main()
            print('selftest %s: %s' % (name, 'ok' if not r else 'FAILED'))
            ok = ok and not r
    print('selftest', 'ok' if ok else 'FAILED')
    return 0 if ok else 1


if __name__ == '__main__':
    sys.exit(main())
