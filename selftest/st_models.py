"""Model self-tests (DESIGN 4.6): the reference models are checked against independent sources."""
import importlib
import traceback


def main():
    bad = 0
    for modname in ('models.bam_spec', 'models.seqs', 'models.fai', 'models.numbers', 'models.alphabets', 'models.intervals',
                    'models.windows'):
        try:
            mod = importlib.import_module(modname)
        except ImportError:
            continue
        fn = getattr(mod, 'selftest', None)
        if fn is None:
            continue
        try:
            import inspect
            params = inspect.signature(fn).parameters
            r = fn('/repo/example_data') if params and list(params.values())[0].default is inspect._empty else fn()
            problems = r[0] if isinstance(r, tuple) else r
            if isinstance(problems, list) and problems:
                print('  %s.selftest(): PROBLEMS %s' % (modname, problems[:3]))
                bad += 1
                continue
            print('  %s.selftest(): ok %s' % (modname, r[1:] if isinstance(r, tuple) else ''))
        except Exception:
            traceback.print_exc()
            print('  %s.selftest(): FAILED' % modname)
            bad += 1
    return bad
