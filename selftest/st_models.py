"""Model self-tests (DESIGN 4.6): the reference models are checked against independent sources."""
import importlib
import traceback


def main():
    bad = 0
    for modname in ('models.bam_spec', 'models.seqs', 'models.fai', 'models.numbers', 'models.alphabets', 'models.intervals',
                    'models.windows'):
        try:
            mod = importlib.import_module(modname)
        except ImportError:
            continue
        fn = getattr(mod, 'selftest', None)
        if fn is None:
            continue
        try:
            r = fn()
            print('  %s.selftest(): %s' % (modname, 'ok' if r in (None, True, 0) or r else r))
        except Exception:
            traceback.print_exc()
            print('  %s.selftest(): FAILED' % modname)
            bad += 1
    return bad
