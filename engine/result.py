"""Per-shard result accumulator (picklable, mergeable)."""
import collections
import json
import time
import traceback as _tb

MAX_EXEMPLARS = 3       # per failure signature per shard
MAX_SAMPLES = 3


def sig_key(kind, features):
    return json.dumps([kind, sorted((k, features[k]) for k in features)], sort_keys=True, default=str)


class Result:
    def __init__(self):
        self.evaluations = 0          # cases executed
        self.states = 0               # distinct canonical states (shape A: == cases)
        self.transitions = 0          # real bionumpy calls made under the oracle
        self.traces = 0               # complete paths executed on the implementation
        self.nontrivial = 0
        self.raising = 0              # paths that ended in an (allowed) exception, not judged
        self.unsupported = 0
        self.outcomes = collections.Counter()
        self.samples = []
        self.fail_groups = {}         # sig_key -> {'kind','features','count','exemplars':[...]}
        self.capped = False
        self.planned = 0
        self.extra = collections.Counter()

    # -- recording -------------------------------------------------------
    def sample(self, s):
        if len(self.samples) < MAX_SAMPLES:
            self.samples.append(s)

    def outcome(self, o):
        self.outcomes[o if isinstance(o, str) else repr(o)] += 1

    def fail(self, kind, case, features, expected=None, observed=None, tb=None, note=None):
        k = sig_key(kind, features)
        g = self.fail_groups.get(k)
        if g is None:
            g = self.fail_groups[k] = {'kind': kind, 'features': dict(features), 'count': 0, 'exemplars': []}
        g['count'] += 1
        if len(g['exemplars']) < MAX_EXEMPLARS:
            g['exemplars'].append({'case': case, 'expected': _short(expected), 'observed': _short(observed),
                                   'traceback': tb, 'note': note})

    def merge(self, other):
        for a in ('evaluations', 'states', 'transitions', 'traces', 'nontrivial', 'raising', 'unsupported', 'planned'):
            setattr(self, a, getattr(self, a) + getattr(other, a))
        self.outcomes.update(other.outcomes)
        self.extra.update(other.extra)
        for s in other.samples:
            self.sample(s)
        self.capped = self.capped or other.capped
        for k, g in other.fail_groups.items():
            mine = self.fail_groups.get(k)
            if mine is None:
                self.fail_groups[k] = {'kind': g['kind'], 'features': g['features'], 'count': g['count'],
                                       'exemplars': list(g['exemplars']), 'shard': g.get('shard')}
            else:
                mine['count'] += g['count']
                for e in g['exemplars']:
                    if len(mine['exemplars']) < MAX_EXEMPLARS:
                        mine['exemplars'].append(e)


def _short(v, n=2000):
    if v is None:
        return None
    try:
        s = json.dumps(v, default=repr)
    except Exception:
        s = json.dumps(repr(v))
    if len(s) > n:
        return s[:n] + '...<%d more>' % (len(s) - n)
    return json.loads(s)


def tb_string(exc):
    return ''.join(_tb.format_exception(type(exc), exc, exc.__traceback__))[-3000:]


def raising_frame(exc):
    """(module-ish path, function) of the innermost frame; used as a symptom feature."""
    tb = exc.__traceback__
    last = None
    while tb is not None:
        last = tb
        tb = tb.tb_next
    if last is None:
        return ('?', '?')
    code = last.tb_frame.f_code
    fn = code.co_filename
    for marker in ('/bionumpy/', '/npstructures/', '/numpy/', '/verif/'):
        i = fn.rfind(marker)
        if i >= 0:
            fn = fn[i + 1:]
            break
    return (fn, code.co_name)


class Deadline:
    """wall cap of the run; also fires when the runner process that started the pool has gone away (a killed runner
    must not leave workers enumerating for hours)"""

    def __init__(self, t_end, runner_pid=None):
        self.t_end = t_end
        self.runner_pid = runner_pid
        self._n = 0

    def expired(self):
        if time.time() > self.t_end:
            return True
        if self.runner_pid is not None:
            self._n += 1
            if self._n % 64 == 0:
                try:
                    import os
                    os.kill(self.runner_pid, 0)
                except OSError:
                    return True
        return False
