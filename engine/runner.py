"""Check runner: shards -> process pool -> merge -> findings -> replay gate -> evidence.

Exit codes: 0 held (KNOWN-FINDING lines allowed), 1 VIOLATION, 3 harness error.
"""
import base64
import hashlib
import importlib
import json
import os
import subprocess
import sys
import time
import traceback

from . import findings
from .result import Result

ROOT = os.path.dirname(os.path.dirname(os.path.abspath(__file__)))
VCHECK = os.path.join(ROOT, 'bin', 'vcheck')
NPROC = int(os.environ.get('VERIF_NPROC', '16'))
WALL_CAP = {'quick': 360.0, 'thorough': 3000.0}
MAX_REPLAY_GROUPS = 12


class HarnessError(Exception):
    pass


def load_check(name):
    return importlib.import_module('checks.' + name)


def find_check(prop):
    prop = prop.lower()
    for fn in sorted(os.listdir(os.path.join(ROOT, 'checks'))):
        if fn.startswith(prop + '_') and fn.endswith('.py'):
            return fn[:-3]
    raise SystemExit('no check for %s' % prop)


# ---------------------------------------------------------------- workers
def _worker(args):
    modname, desc, t_end, runner_pid = args
    try:
        mod = load_check(modname)
        from .result import Deadline
        res = mod.run_shard(desc, Deadline(t_end, runner_pid))
        return ('ok', res)
    except BaseException as e:  # harness error inside a worker
        return ('err', ''.join(traceback.format_exception(type(e), e, e.__traceback__)), desc)


def run_pool(modname, shard_descs, t_end):
    import multiprocessing as mp
    total = Result()
    errors = []
    if NPROC <= 1 or len(shard_descs) <= 1:
        outs = [_worker((modname, d, t_end, None)) for d in shard_descs]
    else:
        # multiprocessing.Pool, not ProcessPoolExecutor: in CPython 3.12.1 the executor's max_tasks_per_child
        # never replaces retired workers (gh-115634) and a run with many shards hangs.
        # Every shard runs in a process of its own, forked from a server that has imported the library and the check
        # module but executed nothing: a shard's result cannot depend on which shards the same worker ran before
        # (module-level caches of the library), so a failure reproduces from (check, shard) alone.
        ctx = mp.get_context('forkserver')
        ctx.set_forkserver_preload(['numpy', 'bionumpy', 'engine.result', 'engine.observe', 'checks.' + modname])
        with ctx.Pool(processes=min(NPROC, len(shard_descs)), maxtasksperchild=1) as pool:
            outs = pool.map(_worker, [(modname, d, t_end, os.getpid()) for d in shard_descs], chunksize=1)
    for o, d in zip(outs, shard_descs):  # shard order: deterministic merge
        if o[0] == 'ok':
            for g in o[1].fail_groups.values():
                g.setdefault('shard', d)
            total.merge(o[1])
        else:
            errors.append(o)
    return total, errors


# ---------------------------------------------------------------- replay
def write_replay(prop, modname, group, exemplar, shard=None):
    payload = {
        'property': prop, 'check': modname, 'kind': group['kind'], 'features': group['features'],
        'case': exemplar['case'], 'expected': exemplar.get('expected'), 'observed': exemplar.get('observed'),
        'traceback': exemplar.get('traceback'), 'note': exemplar.get('note'), 'shard': shard,
        'how_to_replay': 'bin/vcheck replay <this file>',
    }
    mod = load_check(modname)
    if hasattr(mod, 'repro_py'):
        try:
            payload['repro_py'] = mod.repro_py(exemplar['case'])
        except Exception as e:
            payload['repro_py'] = '# could not render: %r' % (e,)
    blob = json.dumps(payload, sort_keys=True, default=repr)
    h = hashlib.sha1(blob.encode()).hexdigest()[:16]
    d = os.path.join(os.environ.get('VERIF_REPLAY_DIR') or os.path.join(ROOT, 'replays'), prop)
    os.makedirs(d, exist_ok=True)
    path = os.path.join(d, h + '.json')
    with open(path, 'w') as f:
        json.dump(payload, f, indent=1, sort_keys=True, default=repr)
    return path


def fresh_replay(path):
    """Run the replay in a fresh interpreter; returns parsed JSON verdict."""
    env = dict(os.environ)
    p = subprocess.run([VCHECK, 'replay', path, '--json'], capture_output=True, text=True, env=env, timeout=900)
    for line in p.stdout.splitlines()[::-1]:
        if line.startswith('REPLAY-JSON '):
            return json.loads(line[len('REPLAY-JSON '):])
    raise HarnessError('replay produced no verdict: rc=%s\n%s\n%s' % (p.returncode, p.stdout[-2000:], p.stderr[-2000:]))


def replay_main(path, as_json=False):
    with open(path) as f:
        payload = json.load(f)
    mod = load_check(payload['check'])
    if payload.get('shard') is not None:
        from .result import Deadline
        res = mod.run_shard(payload['shard'], Deadline(time.time() + 3600))
        fails = [{'kind': g['kind'], 'features': g['features'], 'observed': g['exemplars'][0]['observed'],
                  'expected': g['exemplars'][0]['expected'], 'traceback': g['exemplars'][0]['traceback']}
                 for g in res.fail_groups.values()
                 if g['kind'] == payload['kind'] and g['features'] == payload['features']]
    else:
        fails = mod.replay_case(payload['case'])
    verdict = {'fails': bool(fails), 'groups': sorted({(k, json.dumps(f, sort_keys=True, default=str)) for k, f in
                                                     [(x['kind'], x['features']) for x in fails]}),
               'observed': [x.get('observed') for x in fails][:3]}
    if as_json:
        print('REPLAY-JSON ' + json.dumps(verdict, default=repr))
    else:
        if fails:
            for x in fails:
                print('still fails: kind=%s features=%s' % (x['kind'], x['features']))
                print('  expected:', x.get('expected'))
                print('  observed:', x.get('observed'))
                if x.get('traceback'):
                    print(x['traceback'])
            print('VIOLATION property=%s replay=%s' % (payload['property'], path))
        else:
            print('replay passes: the case no longer fails')
    return 1 if fails else 0


# ---------------------------------------------------------------- main
def run_check(prop, tier, seed):
    t0 = time.time()
    modname = find_check(prop)
    mod = load_check(modname)
    prop = mod.PROPERTY
    db = findings.load()
    cap = float(os.environ.get('VERIF_WALL_CAP', WALL_CAP[tier]))
    t_end = t0 + cap
    descs = mod.shards(tier, seed)
    flt = os.environ.get('VERIF_SHARD_FILTER')     # development aid only: run the shards whose JSON contains the text
    if flt:
        descs = [d for d in descs if flt in json.dumps(d)]
    total, errors = run_pool(modname, descs, t_end)
    if errors:
        print('HARNESS-ERROR in %d shard(s); first:' % len(errors))
        print(errors[0][1])
        print('shard:', json.dumps(errors[0][2], default=repr)[:500])
        _write_evidence(mod, prop, tier, seed, total, t0, [], [], harness_error=True)
        return 3

    known_hit = {}
    new_groups = []
    for k in sorted(total.fail_groups):
        g = total.fail_groups[k]
        e = findings.classify(prop, g['kind'], g['features'], db)
        if e is not None:
            h = known_hit.setdefault(e['id'], {'entry': e, 'count': 0, 'groups': 0})
            h['count'] += g['count']
            h['groups'] += 1
        else:
            new_groups.append(g)

    _dump_groups(prop, total)
    violations = []
    nondet = []
    for gi, g in enumerate(new_groups):
        ex = g['exemplars'][0]
        path = write_replay(prop, modname, g, ex)
        if gi < MAX_REPLAY_GROUPS:
            v1 = fresh_replay(path)
            v2 = fresh_replay(path)
            if v1 != v2:
                nondet.append((path, v1, v2))
                continue
            if not v1['fails']:
                # warm-only failure: an earlier case of the same shard changed module-level state.  Re-run the
                # whole shard in a fresh process; if the same failure group reappears it is a real, history-
                # dependent violation whose replay artefact is the shard; otherwise the harness is at fault.
                spath = write_replay(prop, modname, g, ex, shard=g.get('shard'))
                s1 = fresh_replay(spath) if g.get('shard') is not None else {'fails': False}
                if not s1['fails']:
                    nondet.append((path, 'fails in worker, passes fresh (case and shard)', v1))
                    continue
                path = spath
        violations.append((g, path))

    for hid in sorted(known_hit):
        h = known_hit[hid]
        print('KNOWN-FINDING: property=%s id=%s %s (%d cases in %d groups)' % (
            prop, hid, h['entry']['what_fails'], h['count'], h['groups']))
    for g, path in violations:
        print('VIOLATION property=%s replay=%s' % (prop, path))
        print('  kind=%s count=%d features=%s' % (g['kind'], g['count'], json.dumps(g['features'], default=str)))
        ex = g['exemplars'][0]
        print('  case=%s' % json.dumps(ex['case'], default=repr)[:600])
        print('  expected=%s' % json.dumps(ex.get('expected'), default=repr)[:400])
        print('  observed=%s' % json.dumps(ex.get('observed'), default=repr)[:400])
    _write_evidence(mod, prop, tier, seed, total, t0, violations, known_hit)
    print('%s tier=%s seed=%d: cases=%d states=%d transitions=%d traces=%d nontrivial=%d outcomes=%d raising=%d '
          'violations=%d known=%d capped=%s wall=%.1fs' % (
              prop, tier, seed, total.evaluations, total.states, total.transitions, total.traces, total.nontrivial,
              len(total.outcomes), total.raising, len(violations), len(known_hit), total.capped, time.time() - t0))
    if nondet:
        for n in nondet:
            print('HARNESS-NONDETERMINISM replay=%s %s' % (n[0], json.dumps(n[1:], default=repr)[:500]))
        return 3
    return 1 if violations else 0


def _dump_groups(prop, total):
    d = os.path.join(os.environ.get('VERIF_REPLAY_DIR') or os.path.join(ROOT, 'replays'), prop)
    os.makedirs(d, exist_ok=True)
    with open(os.path.join(d, '_groups.json'), 'w') as f:
        json.dump([{'kind': g['kind'], 'features': g['features'], 'count': g['count'],
                    'exemplar': g['exemplars'][0]} for g in total.fail_groups.values()], f, indent=1, default=repr)


def _write_evidence(mod, prop, tier, seed, total, t0, violations, known_hit, harness_error=False):
    bounds = mod.bounds(tier, seed) if hasattr(mod, 'bounds') else {}
    cov = {
        'states': int(total.states), 'transitions': int(total.transitions),
        'traces_validated_against_impl': int(total.traces),
        'samples': total.samples or ['<none>'],
        'evaluations': int(total.evaluations), 'distinct_nontrivial': int(total.nontrivial),
        'rule': getattr(mod, 'RULE', ''),
        'exhaustive': (not total.capped) and not harness_error,
        'bounds': bounds,
        'planned': int(total.planned),
        'distinct_outcomes': len(total.outcomes),
        'outcome_histogram': dict(total.outcomes.most_common(25)),
        'paths_raising_not_judged': int(total.raising),
        'unsupported_ops': int(total.unsupported),
        'known_findings_hit': {hid: {'cases': h['count'], 'groups': h['groups']} for hid, h in (known_hit or {}).items()},
        'caps_hit': ['wall cap reached: space not completed'] if total.capped else [],
        'extra': dict(total.extra),
        'explanation': getattr(mod, 'EXPLANATION', ''),
    }
    ev = {
        'property_id': prop, 'tier': tier, 'seed': int(seed), 'level': getattr(mod, 'LEVEL', 'model_checking'),
        'coverage': cov, 'assumptions': list(getattr(mod, 'ASSUMPTIONS', [])),
        'wall_s': round(time.time() - t0, 2), 'violations': len(violations),
    }
    d = os.environ.get('VERIF_EVIDENCE_DIR') or os.path.join(ROOT, 'evidence')   # redirected only by bin/seedtest
    os.makedirs(d, exist_ok=True)
    tmp = os.path.join(d, prop + '.json.tmp')
    with open(tmp, 'w') as f:
        json.dump(ev, f, indent=1, sort_keys=True, default=repr)
    os.replace(tmp, os.path.join(d, prop + '.json'))


def main(argv=None):
    argv = list(sys.argv[1:] if argv is None else argv)
    if not argv:
        raise SystemExit('usage: vcheck <Cnn> [--tier quick|thorough] | replay <file> | selftest')
    if argv[0] == 'replay':
        return replay_main(argv[1], as_json='--json' in argv)
    if argv[0] == 'selftest':
        from selftest import run as st
        return st.main()
    prop = argv[0]
    tier = os.environ.get('VERIF_TIER', 'quick')
    if '--tier' in argv:
        tier = argv[argv.index('--tier') + 1]
    if tier not in ('quick', 'thorough'):
        raise SystemExit('bad tier')
    seed = int(os.environ.get('VERIF_SEED', '0') or 0)
    return run_check(prop, tier, seed)


if __name__ == '__main__':
    sys.exit(main())
