"""Library value -> plain Python value.

Only the most primitive accessors are used (ravel / raw / lengths / shape):
in this image several convenience paths of npstructures are broken under
NumPy 2.5 and the observer must never be the thing that fails.  Any exception
raised here is a *harness* error, never a violation (see engine.runner).
"""
import dataclasses
import numpy as np


class ObserverError(Exception):
    pass


class MalformedLibraryValue(Exception):
    """The library returned an internally inconsistent object (e.g. a ragged array whose flat data size differs
    from the sum of its row lengths).  This is an observation about bionumpy, not an observer failure."""


def _np_scalar(v):
    if isinstance(v, (np.bool_, bool)):
        return bool(v)
    if isinstance(v, (np.integer,)):
        return int(v)
    if isinstance(v, (np.floating,)):
        return float(v)
    if isinstance(v, bytes):
        return v.decode('latin1')
    return v


def _lengths_of(shape):
    # ragged shape object -> row lengths
    if hasattr(shape, 'lengths'):
        return np.asarray(shape.lengths)
    raise ObserverError('no lengths on %r' % (shape,))


def _split(flat, lengths):
    out = []
    pos = 0
    for l in lengths:
        l = int(l)
        out.append(flat[pos:pos + l])
        pos += l
    if pos != len(flat):
        raise MalformedLibraryValue('ragged flat size %d != sum(lengths) %d' % (len(flat), pos))
    return out


def decode_flat(enc_array):
    """EncodedArray (any dim) -> numpy uint8 array of ASCII codes (same shape)"""
    enc = enc_array.encoding
    if enc.is_base_encoding():
        return np.asarray(enc_array.raw())
    if not enc.is_one_to_one_encoding():
        raise ObserverError('non one-to-one encoding %r' % (enc,))
    try:
        return np.asarray(enc.decode(enc_array).raw())
    except Exception as e:
        # the library cannot decode an array it produced itself (codes outside the encoding's alphabet):
        # an observation about bionumpy, not an observer failure
        raise MalformedLibraryValue('undecodable %s array: %s: %s' % (enc, type(e).__name__, str(e)[:120]))


def column(c):
    """Return a list of Python values, one per row."""
    from bionumpy.encoded_array import EncodedArray, EncodedRaggedArray
    from bionumpy.string_array import StringArray
    from npstructures import RaggedArray
    from bionumpy.bnpdataclass import BNPDataClass
    if isinstance(c, StringArray):
        raw = c.raw()
        lst = raw.tolist()
        if isinstance(lst, bytes):
            return lst.decode('latin1')
        return [b.decode('latin1') for b in lst]
    if isinstance(c, EncodedRaggedArray):
        try:
            flat = c.ravel()
        except Exception as e:
            # flattening a ragged array the library returned fails: its shape and data are inconsistent
            raise MalformedLibraryValue('ragged array cannot be flattened: %s: %s' % (type(e).__name__, str(e)[:120]))
        lengths = _lengths_of(c._shape)
        if flat.encoding.is_one_to_one_encoding():
            codes = decode_flat(flat)
            text = bytes(np.asarray(codes, dtype=np.uint8)).decode('latin1')
            return _split(text, lengths)
        else:
            return [('enc', tuple(int(v) for v in r)) for r in _split(np.asarray(flat.raw()).tolist(), lengths)]
    if isinstance(c, EncodedArray):
        if c.encoding.is_one_to_one_encoding():
            codes = np.asarray(decode_flat(c), dtype=np.uint8)
            if codes.ndim == 0:
                return chr(int(codes))
            if codes.ndim == 1:
                return [chr(int(v)) for v in codes]
            return [bytes(row).decode('latin1') for row in codes.reshape(codes.shape[0], -1)]
        raw = np.asarray(c.raw())
        return [('enc', _np_scalar(v)) for v in raw.tolist()] if raw.ndim else ('enc', _np_scalar(raw.tolist()))
    if isinstance(c, RaggedArray):
        flat = np.asarray(c.ravel())
        lengths = _lengths_of(c._shape)
        return [[_np_scalar(v) for v in r] for r in _split(flat.tolist(), lengths)]
    if isinstance(c, BNPDataClass):
        return table_rows(c)
    if isinstance(c, np.ndarray):
        if c.ndim == 0:
            return _np_scalar(c.tolist())
        if c.ndim == 1:
            return [_np_scalar(v) for v in c.tolist()]
        return [tuple(_np_scalar(v) for v in np.ravel(r).tolist()) for r in c]
    if isinstance(c, (list, tuple)):
        return list(c)
    raise ObserverError('unknown column type %r' % (type(c),))


def field_names(t):
    return [f.name for f in dataclasses.fields(t)]


def table_rows(t, fields=None):
    """table -> list of tuples (one per row); columns normalised (see norm)."""
    names = fields if fields is not None else field_names(t)
    cols = [column(getattr(t, n)) for n in names]
    n = len(t)
    for name, c in zip(names, cols):
        if len(c) != n:
            raise ColumnLengthMismatch('column %s has %d rows, table says %d' % (name, len(c), n))
    return [tuple(norm(c[i]) for c in cols) for i in range(n)]


class ColumnLengthMismatch(Exception):
    """Not an observer error: a table whose columns disagree in length is a
    property violation in itself (C19 invariant); callers decide."""


def norm(v):
    """value-level normalisation (DESIGN 4.3): 1 == 1.0 == True, n x 1 ragged char == flat char."""
    if isinstance(v, bool):
        return int(v)
    if isinstance(v, float):
        if v != v:
            return 'nan'
        if v == int(v) and abs(v) < 2 ** 62:
            return int(v)
        return v
    if isinstance(v, (list, tuple)):
        return tuple(norm(x) for x in v)
    return v
