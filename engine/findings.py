"""Known-findings file: signature matching.  Never written at run time."""
import json
import os
import re

PATH = os.path.join(os.path.dirname(os.path.dirname(os.path.abspath(__file__))), 'KNOWN_FINDINGS.json')


def load(path=PATH):
    with open(path) as f:
        d = json.load(f)
    assert isinstance(d.get('open'), list) and isinstance(d.get('fixed'), list)
    for e in d['open']:
        for k in ('id', 'property', 'signature', 'what_fails'):
            assert k in e, (k, e)
    for line in d['fixed']:
        assert line.startswith('fixed: property='), line
    return d


def _match_value(spec, v):
    if isinstance(spec, dict):
        if 're' in spec:
            return v is not None and re.search(spec['re'], str(v)) is not None
        if 'in' in spec:
            return v in spec['in']
        if 'max' in spec or 'min' in spec:
            try:
                return (('max' not in spec or v <= spec['max']) and ('min' not in spec or v >= spec['min']))
            except TypeError:
                return False
        raise ValueError('bad signature spec %r' % (spec,))
    return spec == v


def matches(entry, prop, kind, features):
    if entry['property'] != prop:
        return False
    sig = entry['signature']
    f = dict(features)
    f['kind'] = kind
    for k, spec in sig.items():
        if k not in f:
            return False
        if not _match_value(spec, f[k]):
            return False
    return True


def classify(prop, kind, features, db):
    for e in db['open']:
        if matches(e, prop, kind, features):
            return e
    return None
