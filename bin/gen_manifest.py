#!/venv/bin/python
"""Regenerates MANIFEST.json from the check modules (each declares MANIFEST_TEXT / MANIFEST_NOTE / TECHNIQUE)."""
import json, os, sys
ROOT = os.path.dirname(os.path.dirname(os.path.abspath(__file__)))
sys.path.insert(0, ROOT); sys.path.insert(0, '/repo')
from engine.runner import load_check
props = [json.loads(l)['id'] for l in open(os.path.join(ROOT, 'properties.jsonl'))]
checks, na = [], []
CLAIMED = open(os.path.join(ROOT, 'claimed.txt')).read().split()
NA_REASONS = json.load(open(os.path.join(ROOT, 'not_applicable.json'))) if os.path.exists(os.path.join(ROOT, 'not_applicable.json')) else {}
for pid in props:
    fn = sorted(f for f in os.listdir(os.path.join(ROOT, 'checks')) if f.startswith(pid.lower() + '_'))
    if pid not in CLAIMED:
        fn = []
    if not fn:
        na.append({'property_id': pid, 'reason': NA_REASONS.get(pid, 'check not built yet in this session (planned: see DESIGN.md section 7); not claimed until it exists')})
        continue
    mod = load_check(fn[0][:-3])
    checks.append({
        'property_id': pid,
        'quick_cmd': 'bin/vcheck %s --tier quick' % pid,
        'thorough_cmd': 'bin/vcheck %s --tier thorough' % pid,
        'evidence_file': 'evidence/%s.json' % pid,
        'replay_cmd_template': 'bin/vcheck replay {path}',
        'engine': 'vcheck',
        'level_claimed': {'category': 'model_checking', 'text': mod.MANIFEST_TEXT, 'design_ref': 'DESIGN.md section 7, ' + pid},
        'level_note': mod.MANIFEST_NOTE,
        'technique': getattr(mod, 'TECHNIQUE', 'bounded exhaustive enumeration of executions of the real code against a reference model'),
    })
man = {
    'version': 1,
    'setup_cmd': 'bin/vcheck selftest',
    'hooks': {'guard': 'BIONUMPY_VERIF', 'enable': 'none needed: checks import /repo working tree directly (PYTHONPATH=/repo); no source hooks exist',
              'baseline_off_cmd': 'cd /repo && /venv/bin/python -m pytest -ra -q -p no:cacheprovider --timeout=900 --continue-on-collection-errors',
              'source_commits': [], 'add_only': True},
    'engines': [{'name': 'vcheck', 'path': 'engine/', 'serves_properties': [c['property_id'] for c in checks],
                 'kind_free_text': 'hand-written bounded exhaustive explorer for Python: finite case spaces sharded over a process pool, explicit-state BFS over operation histories replayed on fresh real objects, reference model stepped in lock-step, fresh-process double replay gate, known-findings signature matching'}],
    'checks': checks,
    'not_applicable': na,
    'notes': 'Exit codes: 0 held, 1 VIOLATION, 3 harness error. VERIF_SEED rotates extension slices only; core spaces are always enumerated in full. See DESIGN.md.',
}
json.dump(man, open(os.path.join(ROOT, 'MANIFEST.json'), 'w'), indent=1)
print('claimed', [c['property_id'] for c in checks], 'not_applicable', len(na))
