"""C08 -- interval-set operations equal their per-base definitions.

Shape A (product-space enumeration).  Every case is executed on the real bionumpy functions and on the
dense per-base model of models/intervals.py.  Sub-spaces (each with its own oracle clauses):

  cov            every input order of every multiset of <= 3 intervals on a contig of size S:
                 get_pileup, bedgraph.get_pileup, get_boolean_mask, Geometry.get_pileup / get_mask
  merge          every start-sorted order of the same multisets x every distance 0..S:
                 merge_intervals, Geometry.merge_intervals
  sort           every order of <= 3 (chromosome, interval) entries over chr1/chr2:
                 sort_intervals (plain string column, sort_order=..., string-encoded column), Geometry.sort
  extend         every order x every strand assignment x every fragment length 1..S+1:
                 extend_to_size, Geometry.extend_to_size
  clip           intervals that stick out of the contig by up to 2 bases on either side: clip, Geometry.clip
  pair_disjoint  pairs of internally non-overlapping sets (DESIGN 4.3): count_overlap, intersect
  pair_multi     pairs of arbitrary multisets: unique_intersect, jaccard, forbes, Geometry.jaccard

Within a case all operations receive the SAME operand objects (operand pool, see mk_interval): an operation that
changes the set its operand denotes is reported, and would also corrupt the next operation's judged result.
"""
import functools
import itertools
import math

from engine import observe
from engine.result import Result, tb_string
from models import intervals as M
from .common import exc_name

PROPERTY = 'C08'
LEVEL = 'model_checking'
TECHNIQUE = 'bounded exhaustive enumeration of interval sets (and pairs of sets) against a dense per-base reference model'
RULE = ('a case = one interval set (or ordered pair of sets) in one input order, plus the operation argument '
        '(merge distance, fragment length + strands, chromosome labels); enumeration is itertools.product / '
        'combinations_with_replacement over ALL half-open intervals of the contig, never sampled. Non-trivial: '
        'cov = two intervals overlap or touch; merge = the model merges something; sort = input not already sorted; '
        'extend = an extended interval is cut at a contig end; clip = an interval sticks out; pairs = the two sets '
        'share at least one base')
ASSUMPTIONS = [
    'intervals are half-open [a,b) with 0 <= a <= b <= S; zero-length intervals [p,p) cover no base and are part of the '
    'pileup / mask sub-space on the smallest sizes and of the unique_intersect / jaccard / forbes pairs (S <= 3); the other '
    'sub-spaces use non-empty intervals',
    'count_overlap / intersect are judged only on pairs of internally non-overlapping sets (DESIGN 4.3); '
    'merge_intervals only on start-sorted input (DESIGN 4.4); jaccard / forbes get start-sorted input as their docstring asks',
    'jaccard with an empty union and forbes with an empty operand are undefined (0/0) and not judged',
    'clip is judged only for intervals that share at least one base with the contig',
    'Geometry.sort is judged on (chromosome, start) only: its docstring does not promise the stop order',
    'contig sizes above the bound and more than 3 intervals per set are not explored (no sampling)',
    'result arrays are observed through to_array() and through starts/ends/values of the run-length array',
    'operands are shared between the operations of one case; after every call each operand must still hold the multiset '
    'of rows it was built from (a joint reordering of rows is not reported here: C20 compares exact snapshots)',
]
EXPLANATION = ('every interval multiset up to the bound, in every input order, is pushed through the real sort-and-cumulate '
               'implementations and compared base by base with a dense coverage list')
MANIFEST_TEXT = ('Exhaustive enumeration of interval sets on one contig against a dense per-base model. quick: contig sizes '
                 '1..6, every input order of every multiset of <= 3 intervals for pileup/mask/merge (all distances 0..S); '
                 'sort over two chromosomes (S<=4 with 3 entries, S<=6 with 2); extension for every strand assignment and '
                 'fragment length 1..S+1 (<= 2 intervals); clip; all ordered pairs of internally disjoint sets for '
                 'count_overlap/intersect (S<=5, S=6 in canonical order); all pairs of multisets for unique_intersect/'
                 'jaccard/forbes for S<=3, S=4 (of the 3x3 pairs a seed-rotated quarter), S=5 up to 3 intervals in total. '
                 'Zero-length intervals [p,p) are judged operands of pileup / mask (S <= 3) and of unique_intersect (second set) / jaccard / forbes (S <= 3). A size ladder (N = 2^k-1/2^k/2^k+1, 10^k+-1 intervals up to 2^16, thorough 2^19, in a scrambled order) compares pileup, mask, merge, sort, count_overlap and intersect with whole-array NumPy arithmetic. Within a case all operations run on the same operand objects, which must still denote the given sets after every call. thorough: everything at S<=6 with <= 3 intervals, all '
                 'multiset pairs for S<=5 and pairs with <= 4 intervals in total at S=6.')
MANIFEST_NOTE = ('Trusted: NumPy, npstructures run-length arrays (observed via to_array and via starts/ends/values), CPython, '
                 'engine/observe.py, models/intervals.py (plain per-base Python).')

CHR = 'chr1'
CHR2 = 'chr2'
# larger-contig extension: contig of size 12, interval end points only from this boundary-biased grid, exactly 4 intervals
GRID_S = 12
GRID = (0, 1, 6, 11, 12)


# =====================================================================================================
# bounds and shards
# =====================================================================================================
def bounds(tier, seed):
    if tier == 'quick':
        return {
            'cov': 'S=1..6, every ordered sequence of 0..3 intervals',
            'larger_contig_extension': ('cov + merge (d=0..12): S=12, end points from the grid {0,1,6,11,12}, every multiset '
                                        'of exactly 4 intervals in canonical order'),
            'zero_length(not judged)': 'S=1..3, sequences of <=3 with at least one zero-length interval',
            'merge': 'S=1..6, every start-sorted sequence of 0..3 intervals x d=0..S',
            'sort': 'two chromosomes: S=1..4 sequences of 0..3 entries; S=5..6 sequences of 0..2 entries',
            'extend': 'S=1..6 sequences of 0..2 intervals x all strand assignments x L=1..S+1; S<=3 also 3 intervals',
            'clip': 'S=1..6, overhang <= 2, sequences of 0..2 intervals; S<=2 also 3 intervals',
            'pair_disjoint': 'S=1..5 all ordered pairs of all orders of disjoint sets (<=3 each); S=6 canonical order',
            'pair_multi': ('S=1..3 all pairs of multisets (<=3 each); S=4 all pairs except 3x3, plus (extension slice) the '
                           '3x3 pairs with (iA+iB+seed)%4==0; S=5 pairs with <=3 intervals in total'),
            'pair_uniq_orders': 'unique_intersect on all ordered sequences: S=1..2 (<=3 each), S=3 (<=2 each)',
            'extension_slice_seed': seed,
        }
    return {
        'cov': 'S=1..6, every ordered sequence of 0..3 intervals',
        'larger_contig_extension': ('cov + merge (d=0..12): S=12, end points from the grid {0,1,6,11,12}, every ordered '
                                    'sequence of exactly 4 intervals (merge: the start-sorted ones)'),
        'zero_length(not judged)': 'S=1..4, sequences of <=3 with at least one zero-length interval',
        'merge': 'S=1..6, every start-sorted sequence of 0..3 intervals x d=0..S',
        'sort': 'two chromosomes: S=1..6 sequences of 0..3 entries',
        'extend': ('S=1..5 sequences of 0..3 intervals x all strand assignments x L=1..S+1; S=6 sequences of 0..2 and '
                   'multisets of 3 in canonical order'),
        'clip': 'S=1..4 overhang <= 2 sequences of 0..3 intervals; S=5..6 sequences of 0..2',
        'pair_disjoint': 'S=1..6 all ordered pairs of all orders of disjoint sets (<=3 each)',
        'pair_multi': 'S=1..5 all pairs of multisets (<=3 each); S=6 pairs with <=4 intervals in total',
        'pair_uniq_orders': 'unique_intersect on all ordered sequences: S=1..3 (<=3 each)',
    }


# estimated cost of one case in ms on one core (measured on this image); only used to size shards evenly
COST_MS = {'cov': 6.0, 'zero': 1.4, 'merge': 1.2, 'sort': 1.9, 'extend': 2.0, 'clip': 0.5, 'pair_disjoint': 0.4,
           'pair_multi': 4.6, 'pair_uniq': 1.0}


def _specs(tier, seed):
    q = tier == 'quick'
    out = []
    for S in range(1, 7):
        out.append({'space': 'cov', 'S': S, 'kmax': 3})
        out.append({'space': 'merge', 'S': S, 'kmax': 3})
    for S in range(1, (3 if q else 4) + 1):
        out.append({'space': 'cov', 'S': S, 'kmax': 3, 'zero': True})
    out.append({'space': 'cov', 'S': GRID_S, 'kmax': 4, 'grid': 'grid-canonical' if q else 'grid-all'})
    out.append({'space': 'merge', 'S': GRID_S, 'kmax': 4, 'grid': 'grid-canonical' if q else 'grid-all'})
    for S in range(1, 7):
        out.append({'space': 'sort', 'S': S, 'kmax': 3 if (S <= 4 or not q) else 2})
        if q:
            out.append({'space': 'extend', 'S': S, 'kmax': 3 if S <= 3 else 2, 'orders': 'all'})
        else:
            out.append({'space': 'extend', 'S': S, 'kmax': 3, 'orders': 'all' if S <= 5 else 'all<=2,canonical3'})
        if q:
            out.append({'space': 'clip', 'S': S, 'kmax': 3 if S <= 2 else 2})
        else:
            out.append({'space': 'clip', 'S': S, 'kmax': 3 if S <= 4 else 2})
        out.append({'space': 'pair_disjoint', 'S': S, 'kmax': 3, 'orders': 'canonical' if (q and S == 6) else 'all'})
    # pair_multi: arbitrary multisets, canonical order
    for S in range(1, 7):
        if q:
            if S <= 3:
                out.append({'space': 'pair_multi', 'S': S, 'kmax': 3, 'sel': 'all'})
            elif S == 4:
                out.append({'space': 'pair_multi', 'S': S, 'kmax': 3, 'sel': 'not33'})
                out.append({'space': 'pair_multi', 'S': S, 'kmax': 3, 'sel': 'only33', 'mod': 4, 'rem': seed % 4})
            elif S == 5:
                out.append({'space': 'pair_multi', 'S': S, 'kmax': 3, 'sel': 'total<=3'})
        else:
            if S <= 5:
                out.append({'space': 'pair_multi', 'S': S, 'kmax': 3, 'sel': 'all'})
            else:
                out.append({'space': 'pair_multi', 'S': S, 'kmax': 3, 'sel': 'total<=4'})
    for S in range(1, 4):
        out.append({'space': 'pair_uniq', 'S': S, 'kmax': 2 if (q and S == 3) else 3})
    # zero-length intervals [p,p) (they cover no base) among the operands of the mask-based pair functions
    for S in range(1, (4 if q else 5)):
        out.append({'space': 'pair_multi', 'S': S, 'kmax': 2, 'sel': 'all', 'zero': True})
    return out


def _sel_ok(sel, na, nb):
    if sel == 'all':
        return True
    if sel == 'not33':
        return not (na == 3 and nb == 3)
    if sel == 'only33':
        return na == 3 and nb == 3
    if sel == 'total<=3':
        return na + nb <= 3
    if sel == 'total==4':
        return na + nb == 4
    if sel == 'total<=4':
        return na + nb <= 4
    raise ValueError(sel)


@functools.lru_cache(maxsize=None)
def _items(space, S):
    if space == 'sort':
        return tuple((c, a, b) for c in (CHR, CHR2) for (a, b) in M.all_intervals(S))
    if space == 'clip':
        return tuple(iv for iv in M.all_intervals(S, lo=-2, hi=S + 2) if M.overlaps_contig(iv, S))
    return tuple(M.all_intervals(S))


@functools.lru_cache(maxsize=None)
def _outer(space, S, kmax, variant=None):
    """the list that a shard strides over (index % K == k)"""
    if variant in ('grid-canonical', 'grid-all'):
        items = [(a, b) for a in GRID for b in GRID if a < b]
        gen = M.multisets if variant == 'grid-canonical' else M.sequences
        return [s for s in gen(items, kmax, kmin=kmax) if space == 'cov' or M.sorted_on_start(s)]
    if space == 'cov':
        if variant == 'zero':
            items = list(M.all_intervals(S)) + M.zero_length_intervals(S)
            return [s for s in M.sequences(items, kmax) if any(a == b for a, b in s)]
        return list(M.sequences(_items(space, S), kmax))
    if space == 'merge':
        return [s for s in M.sequences(_items(space, S), kmax) if M.sorted_on_start(s)]
    if space == 'extend' and variant == 'all<=2,canonical3':
        return list(M.sequences(_items(space, S), 2)) + list(M.multisets(_items(space, S), 3, kmin=3))
    if space in ('sort', 'extend', 'clip'):
        return list(M.sequences(_items(space, S), kmax))
    if space == 'pair_disjoint':
        gen = M.sequences if variant == 'all' else M.multisets
        return [s for s in gen(_items(space, S), kmax) if M.internally_disjoint(s)]
    if space == 'pair_multi':
        if variant == 'zero':
            return list(M.multisets(list(M.all_intervals(S)) + M.zero_length_intervals(S), kmax))
        return list(M.multisets(_items(space, S), kmax))
    if space == 'pair_uniq':
        return list(M.sequences(_items(space, S), kmax))
    raise ValueError(space)


def _variant(spec):
    if spec.get('grid'):
        return spec['grid']
    if spec['space'] in ('cov', 'pair_multi'):
        return 'zero' if spec.get('zero') else None
    if spec['space'] in ('pair_disjoint', 'extend'):
        return spec['orders']
    return None


def _count_cases(spec):
    sp, S = spec['space'], spec['S']
    outer = _outer(sp, S, spec['kmax'], _variant(spec))
    n = len(outer)
    if sp == 'merge':
        return n * (S + 1)
    if sp == 'extend':
        return sum((2 ** len(s)) * (S + 1) for s in outer)
    if sp in ('pair_disjoint', 'pair_uniq'):
        return n * n
    if sp == 'pair_multi':
        sizes = [0, 0, 0, 0]
        for s in outer:
            sizes[len(s)] += 1
        tot = sum(sizes[i] * sizes[j] for i in range(4) for j in range(4) if _sel_ok(spec['sel'], i, j))
        return tot // spec.get('mod', 1)
    return n


def _cost_key(spec):
    if spec['space'] == 'cov' and spec.get('zero'):
        return 'zero'
    return spec['space']


def shards(tier, seed):
    # NB every shard runs in a fresh forked process (engine.runner)
    target_ms = 7000.0 if tier == 'quick' else 40000.0
    out = []
    small = []
    order = ['cov', 'merge', 'sort', 'extend', 'clip', 'pair_disjoint', 'pair_uniq', 'pair_multi', 'bundle', 'ladder']
    for spec in _specs(tier, seed):
        n_outer = len(_outer(spec['space'], spec['S'], spec['kmax'], _variant(spec)))
        cost = _count_cases(spec) * COST_MS[_cost_key(spec)]
        if cost < target_ms / 4:
            small.append((dict(spec, k=0, K=1), cost))
            continue
        K = int(max(1, min(n_outer, math.ceil(cost / target_ms))))
        for k in range(K):
            d = dict(spec)
            d.update({'k': k, 'K': K, 'tier': tier, 'seed': seed, 'est_ms': round(cost / K)})
            out.append(d)
    # sub-spaces that are too small for a shard of their own are bundled (in order of contig size)
    small.sort(key=lambda sc: (sc[0]['S'], order.index(sc[0]['space'])))
    bundle, bcost = [], 0.0
    for spec, cost in small + [(None, 0.0)]:
        if bundle and (spec is None or bcost + cost > target_ms / 2):
            out.append({'space': 'bundle', 'specs': bundle, 'S': bundle[0]['S'], 'k': 0, 'K': 1, 'tier': tier,
                        'seed': seed, 'est_ms': round(bcost)})
            bundle, bcost = [], 0.0
        if spec is not None:
            bundle.append(spec)
            bcost += cost
    # simplest first (small contigs first), so that the exemplar kept for a failure group is a small one
    out.sort(key=lambda d: (d['S'], order.index(d['space']), d['k']))
    sizes = ladder_sizes(tier)
    for i in range(0, len(sizes), 4):
        out.append({'space': 'ladder', 'ns': sizes[i:i + 4], 'S': 10 ** 9, 'k': 0, 'K': 1, 'tier': tier, 'seed': seed,
                    'est_ms': round(sum(sizes[i:i + 4]) * 0.02)})
    return out


# Size ladder: the sub-spaces above decide every arrangement of a few intervals; a path chosen by the NUMBER of intervals
# (or of bases) needs many.  For every ladder size N: N intervals in a fixed scrambled order on one contig, pushed through
# pileup / mask / merge / sort / count_overlap / intersect and compared with whole-array NumPy arithmetic on dense arrays.
def ladder_sizes(tier):
    ns = set()
    for k in range(6, (17 if tier == 'quick' else 20)):
        ns.update((2 ** k - 1, 2 ** k, 2 ** k + 1))
    for k in range(2, 5 if tier == 'quick' else 6):
        ns.update((10 ** k - 1, 10 ** k, 10 ** k + 1))
    return sorted(ns)


def _iter_cases(spec):
    """all cases of a shard, simplest first inside the shard"""
    if spec['space'] == 'bundle':
        for sub in spec['specs']:
            for case in _iter_cases(sub):
                yield case
        return
    if spec['space'] == 'ladder':
        for n in spec['ns']:
            yield {'space': 'ladder', 'S': 2 * n + 3, 'n': n}
        return
    sp, S, k, K = spec['space'], spec['S'], spec['k'], spec['K']
    outer = _outer(sp, S, spec['kmax'], _variant(spec))
    if sp == 'cov':
        for i in range(k, len(outer), K):
            c = {'space': 'cov', 'S': S, 'ivs': [list(x) for x in outer[i]]}
            if spec.get('zero'):
                c['zero'] = True
            yield c
    elif sp == 'merge':
        for i in range(k, len(outer), K):
            for d in range(0, S + 1):
                yield {'space': 'merge', 'S': S, 'ivs': [list(x) for x in outer[i]], 'd': d}
    elif sp == 'sort':
        for i in range(k, len(outer), K):
            yield {'space': 'sort', 'S': S, 'rows': [list(x) for x in outer[i]]}
    elif sp == 'extend':
        for i in range(k, len(outer), K):
            seq = outer[i]
            for strands in itertools.product('+-', repeat=len(seq)):
                for L in range(1, S + 2):
                    yield {'space': 'extend', 'S': S, 'rows': [[a, b, st] for (a, b), st in zip(seq, strands)], 'L': L}
    elif sp == 'clip':
        for i in range(k, len(outer), K):
            yield {'space': 'clip', 'S': S, 'ivs': [list(x) for x in outer[i]]}
    elif sp == 'pair_disjoint':
        for i in range(k, len(outer), K):
            for b in outer:
                yield {'space': 'pair_disjoint', 'S': S, 'a': [list(x) for x in outer[i]], 'b': [list(x) for x in b]}
    elif sp == 'pair_multi':
        sel, mod, rem = spec['sel'], spec.get('mod', 1), spec.get('rem', 0)
        for i in range(k, len(outer), K):
            a = outer[i]
            for j, b in enumerate(outer):
                if not _sel_ok(sel, len(a), len(b)):
                    continue
                if spec.get('zero') and not any(x == y for x, y in tuple(a) + tuple(b)):
                    continue
                if mod > 1 and (i + j) % mod != rem:
                    continue
                c = {'space': 'pair_multi', 'S': S, 'a': [list(x) for x in a], 'b': [list(x) for x in b]}
                if spec.get('zero'):
                    c['zero_length'] = True
                yield c
    elif sp == 'pair_uniq':
        for i in range(k, len(outer), K):
            for b in outer:
                yield {'space': 'pair_multi', 'S': S, 'a': [list(x) for x in outer[i]], 'b': [list(x) for x in b],
                       'ops': 'uniq'}
    else:
        raise ValueError(sp)


# =====================================================================================================
# construction of library objects and observation of library results
# =====================================================================================================
def _np():
    import numpy as np
    return np


# Operand pool.  Within one case every operation receives THE SAME operand objects (a user computes several statistics
# on the two tracks they hold), not a fresh copy per call: the pool hands out one object per distinct (constructor,
# arguments) and, after every library call, re-reads each pooled operand.  An operand whose set of rows is no longer
# the set it was built from is reported (as a multiset of rows: C08 does not forbid a joint reordering) and rebuilt,
# so that the later operations of the case are still judged on the given set.
_POOL = None


def _pooled(maker):
    @functools.wraps(maker)
    def wrapper(*args):
        if _POOL is None:
            return maker(*args)
        key = (maker.__name__, repr(args))
        hit = _POOL.get(key)
        if hit is None:
            obj = maker(*args)
            hit = _POOL[key] = (obj, operand_snapshot(obj))
        return hit[0]
    return wrapper


def operand_snapshot(table):
    rows = rows_of(table)
    if not isinstance(rows, list):
        return rows
    if hasattr(table, 'strand'):
        strands = [str(x) for x in observe.column(table.strand)]
        rows = [r + (s,) for r, s in zip(rows, strands)] if len(strands) == len(rows) else ('strand-length', len(strands))
    return sorted(rows) if isinstance(rows, list) else rows


@_pooled
def mk_interval(ivs, chroms=None):
    np = _np()
    from bionumpy.datatypes import Interval
    ivs = [tuple(x) for x in ivs]
    chroms = [CHR] * len(ivs) if chroms is None else list(chroms)
    return Interval(chroms, np.array([a for a, b in ivs], dtype=int), np.array([b for a, b in ivs], dtype=int))


@_pooled
def mk_interval_encoded(rows, labels):
    np = _np()
    import bionumpy as bnp
    from bionumpy.datatypes import Interval
    from bionumpy.encodings.string_encodings import StringEncoding
    from bionumpy.encoded_array import EncodedArray
    enc = StringEncoding(list(labels))
    codes = np.array([labels.index(c) for c, a, b in rows], dtype=int)
    chrom = EncodedArray(codes, enc)
    return Interval(chrom, np.array([a for c, a, b in rows], dtype=int), np.array([b for c, a, b in rows], dtype=int))


@_pooled
def mk_bed6(rows):
    np = _np()
    from bionumpy.datatypes import Bed6
    n = len(rows)
    return Bed6([CHR] * n, np.array([r[0] for r in rows], dtype=int), np.array([r[1] for r in rows], dtype=int),
                ['n%d' % i for i in range(n)], np.zeros(n, dtype=int), [r[2] for r in rows])


@functools.lru_cache(maxsize=None)
def geometry(sizes):
    from bionumpy.genomic_data.geometry import Geometry
    return Geometry(dict(sizes))


def ints(v):
    np = _np()
    return [observe.norm(x) for x in observe.column(np.atleast_1d(np.asarray(v)))]


def chrom_names(col):
    """chromosome column -> list of str (plain string column, text column, or string-encoded column)"""
    np = _np()
    from bionumpy.encoded_array import EncodedArray, EncodedRaggedArray
    from bionumpy.string_array import StringArray
    if isinstance(col, (StringArray, EncodedRaggedArray)):
        v = observe.column(col)
        return [v] if isinstance(v, str) else list(v)
    if isinstance(col, EncodedArray) and hasattr(col.encoding, 'get_labels'):
        labels = list(col.encoding.get_labels())
        return [labels[int(i)] for i in np.atleast_1d(np.asarray(col.raw())).tolist()]
    return [str(x) for x in observe.column(col)]


def rows_of(table):
    """interval table -> [(chromosome, start, stop)]"""
    if not all(hasattr(table, n) for n in ('chromosome', 'start', 'stop')):
        return ('not-an-interval-table', type(table).__name__)
    ch = chrom_names(table.chromosome)
    st = ints(table.start)
    en = ints(table.stop)
    n = len(table)
    if not (len(ch) == len(st) == len(en) == n):
        return ('column-lengths-differ', len(ch), len(st), len(en), n)
    return [(ch[i], st[i], en[i]) for i in range(n)]


def dense_views(r):
    """run-length array -> {'to_array': [...], 'runs': [...]} both as plain int lists of length len(r)"""
    np = _np()
    if not all(hasattr(r, n) for n in ('to_array', 'starts', 'ends', 'values', '__len__')):
        return {'type': ['not-a-run-length-array', type(r).__name__]}
    n = int(len(r))
    arr = [observe.norm(x) for x in np.asarray(r.to_array()).tolist()]
    starts = np.asarray(r.starts).tolist()
    ends = np.asarray(r.ends).tolist()
    values = [observe.norm(x) for x in np.asarray(r.values).tolist()]
    dense = [None] * n
    ok = len(starts) == len(ends) == len(values)
    if ok:
        for s, e, v in zip(starts, ends, values):
            if not (0 <= s <= e <= n):
                ok = False
                break
            for x in range(s, e):
                dense[x] = v
    if not ok:
        dense = ['bad-runs', starts, ends, values, n]
    return {'to_array': arr, 'runs': dense}


def dense_of_array(a):
    np = _np()
    return [observe.norm(x) for x in np.asarray(a).tolist()]


class Ctx:
    """per-case bookkeeping: calls the library, turns exceptions into observations"""

    def __init__(self, res, case):
        global _POOL
        self.res = res
        self.case = case
        self.obs = {}            # op -> observed value (for the evidence samples)
        _POOL = None if case.get('zero') else {}

    def call(self, fn, op=None):
        """-> ('ok', value) | ('raises', exception)"""
        self.res.transitions += 1
        try:
            return 'ok', fn()
        except observe.ObserverError:
            raise
        except Exception as e:  # raised by bionumpy: an observation
            self.obs[op] = 'raises ' + exc_name(e)
            return 'raises', e
        finally:
            self.operands_intact(op)

    def operands_intact(self, op):
        if not _POOL:
            return
        for key, (obj, before) in list(_POOL.items()):
            after = operand_snapshot(obj)
            if after != before:
                del _POOL[key]
                self.fail('operand-still-the-given-set-after-call', {'op': op, 'operand': key[0]}, before, after)

    def fail(self, kind, feats, expected, observed, exc=None):
        self.res.fail(kind, self.case, feats, expected=expected, observed=observed,
                      tb=tb_string(exc) if exc is not None else None)


def boundary_class(ivs, S):
    z = any(a == 0 for a, b in ivs)
    e = any(b == S for a, b in ivs)
    return 'both' if (z and e) else ('start' if z else ('end' if e else 'none'))


# =====================================================================================================
# the sub-space checkers
# =====================================================================================================
def check_cov(res, case):
    S = case['S']
    ivs = [tuple(x) for x in case['ivs']]
    cx = Ctx(res, case)
    cov = M.coverage(ivs, S)
    msk = M.mask(ivs, S)
    judged = True       # zero-length intervals [p,p) cover no base: the per-base definition applies to them as to any other
    # facts about the case: how the intervals relate, whether position 0 / the last base is covered; the input order
    # is a feature only for the mask functions (they sort; the pileup functions are order-free by construction)
    feats0 = {'relation': M.relation(ivs), 'boundary': boundary_class(ivs, S)}
    from bionumpy.arithmetics import get_pileup, get_boolean_mask
    from bionumpy.arithmetics import bedgraph as bg

    def judge_rle(op, clause, expected, status, value, geometry_dict=False):
        feats = dict(feats0, op=op)
        if 'mask' in op:
            feats['sorted_input'] = M.sorted_on_start(ivs)
        if status == 'raises':
            if judged:
                cx.fail(clause + ':call-succeeds', feats, expected, 'raises ' + exc_name(value), value)
            else:
                res.extra['zero_length:%s raises (not judged)' % op] += 1
            return
        if geometry_dict:
            if sorted(value.keys()) != [CHR]:
                views = {'to_dict keys': sorted(value.keys())}
            else:
                views = {'to_dict': dense_of_array(value[CHR])}
        else:
            views = dense_views(value)
        cx.obs[op] = views
        for view, got in views.items():
            if got != expected:
                if judged:
                    cx.fail(clause, feats, expected, {'observed_through': view, 'value': got})
                else:
                    res.extra['zero_length:%s differs from per-base model (not judged)' % op] += 1
                break

    st, v = cx.call(lambda: get_pileup(mk_interval(ivs), S), 'get_pileup')
    judge_rle('get_pileup', 'pileup-equals-coverage', cov, st, v)
    st, v = cx.call(lambda: get_boolean_mask(mk_interval(ivs), S), 'get_boolean_mask')
    judge_rle('get_boolean_mask', 'mask-equals-coverage-positive', msk, st, v)
    if not case.get('zero'):     # (the Geometry methods refuse an interval that starts at the contig end, e.g. [S,S): not judged)
        st, v = cx.call(lambda: bg.get_pileup(mk_interval(ivs), S), 'bedgraph.get_pileup')
        judge_rle('bedgraph.get_pileup', 'pileup-equals-coverage', cov, st, v)
        g = geometry(((CHR, S),))
        st, v = cx.call(lambda: g.get_pileup(mk_interval(ivs)).to_dict(), 'Geometry.get_pileup')
        judge_rle('Geometry.get_pileup', 'pileup-equals-coverage', cov, st, v, geometry_dict=True)
        st, v = cx.call(lambda: g.get_mask(mk_interval(ivs)).to_dict(), 'Geometry.get_mask')
        judge_rle('Geometry.get_mask', 'mask-equals-coverage-positive', msk, st, v, geometry_dict=True)
    s = sorted(ivs)
    if len(ivs) >= 2 and any(s[i][1] >= s[i + 1][0] for i in range(len(s) - 1)):
        res.nontrivial += 1
    res.outcome('%s S%d max%d runs%d' % ('zero' if not judged else 'cov', S, max(cov) if cov else 0, len(M.runs(msk))))
    return {'expected': {'coverage': cov, 'mask': msk}, 'observed': cx.obs}


def gap_class(ivs, S, d):
    gs = M.gaps(ivs, S)
    if not gs:
        return 'no-gap'
    if any(g == d for g in gs):
        return 'gap==d'
    if any(g == d + 1 for g in gs):
        return 'gap==d+1'
    return 'gaps<d' if all(g < d for g in gs) else 'other'


def check_merge(res, case):
    S, d = case['S'], case['d']
    ivs = [tuple(x) for x in case['ivs']]
    assert M.sorted_on_start(ivs)
    cx = Ctx(res, case)
    exp = [(CHR, a, b) for a, b in M.merged(ivs, S, d)]
    feats0 = {'relation': M.relation(ivs), 'd_zero': d == 0, 'gap_class': gap_class(ivs, S, d)}
    from bionumpy.arithmetics import merge_intervals
    g = geometry(((CHR, S),))
    for op, fn in (('merge_intervals', lambda: merge_intervals(mk_interval(ivs), d)),
                   ('Geometry.merge_intervals', lambda: g.merge_intervals(mk_interval(ivs), d))):
        feats = dict(feats0, op=op)
        st, v = cx.call(fn, op)
        if st == 'raises':
            cx.fail('merge-equals-maximal-runs:call-succeeds', feats, exp, 'raises ' + exc_name(v), v)
            continue
        got = cx.obs[op] = rows_of(v)
        if got != exp:
            cx.fail('merge-equals-maximal-runs', feats, exp, got)
    if len(exp) < len(ivs):
        res.nontrivial += 1
    res.outcome('merge in%d out%d %s' % (len(ivs), len(exp), feats0['gap_class']))
    return {'expected': {'merged': exp}, 'observed': cx.obs}


def check_sort(res, case):
    S = case['S']
    rows = [tuple(x) for x in case['rows']]
    cx = Ctx(res, case)
    natural = {CHR: 0, CHR2: 1}
    reverse = {CHR: 1, CHR2: 0}
    tie = M.tie_on_chrom_start(rows)
    feats0 = {'tie_on_chromosome_and_start': tie}
    from bionumpy.arithmetics import sort_intervals
    g = geometry(((CHR, S), (CHR2, S)))

    def plain():
        return mk_interval([(a, b) for c, a, b in rows], [c for c, a, b in rows])

    plans = [
        ('sort_intervals', 'string', natural, True, lambda: sort_intervals(plain())),
        ('sort_intervals(sort_order)', 'string', reverse, True, lambda: sort_intervals(plain(), sort_order=[CHR2, CHR])),
        ('sort_intervals', 'string-encoded', natural, True, lambda: sort_intervals(mk_interval_encoded(rows, [CHR, CHR2]))),
        ('Geometry.sort', 'string', natural, False, lambda: g.sort(plain())),
    ]
    for op, column, rank, use_stop, fn in plans:
        feats = dict(feats0, op=op, chromosome_column=column)
        st, v = cx.call(fn, op + '/' + column)
        if st == 'raises':
            cx.fail('sort:call-succeeds', feats, 'a sorted permutation', 'raises ' + exc_name(v), v)
            continue
        got = cx.obs[op + '/' + column] = rows_of(v)
        if not isinstance(got, list) or not M.is_permutation(rows, got):
            cx.fail('sort-is-permutation', feats, sorted(rows), got)
            continue
        if not M.ordered_by(got, rank, use_stop=use_stop):
            cx.fail('sort-ordered-by-chromosome-start-stop', feats,
                    sorted(rows, key=lambda r: (rank[r[0]], r[1], r[2])), got)
        elif not use_stop and not M.ordered_by(got, rank, use_stop=True):
            res.extra['Geometry.sort leaves equal-start entries unordered by stop (not judged)'] += 1
    if not M.ordered_by(rows, natural):
        res.nontrivial += 1
    res.outcome('sort n%d chroms%d tie=%s sorted_in=%s' % (len(rows), len({r[0] for r in rows}), tie,
                                                         M.ordered_by(rows, natural)))
    return {'expected': {'sorted (chr1 < chr2)': sorted(rows)}, 'observed': cx.obs}


def check_extend(res, case):
    S, L = case['S'], case['L']
    rows = [tuple(x) for x in case['rows']]
    cx = Ctx(res, case)
    exp = M.extend_to_size(rows, L, S)
    strands = {r[2] for r in rows}
    hits = any((st == '+' and a + L > S) or (st == '-' and b - L < 0) for a, b, st in rows)
    feats0 = {'strands': 'none' if not strands else ('mixed' if len(strands) == 2 else strands.pop()),
              'cut_at_contig_end': hits}
    from bionumpy.arithmetics.intervals import extend_to_size
    g = geometry(((CHR, S),))
    for op, fn in (('extend_to_size', lambda: extend_to_size(mk_bed6(rows), L, S)),
                   ('Geometry.extend_to_size', lambda: g.extend_to_size(mk_bed6(rows), L))):
        feats = dict(feats0, op=op)
        st, v = cx.call(fn, op)
        if st == 'raises':
            cx.fail('extend:call-succeeds', feats, exp, 'raises ' + exc_name(v), v)
            continue
        got = cx.obs[op] = rows_of(v)
        got_iv = [(a, b) for c, a, b in got] if isinstance(got, list) else got
        if not isinstance(got, list) or len(got) != len(rows):
            cx.fail('extend-strand-aware-value', feats, exp, got)
        elif not M.inside(got_iv, S):
            cx.fail('extend-inside-contig', feats, exp, got_iv)
        elif got_iv != exp:
            cx.fail('extend-strand-aware-value', feats, exp, got_iv)
    if hits:
        res.nontrivial += 1
    res.outcome('extend n%d %s cut=%s' % (len(rows), feats0['strands'], hits))
    return {'expected': {'extended': exp}, 'observed': cx.obs}


def check_clip(res, case):
    S = case['S']
    ivs = [tuple(x) for x in case['ivs']]
    assert all(M.overlaps_contig(iv, S) for iv in ivs)
    cx = Ctx(res, case)
    exp = M.clip(ivs, S)
    left = any(a < 0 for a, b in ivs)
    right = any(b > S for a, b in ivs)
    feats0 = {'sticks_out': 'both' if (left and right) else ('left' if left else ('right' if right else 'none'))}
    from bionumpy.arithmetics.intervals import clip
    g = geometry(((CHR, S),))
    for op, fn in (('clip', lambda: clip(mk_interval(ivs), S)),
                   ('Geometry.clip', lambda: g.clip(mk_interval(ivs)))):
        feats = dict(feats0, op=op)
        st, v = cx.call(fn, op)
        if st == 'raises':
            cx.fail('clip:call-succeeds', feats, exp, 'raises ' + exc_name(v), v)
            continue
        got = cx.obs[op] = rows_of(v)
        got_iv = [(a, b) for c, a, b in got] if isinstance(got, list) else got
        if not isinstance(got, list) or len(got) != len(ivs):
            cx.fail('clip-equals-intersection-with-contig', feats, exp, got)
        elif not M.inside(got_iv, S):
            cx.fail('clip-inside-contig', feats, exp, got_iv)
        elif got_iv != exp:
            cx.fail('clip-equals-intersection-with-contig', feats, exp, got_iv)
    if left or right:
        res.nontrivial += 1
    res.outcome('clip n%d out=%s' % (len(ivs), feats0['sticks_out']))
    return {'expected': {'clipped': exp}, 'observed': cx.obs}


def empties(a, b):
    return 'both' if (not a and not b) else ('a' if not a else ('b' if not b else 'none'))


def check_pair_disjoint(res, case):
    S = case['S']
    a = [tuple(x) for x in case['a']]
    b = [tuple(x) for x in case['b']]
    assert M.internally_disjoint(a) and M.internally_disjoint(b)
    cx = Ctx(res, case)
    n = M.overlap_count(a, b, S)
    imask = M.intersection_mask(a, b, S)
    feats0 = {'empty': empties(a, b), 'touching_within_a_set': 'touching' in (M.relation(a), M.relation(b)),
              'sorted_inputs': M.sorted_on_start(a) and M.sorted_on_start(b)}
    from bionumpy.arithmetics import count_overlap, intersect
    feats = dict(feats0, op='count_overlap')
    st, v = cx.call(lambda: count_overlap(mk_interval(a), mk_interval(b)), 'count_overlap')
    if st == 'raises':
        cx.fail('count_overlap-equals-per-base:call-succeeds', feats, n, 'raises ' + exc_name(v), v)
    else:
        got = cx.obs['count_overlap'] = ints(v)
        if got != [n]:
            cx.fail('count_overlap-equals-per-base', feats, n, got)
    feats = dict(feats0, op='intersect')
    st, v = cx.call(lambda: intersect(mk_interval(a), mk_interval(b)), 'intersect')
    if st == 'raises':
        cx.fail('intersect-equals-per-base:call-succeeds', feats, M.runs(imask), 'raises ' + exc_name(v), v)
    else:
        got = cx.obs['intersect'] = rows_of(v)
        if not isinstance(got, list) or M.mask([(s, e) for c, s, e in got], S) != imask or \
                any(c != CHR for c, s, e in got) or any(s < 0 or e > S for c, s, e in got):
            cx.fail('intersect-equals-per-base', feats, M.runs(imask), got)
    if n > 0:
        res.nontrivial += 1
    res.outcome('disjoint-pair overlap=%d pieces=%d' % (n, len(M.runs(imask))))
    return {'expected': {'overlap': n, 'intersection_runs': M.runs(imask)}, 'observed': cx.obs}


def _close(x, y):
    return math.isclose(x, y, rel_tol=1e-9, abs_tol=1e-12)


def check_pair_multi(res, case):
    S = case['S']
    a = [tuple(x) for x in case['a']]
    b = [tuple(x) for x in case['b']]
    cx = Ctx(res, case)
    np = _np()
    io = (not M.internally_disjoint(a), not M.internally_disjoint(b))
    feats0 = {'empty': empties(a, b)}
    from bionumpy.arithmetics import unique_intersect, jaccard, forbes, count_overlap, intersect
    # history prefix on the pooled operands: the two overlap functions, whose VALUE the statement defines only for
    # internally disjoint sets (judged in pair_disjoint), are still called here first, on arbitrary multisets, so that
    # the judged operations below run on operands that have already been through them
    for op, fn in (('count_overlap', lambda: count_overlap(mk_interval(a), mk_interval(b))),
                   ('intersect', lambda: intersect(mk_interval(a), mk_interval(b)))):
        st, v = cx.call(fn, op + ' (value not judged)')
        if st == 'raises':
            res.extra['%s raises on internally overlapping / arbitrary multisets (not judged)' % op] += 1
    cx.obs = {}
    exp_u = [(CHR, s, e) for s, e in M.unique_intersect(a, b, S)]
    feats = dict(feats0, op='unique_intersect',
                 internal_overlap='both' if all(io) else ('a' if io[0] else ('b' if io[1] else 'none')))
    st, v = cx.call(lambda: unique_intersect(mk_interval(a), mk_interval(b), S), 'unique_intersect')
    if any(x == y for x, y in a):
        # whether a zero-length ENTRY [p,p) of the first set "intersects" the second is not defined by a per-base reading
        # (it has no base); executed, counted, not judged.  Zero-length intervals in the SECOND set cover nothing: judged.
        res.extra['unique_intersect with a zero-length entry in the first set (not judged): %s' % (
            'raises' if st == 'raises' else ('reported' if any(r[1] == r[2] for r in rows_of(v)) else 'not reported'))] += 1
    elif st == 'raises':
        cx.fail('unique_intersect-equals-per-base:call-succeeds', feats, exp_u, 'raises ' + exc_name(v), v)
    else:
        got = cx.obs['unique_intersect'] = rows_of(v)
        if got != exp_u:
            cx.fail('unique_intersect-equals-per-base', feats, exp_u, got)
    ej = ef = None
    if case.get('ops') != 'uniq':
        ej = M.jaccard(a, b, S)
        ef = M.forbes(a, b, S)
        g = geometry(((CHR, S),))
        plans = [('jaccard', 'jaccard-equals-per-base', ej, lambda: jaccard({CHR: S}, mk_interval(a), mk_interval(b))),
                 ('forbes', 'forbes-equals-per-base', ef, lambda: forbes({CHR: S}, mk_interval(a), mk_interval(b))),
                 ('Geometry.jaccard', 'jaccard-equals-per-base', ej, lambda: g.jaccard(mk_interval(a), mk_interval(b)))]
        if case.get('zero_length'):
            plans = plans[:2]       # the Geometry methods refuse an interval that starts at the contig end ([S,S)): not judged
        for op, clause, exp, fn in plans:
            feats = dict(feats0, op=op)
            st, v = cx.call(fn, op)
            if exp is None:
                res.extra['%s undefined (0/0) not judged: %s' % (op, 'raises' if st == 'raises' else 'returns')] += 1
                continue
            if st == 'raises':
                cx.fail(clause + ':call-succeeds', feats, exp, 'raises ' + exc_name(v), v)
                continue
            try:
                got = float(np.asarray(v).reshape(()))
            except Exception:
                cx.fail(clause, feats, exp, repr(v))
                continue
            cx.obs[op] = got
            if not _close(got, exp):
                cx.fail(clause, feats, exp, got)
    n = M.overlap_count(a, b, S)
    if n > 0:
        res.nontrivial += 1
    res.outcome('multi-pair overlap=%d hit=%d/%d j=%s' % (n, len(exp_u), len(a), 'undef' if ej is None else '%.2f' % ej))
    return {'expected': {'unique_intersect': exp_u, 'jaccard': ej, 'forbes': ef}, 'observed': cx.obs}


def check_ladder(res, case):
    np = _np()
    n, S = case['n'], case['S']
    from bionumpy.datatypes import Interval
    from bionumpy.arithmetics import get_pileup, get_boolean_mask, merge_intervals, sort_intervals, count_overlap, intersect
    i = np.arange(n, dtype=np.int64)
    start = (i * 7919 + (i * i) % 13) % (S - 6)
    stop = start + 1 + (i * i + i // 3) % 5
    size = '<=10^3' if n <= 1000 else ('10^3..10^5' if n <= 10 ** 5 else '>10^5')
    feats0 = {'space': 'ladder', 'intervals': size}
    diff = np.zeros(S + 1, dtype=np.int64)
    np.add.at(diff, start, 1)
    np.add.at(diff, stop, -1)
    cov = np.cumsum(diff)[:S]
    msk = cov > 0
    edges = np.flatnonzero(np.diff(np.concatenate([[0], msk.astype(np.int8), [0]])))
    runs = list(zip(edges[0::2].tolist(), edges[1::2].tolist()))
    order = np.lexsort((stop, start))

    def table(a, b):
        return Interval([CHR] * len(a), np.array(a, dtype=int), np.array(b, dtype=int))

    def run(op, call, judge):
        res.transitions += 1
        feats = dict(feats0, op=op)
        try:
            out = call()
            bad = judge(out)
        except observe.ObserverError:
            raise
        except Exception as e:
            res.fail(op + ':call-succeeds', case, feats, expected='a result', observed='raises ' + exc_name(e), tb=tb_string(e))
            res.outcome('ladder:%s:raises' % op)
            return
        if bad:
            res.fail(bad[0], case, feats, expected=bad[1], observed=bad[2])
        res.outcome('ladder:%s:%s:%s' % (op, size, 'differs' if bad else 'ok'))

    def dense_judge(kind, expected):
        def judge(r):
            got = np.asarray(r.to_array())
            if got.shape != expected.shape or not np.array_equal(got, expected):
                j = int(np.flatnonzero(got[:len(expected)] != expected[:len(got)])[0]) if got.shape == expected.shape else None
                return (kind, {'length': int(expected.size), 'first_difference_at': j, 'value': None if j is None else int(expected[j])},
                        {'length': int(got.size), 'first_difference_at': j, 'value': None if j is None else int(got[j])})
        return judge

    def rows_judge(kind, exp_start, exp_stop):
        def judge(t):
            gs, ge = np.asarray(t.start), np.asarray(t.stop)
            if gs.shape != np.shape(exp_start) or not (np.array_equal(gs, exp_start) and np.array_equal(ge, exp_stop)):
                return (kind, {'rows': len(exp_start), 'head': [list(map(int, exp_start[:3])), list(map(int, exp_stop[:3]))]},
                        {'rows': int(gs.size), 'head': [gs[:3].tolist(), ge[:3].tolist()]})
        return judge

    res.evaluations += 1
    res.states += 1
    res.planned += 1
    res.traces += 1
    res.nontrivial += 1
    run('get_pileup', lambda: get_pileup(table(start, stop), S), dense_judge('pileup-equals-coverage', cov))
    run('get_boolean_mask', lambda: get_boolean_mask(table(start, stop), S), dense_judge('mask-equals-coverage-positive', msk))
    run('merge_intervals', lambda: merge_intervals(table(start[order], stop[order]), 0),
        rows_judge('merge-equals-maximal-runs', np.array([a for a, b in runs]), np.array([b for a, b in runs])))
    run('sort_intervals', lambda: sort_intervals(table(start, stop)),
        rows_judge('sort-ordered-by-chromosome-start-stop', start[order], stop[order]))
    a0, b0 = 4 * i, 4 * i + 1
    scr = np.argsort((i * 7919) % max(n, 1), kind='stable')
    run('count_overlap', lambda: count_overlap(table(a0[scr], a0[scr] + 2), table(b0, b0 + 2)),
        lambda v: None if ints(v) == [n] else ('count_overlap-equals-per-base', n, ints(v)))

    def judge_intersect(t):
        gs, ge = np.sort(np.asarray(t.start)), np.sort(np.asarray(t.stop))
        if not (np.array_equal(gs, b0) and np.array_equal(ge, b0 + 1)):
            return ('intersect-equals-per-base', {'pieces': n}, {'pieces': int(gs.size), 'head': [gs[:3].tolist(), ge[:3].tolist()]})
    run('intersect', lambda: intersect(table(a0[scr], a0[scr] + 2), table(b0, b0 + 2)), judge_intersect)
    return {'expected': {'intervals': n}, 'observed': {}}


CHECKERS = {'ladder': check_ladder, 'cov': check_cov, 'merge': check_merge, 'sort': check_sort, 'extend': check_extend, 'clip': check_clip,
            'pair_disjoint': check_pair_disjoint, 'pair_multi': check_pair_multi}


def run_case(res, case):
    res.evaluations += 1
    res.states += 1
    res.planned += 1
    model = CHECKERS[case['space']](res, case)
    res.traces += 1
    return model


def run_shard(desc, deadline):
    res = Result()
    n = 0
    for case in _iter_cases(desc):
        if (n & 63) == 0 and deadline.expired():
            res.capped = True
            break
        n += 1
        nt = res.nontrivial
        model = run_case(res, case)
        if len(res.samples) < 1 and res.nontrivial > nt:
            res.sample({'case': case, 'expected(model)': model['expected'], 'observed(bionumpy)': model['observed']})
    return res


def replay_case(case):
    res = Result()
    run_case(res, case)
    return [{'kind': g['kind'], 'features': g['features'], 'observed': g['exemplars'][0]['observed'],
             'expected': g['exemplars'][0]['expected'], 'traceback': g['exemplars'][0]['traceback']}
            for g in res.fail_groups.values()]


def repro_py(case):
    head = ('import numpy as np\nfrom bionumpy.datatypes import Interval, Bed6\n'
            'def I(ivs, chroms=None):\n'
            '    return Interval(chroms if chroms is not None else ["chr1"] * len(ivs), np.array([a for a, b in ivs], dtype=int), '
            'np.array([b for a, b in ivs], dtype=int))\n')
    sp = case['space']
    S = case['S']
    if sp == 'ladder':
        return head + '# size ladder: %d intervals on a contig of %d bases, see check_ladder() in checks/c08_intervals.py\n' % (case['n'], S)
    if sp == 'cov':
        return head + ('from bionumpy.arithmetics import get_pileup, get_boolean_mask\nivs = %r\n'
                       'print(get_pileup(I(ivs), %d).to_array())\nprint(get_boolean_mask(I(ivs), %d).to_array())\n'
                       '# expected coverage: %r\n' % (case['ivs'], S, S, M.coverage([tuple(x) for x in case['ivs']], S)))
    if sp == 'merge':
        return head + ('from bionumpy.arithmetics import merge_intervals\nprint(merge_intervals(I(%r), %d))\n'
                       '# expected runs: %r\n' % (case['ivs'], case['d'],
                                                 M.merged([tuple(x) for x in case['ivs']], S, case['d'])))
    if sp == 'sort':
        rows = case['rows']
        return head + ('import bionumpy as bnp\nfrom bionumpy.arithmetics import sort_intervals\n'
                       'from bionumpy.encodings.string_encodings import StringEncoding\n'
                       'from bionumpy.encoded_array import EncodedArray\n'
                       'rows = %r\nivs = [(a, b) for c, a, b in rows]\n'
                       'print(sort_intervals(I(ivs, [c for c, a, b in rows])))\n'
                       'print(sort_intervals(I(ivs, [c for c, a, b in rows]), sort_order=["chr2", "chr1"]))\n'
                       'enc = StringEncoding(["chr1", "chr2"])\n'
                       'col = EncodedArray(np.array([["chr1", "chr2"].index(c) for c, a, b in rows], dtype=int), enc)\n'
                       'print(sort_intervals(I(ivs, col)))   # must be ordered by chromosome, start AND stop\n' % (rows,))
    if sp == 'extend':
        return head + ('from bionumpy.arithmetics.intervals import extend_to_size\nrows = %r\n'
                       'b = Bed6(["chr1"] * len(rows), [r[0] for r in rows], [r[1] for r in rows], ["n"] * len(rows), '
                       '[0] * len(rows), [r[2] for r in rows])\nprint(extend_to_size(b, %d, %d))\n'
                       % (case['rows'], case['L'], S))
    if sp == 'clip':
        return head + 'from bionumpy.arithmetics.intervals import clip\nprint(clip(I(%r), %d))\n' % (case['ivs'], S)
    if sp == 'pair_disjoint':
        return head + ('from bionumpy.arithmetics import count_overlap, intersect\na, b = %r, %r\n'
                       'print(count_overlap(I(a), I(b)))\nprint(intersect(I(a), I(b)))\n' % (case['a'], case['b']))
    return head + ('from bionumpy.arithmetics import unique_intersect, jaccard, forbes\na, b = %r, %r\n'
                   'print(unique_intersect(I(a), I(b), %d))\nprint(jaccard({"chr1": %d}, I(a), I(b)))\n'
                   'print(forbes({"chr1": %d}, I(a), I(b)))\n' % (case['a'], case['b'], S, S, S))
