"""C13 -- sliding-window sequence functions are row-local and match their definitions.

Shape A (product-space enumeration), two sub-spaces, both enumerated completely:

  part A  "every content":  EVERY ragged list of 1..N rows, each row EVERY string of length 0..M over the
          alphabet, x every window 1..W (total letters >= window).  Small alphabets / short rows, so that
          every letter arrangement around every row boundary occurs.
  part B  "every window length":  window w = 1..31 x every list of 1..3 rows (thorough: also 4; see bounds()
          for the exact length set per row count) with lengths from {0, 1, w-1, w, w+1, 2w} x alphabets ACGT
          (bit-packed path), ACGTN, amino acids (generic path) x deterministic letter fills x input
          representation (freshly encoded / non-contiguous view obtained by slicing a padded array /
          un-encoded ASCII text).

On every case the real functions are called:  get_kmers(w), get_minimizers(k, w) for EVERY k <= w,
match_string (patterns of length w: first and last in-row window, first window of the concatenated text that
straddles a row boundary, a constant pattern), get_motif_scores (two PWMs of width w, one with -inf cells),
count_kmers (flattened and per row), KmerEncoding.to_string / encode.  get_motif_scores is in addition driven as a
short history on ONE PWM object (rows ; reversed rows of the same total length ; rows again; first result re-observed).

Oracle (models/windows.py): per row, the windows row[i:i+w]; none for rows shorter than w; code = little-endian
base-|A| number; to_string(code) == window text; minimizer = min of the k-mer codes in the window; match =
window == pattern; score = sum of matrix cells; counts = multiset of the row's windows.  In addition a
model-free differential clause: the values of row i in the collection equal the values the same function
returns for the one-row collection [row i] (no window spans two sequences).
"""
import itertools
import json

import numpy as np

from engine import observe
from engine.result import Result, tb_string
from models import windows as M

PROPERTY = 'C13'
LEVEL = 'model_checking'
TECHNIQUE = ('bounded exhaustive enumeration of ragged sequence collections x window lengths x alphabets against '
             'a per-row reference model, plus a model-free collection-vs-single-row differential')
RULE = ('a case = (alphabet, list of row texts, window w, input representation); part A enumerates every row content '
        'up to the stated length, part B every length profile from {0,1,w-1,w,w+1,2w} for every w; every case runs all '
        'applicable functions (every k <= w for minimizers). Non-trivial = at least 2 rows, at least one window expected, '
        'and the row structure matters (the concatenated text has windows that straddle a row boundary, or some row is '
        'shorter than w / empty), i.e. a flat convolution without correct trimming would give a different answer')
ASSUMPTIONS = [
    'generic-path k-mer codes are only demanded while |A|**k < 2**63 (ACGTN: k <= 27, amino acids: k <= 14); the '
    '4-letter bit-packed path is explored to k = 31',
    'count_kmers is only judged while |A|**k <= 300 (part A: 64; per-row counts 16) and k <= 8 (its result is a dense '
    'vector of |A|**k counts and the library refuses k > 8 with an assertion: counted as refused, not judged)',
    'precondition of the statement: total number of letters >= window (generator constraint)',
    'get_minimizers is not called on un-encoded ASCII text (its documented precondition is an AlphabetEncoding)',
    'PWM cells are multiples of 1/4 or -inf so that any summation order gives bit-identical scores',
    'rows longer than 2w and collections of more than 3 (thorough: 4) rows are not explored; part A contents are '
    'bounded as stated in bounds()',
    'building the input (as_encoded_array, slicing a padded array for the view representation) is trusted; a view '
    'whose text differs from the intended rows is skipped and counted in extra',
]
EXPLANATION = ('every window length and every small row-length profile around w-1/w/w+1 is executed on the real '
               'functions; trimming, row re-wrapping and code arithmetic are compared value by value with a per-row model')
MANIFEST_TEXT = ('Exhaustive enumeration of ragged sequence collections against a per-row reference model. Part A (every content): '
                 'every list of 1..2 rows (3 rows for rows of length <= 2; thorough: 3 rows of length <= 3 for the 2-letter '
                 'alphabet) whose rows are EVERY string of length 0..3 (thorough: 0..4 for the 2- and 3-letter alphabets) over '
                 'alphabets of size 4 (bit-packed path; thorough also a non-DNA 4-letter alphabet), 2 and 3 (generic path), '
                 'every window 1..3 or 1..4 (thorough 1..4 or 1..5). Part B (every window length): w = {1,2,3,4,5,8,16,31} plus a seed-rotated third of the '
                 'remaining w (thorough: every w 1..31) x every list of 1..2 rows with lengths from {0,1,w-1,w,w+1,2w} and of '
                 '3 rows from {0,w-1,w,w+1} for the cyclic/quadratic fills (thorough: 3 rows from the full set for all fills, 4 rows from {0,w-1,w,w+1}) x ACGT / ACGTN / '
                 'amino acids x letter fills {cyclic, all-first, all-last, quadratic} x input {freshly encoded, sliced '
                 'non-contiguous view and row-reversed view (rebuilt unread for every call), ASCII text}. Functions on every case: get_kmers, get_minimizers for EVERY k <= w, '
                 'match_string (in-row, boundary-straddling and constant patterns), get_motif_scores (finite and -inf PWM; also a '
                 '3-call history on one PWM object with the first result re-observed afterwards), '
                 'count_kmers (flat and per row), KmerEncoding.to_string/encode. Every value is compared with the definition on '
                 'the row alone (window count per row, none for short rows, little-endian code, rendered text, min, match, score, '
                 'counts) and every multi-row result with the result of the same call on each row alone. A size ladder (collections with N = 2^k-1/2^k/2^k+1 '
                 'windows for k = 8..21, 10^k+-1 for k = 3..6, 2*10^6+-1; thorough also 3*10^6, 2^22) compares get_kmers and count_kmers (flat and per row) '
                 'with whole-array arithmetic, for the paths chosen by the number of windows.')
MANIFEST_NOTE = ('Trusted: NumPy, npstructures, CPython, as_encoded_array and ragged slicing for input construction, '
                 'ravel()/raw()/lengths for observation, models/windows.py (self-tested against bionumpy\'s documented '
                 'examples and hand-computed codes). Rows longer than 2w, more than 4 rows, |A|**k >= 2**63 are not explored.')

INT63 = 2 ** 63
COUNT_LIMIT = 300          # part B
COUNT_LIMIT_A = 64         # part A (per-row counts: 16)

ALPHABETS = {
    'ACGT': 'ACGT',
    'ACGTN': 'ACGTN',
    'amino': 'ACDEFGHIKLMNPQRSTVWY*',
    'AC': 'AC',
    'ACG': 'ACG',
    'ACTG': 'ACTG',
    'AGC': 'AGC',
}
_ENC = {}


def encoding(name):
    """the library encoding object for an alphabet name (built once per process)"""
    if name not in _ENC:
        import bionumpy as bnp
        from bionumpy.encodings import AlphabetEncoding, ACGTnEncoding, AminoAcidEncoding
        predefined = {'ACGT': bnp.DNAEncoding, 'ACGTN': ACGTnEncoding, 'amino': AminoAcidEncoding}
        _ENC[name] = predefined[name] if name in predefined else AlphabetEncoding(ALPHABETS[name])
    return _ENC[name]


# --------------------------------------------------------------------------- bounds / shards
QUICK_W = [1, 2, 3, 4, 5, 8, 16, 31]
B_ALPHABETS = ['ACGT', 'ACGTN', 'amino']
B_VARIANTS_T = [('fresh', 'cyclic'), ('fresh', 'first'), ('fresh', 'last'), ('fresh', 'quad'),
                ('view', 'cyclic'), ('view', 'quad'), ('revview', 'cyclic'), ('revview', 'quad'), ('ascii', 'cyclic'), ('ascii', 'quad')]
B_VARIANTS_Q = [('fresh', 'cyclic'), ('fresh', 'first'), ('fresh', 'last'), ('fresh', 'quad'),
                ('view', 'cyclic'), ('revview', 'cyclic'), ('ascii', 'cyclic')]
FULL = '{0,1,w-1,w,w+1,2w}'
NARROW = '{0,w-1,w,w+1}'


def bounds(tier, seed):
    """part A: blocks of (alphabet, rows exactly/at most, every string of length 0..max_len, windows);
    part B: windows x row-count -> length set x alphabets x (representation, fill)"""
    if tier == 'quick':
        ext = [w for w in range(1, 32) if w not in QUICK_W and (w + seed) % 3 == 0]
        return {
            'partA': [{'alphabet': 'ACGT', 'rows': [1, 2], 'max_len': 3, 'windows': [1, 2, 3]},
                      {'alphabet': 'AC', 'rows': [1, 2], 'max_len': 3, 'windows': [1, 2, 3, 4]},
                      {'alphabet': 'AC', 'rows': [3], 'max_len': 2, 'windows': [1, 2, 3]},
                      {'alphabet': 'ACG', 'rows': [1, 2], 'max_len': 3, 'windows': [1, 2, 3, 4]}],
            'partB': {'windows_core': QUICK_W, 'windows_extension_slice(seed-rotated)': ext,
                      'lengths_by_rows': {'1': FULL, '2': FULL, '3': NARROW},
                      'lengths_by_rows_extension': {'1': FULL, '2': FULL},
                      'three_rows_only_for_fills': ['cyclic', 'quad'],
                      'alphabets': B_ALPHABETS, 'variants(repr,fill)': [list(v) for v in B_VARIANTS_Q],
                      'ascii_only_for': 'ACGT',
                      'minimizer_k': 'every k <= w (generic codes: |A|**k < 2**63)'},
        }
    return {
        'partA': [{'alphabet': 'ACGT', 'rows': [1, 2], 'max_len': 3, 'windows': [1, 2, 3, 4]},
                  {'alphabet': 'ACGT', 'rows': [3], 'max_len': 2, 'windows': [1, 2, 3]},
                  {'alphabet': 'ACTG', 'rows': [1, 2], 'max_len': 3, 'windows': [1, 2, 3, 4]},
                  {'alphabet': 'AC', 'rows': [1, 2], 'max_len': 4, 'windows': [1, 2, 3, 4, 5]},
                  {'alphabet': 'AC', 'rows': [3], 'max_len': 3, 'windows': [1, 2, 3, 4]},
                  {'alphabet': 'ACG', 'rows': [1, 2], 'max_len': 4, 'windows': [1, 2, 3, 4, 5]},
                  {'alphabet': 'ACG', 'rows': [3], 'max_len': 2, 'windows': [1, 2, 3]}],
        'partB': {'windows_core': list(range(1, 32)),
                  'lengths_by_rows': {'1': FULL, '2': FULL, '3': FULL, '4': NARROW},
                  'four_rows_only_for_variants': [['fresh', 'cyclic'], ['fresh', 'quad'], ['view', 'cyclic']],
                  'alphabets': B_ALPHABETS, 'variants(repr,fill)': [list(v) for v in B_VARIANTS_T],
                  'ascii_only_for': 'ACGT',
                  'minimizer_k': 'every k <= w (generic codes: |A|**k < 2**63)'},
    }


def _n_strings(n_letters, max_len):
    return sum(n_letters ** l for l in range(max_len + 1))


N_BUNDLES = 32      # shards of similar cost (every shard runs in a fresh forked process)


def sub_shards(tier, seed):
    """fine-grained slices of the space, simplest first (few rows, small windows)"""
    b = bounds(tier, seed)
    out = []
    for spec in b['partA']:
        name = spec['alphabet']
        ns = _n_strings(len(ALPHABETS[name]), spec['max_len'])
        for w in spec['windows']:
            for nrows in spec['rows']:
                ncases = ns ** nrows
                nslices = max(1, ncases // 400)
                for i in range(nslices):
                    out.append({'part': 'A', 'alphabet': name, 'w': w, 'nrows': nrows, 'max_len': spec['max_len'],
                                'slice': [i, nslices]})
    pb = b['partB']
    ext = pb.get('windows_extension_slice(seed-rotated)', [])
    four = [tuple(v) for v in pb.get('four_rows_only_for_variants', [])]
    for w in sorted(set(pb['windows_core']) | set(ext)):
        by_rows = pb['lengths_by_rows'] if w in pb['windows_core'] else pb['lengths_by_rows_extension']
        for name in B_ALPHABETS:
            for rep, fill in [tuple(v) for v in pb['variants(repr,fill)']]:
                if rep == 'ascii' and name != pb['ascii_only_for']:
                    continue
                for nrows_s, lset in sorted(by_rows.items()):
                    if int(nrows_s) == 4 and (rep, fill) not in four:
                        continue
                    if int(nrows_s) == 3 and fill not in pb.get('three_rows_only_for_fills', [fill]):
                        continue
                    out.append({'part': 'B', 'alphabet': name, 'w': w, 'repr': rep, 'fill': fill, 'nrows': int(nrows_s),
                                'lengths': 'full' if lset == FULL else 'narrow'})
    for name, w in LADDER_TARGETS:
        for n in ladder_sizes(tier):
            out.append({'part': 'L', 'alphabet': name, 'w': w, 'nrows': 3, 'n': n})
    out.sort(key=lambda d: (d['nrows'], d['w'], d['part'], d['alphabet'], d.get('repr', ''), d.get('fill', ''),
                            d.get('slice', [0])[0], d.get('n', 0)))
    return out


# Size ladder: the enumeration above decides content- and boundary-dependence on short rows; a path chosen by the NUMBER of
# windows (block-wise counting of long inputs) needs long inputs.  One collection per ladder size N: three rows that give
# N-1, 1 and 0 windows; get_kmers and count_kmers (flat and per row) are compared with whole-array NumPy arithmetic.
LADDER_TARGETS = [('ACGT', 1), ('ACGT', 2), ('ACG', 2)]


def ladder_sizes(tier):
    ns = set()
    for k in range(8, 22):
        ns.update((2 ** k - 1, 2 ** k, 2 ** k + 1))
    for k in range(3, 7):
        ns.update((10 ** k - 1, 10 ** k, 10 ** k + 1))
    ns.update((2 * 10 ** 6 - 1, 2 * 10 ** 6, 2 * 10 ** 6 + 1))
    if tier != 'quick':
        ns.update((3 * 10 ** 6 - 1, 3 * 10 ** 6, 3 * 10 ** 6 + 1, 2 ** 22 - 1, 2 ** 22, 2 ** 22 + 1))
    return sorted(ns)


def ladder_rows(alphabet, w, n):
    """three rows with n-1, 1 and 0 windows of length w; letters from a fixed quadratic pattern"""
    na = len(alphabet)
    lengths = [n - 1 + w - 1 if n > 1 else w - 1, w, w - 1]
    total = sum(lengths)
    j = np.arange(total, dtype=np.int64)
    idx = (j * j + j // na + 1) % na
    letters = np.frombuffer(alphabet.encode(), dtype=np.uint8)[idx].tobytes().decode()
    rows, pos = [], 0
    for l in lengths:
        rows.append(letters[pos:pos + l])
        pos += l
    return rows, idx, lengths


def check_ladder(res, desc):
    import bionumpy as bnp
    name, w, n = desc['alphabet'], desc['w'], desc['n']
    alphabet = ALPHABETS[name]
    na = len(alphabet)
    rows, idx, lengths = ladder_rows(alphabet, w, n)
    size = '<10^5' if n < 10 ** 5 else ('10^5..10^6' if n <= 10 ** 6 else '>10^6')
    feats = {'path': 'size4' if na == 4 else 'other-size', 'window': str(w), 'windows_in_collection': size, 'rows': 'multi'}
    case = {'ladder': True, 'alphabet': name, 'w': w, 'n': n}
    res.evaluations += 1
    res.states += 1
    res.planned += 1
    res.traces += 1
    res.nontrivial += 1
    # expected per row: codes of the windows (little-endian base-|A|), whole-array arithmetic
    exp_codes, pos = [], 0
    for l in lengths:
        r = idx[pos:pos + l]
        pos += l
        m = max(l - w + 1, 0)
        c = np.zeros(m, dtype=np.int64)
        for i in range(w):
            c += r[i:i + m] * na ** i
        exp_codes.append(c)
    flat_exp = np.concatenate(exp_codes)
    exp_counts_rows = np.array([np.bincount(c, minlength=na ** w) for c in exp_codes])
    arr = bnp.as_encoded_array(rows, encoding(name))

    def run(func, call, judge):
        res.transitions += 1
        try:
            out = call()
            bad = judge(out)
        except observe.ObserverError:
            raise
        except Exception as e:
            res.fail('call-raises', dict(case, func=func), dict(feats, func=func), expected='a result',
                     observed='%s: %s' % (type(e).__name__, str(e)[:200]), tb=tb_string(e))
            res.outcome('ladder:%s:raises' % func)
            return
        if bad:
            res.fail(bad[0], dict(case, func=func), dict(feats, func=func), expected=bad[1], observed=bad[2])
        res.outcome('ladder:%s:%s:%s' % (func, size, 'differs' if bad else 'ok'))

    def judge_kmers(out):
        got_lengths = np.asarray(out._shape.lengths).tolist()
        if got_lengths != [len(c) for c in exp_codes]:
            return ('windows-per-row', [len(c) for c in exp_codes], got_lengths)
        got = np.asarray(out.ravel().raw()).astype(np.int64)
        if not np.array_equal(got, flat_exp):
            i = int(np.flatnonzero(got != flat_exp)[0])
            return ('kmer-code', {'window': i, 'code': int(flat_exp[i])}, {'window': i, 'code': int(got[i])})

    def judge_counts(expected):
        def judge(out):
            got = np.asarray(out.counts)
            if got.shape != expected.shape or not np.array_equal(got, expected):
                return ('kmer-count', {'total': int(expected.sum()), 'counts': expected.tolist() if expected.size <= 64 else '...'},
                        {'total': int(got.sum()), 'counts': got.tolist() if got.size <= 64 else '...'})
        return judge

    run('get_kmers', lambda: bnp.get_kmers(arr, w), judge_kmers)
    run('count_kmers', lambda: bnp.sequence.count_kmers(arr, w), judge_counts(exp_counts_rows.sum(axis=0)))
    run('count_kmers(axis=-1)', lambda: bnp.sequence.count_kmers(arr, w, axis=-1), judge_counts(exp_counts_rows))


def _simplicity(d):
    return (d['nrows'], d['w'], d['part'], d['alphabet'], d.get('repr', ''), d.get('fill', ''), d.get('slice', [0])[0])


def _estimated_calls(d):
    """rough number of library calls of a sub-shard (only used to balance the shards)"""
    if d['part'] == 'L':
        return 3 + d['n'] / 2000.0
    km = kmax(ALPHABETS[d['alphabet']])
    per_case = 7 + min(d['w'], km)
    if d['part'] == 'A':
        n_cases = _n_strings(len(ALPHABETS[d['alphabet']]), d['max_len']) ** d['nrows'] / d['slice'][1]
    else:
        n_cases = (6 if d['lengths'] == 'full' else 4) ** d['nrows']
    return n_cases * per_case


def shards(tier, seed):
    """N_BUNDLES shards of similar cost: sub-shards are assigned, most expensive first, to the least loaded shard;
    each shard runs its sub-shards simplest first, so the first exemplar of a failure group is a small case."""
    M.selftest()
    subs = sub_shards(tier, seed)
    bundles = [{'tier': tier, 'subs': [], 'estimated_calls': 0} for _ in range(N_BUNDLES)]
    for d in sorted(subs, key=lambda d: (-_estimated_calls(d), _simplicity(d))):
        b = min(bundles, key=lambda b: b['estimated_calls'])
        b['subs'].append(d)
        b['estimated_calls'] += int(_estimated_calls(d))
    bundles = [b for b in bundles if b['subs']]
    for b in bundles:
        b['subs'].sort(key=_simplicity)
    bundles.sort(key=lambda b: _simplicity(b['subs'][0]))
    for i, b in enumerate(bundles):
        b['shard'] = i
    return bundles


# --------------------------------------------------------------------------- case generation
def fill_row(fill, r, length, alphabet):
    n = len(alphabet)
    if fill == 'cyclic':
        return ''.join(alphabet[(j + r) % n] for j in range(length))
    if fill == 'first':
        return alphabet[0] * length
    if fill == 'last':
        return alphabet[-1] * length
    if fill == 'quad':
        return ''.join(alphabet[(j * j + j // n + 3 * r + 1) % n] for j in range(length))
    raise ValueError(fill)


def all_strings(alphabet, max_len):
    out = []
    for l in range(max_len + 1):
        out.extend(''.join(t) for t in itertools.product(alphabet, repeat=l))
    return out


def cases_of_shard(desc):
    """yields (rows tuple, repr)"""
    alphabet = ALPHABETS[desc['alphabet']]
    w = desc['w']
    if desc['part'] == 'A':
        strings = all_strings(alphabet, desc['max_len'])
        i, n = desc['slice']
        for idx, rows in enumerate(itertools.product(strings, repeat=desc['nrows'])):
            if idx % n != i:
                continue
            if sum(len(r) for r in rows) >= w:
                yield rows, 'fresh'
    else:
        if desc['lengths'] == 'full':
            lengths = sorted({0, 1, w - 1, w, w + 1, 2 * w})
        else:
            lengths = sorted({0, w - 1, w, w + 1})
        for prof in itertools.product(lengths, repeat=desc['nrows']):
            if sum(prof) >= w:
                yield tuple(fill_row(desc['fill'], r, l, alphabet) for r, l in enumerate(prof)), desc['repr']


# --------------------------------------------------------------------------- input construction / observation
def build_input(alpha_name, rows, rep):
    import bionumpy as bnp
    rows = list(rows)
    if rep == 'fresh':
        return bnp.as_encoded_array(rows, encoding(alpha_name))
    if rep == 'ascii':
        return bnp.as_encoded_array(rows)
    if rep == 'view':
        pad = ALPHABETS[alpha_name][-1]
        big = bnp.as_encoded_array([pad * 2] + [pad + r for r in rows] + [pad], encoding(alpha_name))
        return big[1:-1, 1:]
    if rep == 'revview':        # the rows as a row-reversed lazy view of an array holding them in the opposite order
        return bnp.as_encoded_array(rows[::-1], encoding(alpha_name))[::-1]
    raise ValueError(rep)


def rows_of(x):
    """library result -> list (one per row) of lists of Python scalars; primitive accessors only"""
    shape = getattr(x, '_shape', None)
    if shape is not None and hasattr(shape, 'lengths'):
        flat = x.ravel()
        if hasattr(flat, 'raw'):
            flat = flat.raw()
        flat = np.asarray(flat).tolist()
        out = []
        pos = 0
        for l in np.asarray(shape.lengths).tolist():
            out.append(flat[pos:pos + l])
            pos += l
        if pos != len(flat):
            raise observe.ObserverError('ragged flat size %d != sum(lengths) %d' % (len(flat), pos))
        return out
    if hasattr(x, 'raw'):
        x = x.raw()
    if isinstance(x, np.ndarray) and x.ndim == 2:
        return [r.tolist() for r in x]
    raise observe.ObserverError('unexpected result type %r' % (type(x),))


def text_rows(x):
    return observe.column(x)


# --------------------------------------------------------------------------- units (one real function + parameters)
def pwm_matrix(kind, n_letters, w):
    m = [[(((a + 1) * (i + 2)) % 11 - 5) * 0.25 for i in range(w)] for a in range(n_letters)]
    if kind == 'neginf':
        for a in range(n_letters):
            for i in range(w):
                if (a + i) % 3 == 0:
                    m[a][i] = float('-inf')
    return m


def patterns_for(rows, w, alphabet):
    pats = []
    in_row = [t for r in rows for t in M.windows(r, w)]
    if in_row:
        pats.append(in_row[0])
        pats.append(in_row[-1])
    # first window of the concatenated text that straddles a row boundary
    flat = ''.join(rows)
    ends = set(itertools.accumulate(len(r) for r in rows))
    for s in range(len(flat) - w + 1):
        if any(s < e < s + w for e in ends):
            pats.append(flat[s:s + w])
            break
    pats.append(alphabet[0] * w)
    out = []
    for p in pats:
        if p not in out:
            out.append(p)
    return out


def kmax(alphabet):
    if len(alphabet) == 4:
        return 31
    k = 0
    while len(alphabet) ** (k + 1) < INT63 and k < 31:
        k += 1
    return k


def units_for(alpha_name, rows, w, rep, part='B'):
    alphabet = ALPHABETS[alpha_name]
    n = len(alphabet)
    km = kmax(alphabet)
    us = []
    if w <= km:
        us.append({'func': 'get_kmers'})
    if rep != 'ascii':
        for k in range(1, min(w, km) + 1):
            us.append({'func': 'get_minimizers', 'k': k})
    for p in patterns_for(rows, w, alphabet):
        us.append({'func': 'match_string', 'pattern': p})
    for kind in ('finite', 'neginf'):
        us.append({'func': 'get_motif_scores', 'pwm': kind})
    if w <= km:
        if n ** w <= (COUNT_LIMIT if part == 'B' else COUNT_LIMIT_A) and w <= 8:
            us.append({'func': 'count_kmers', 'axis': 'none'})
            if part == 'B' or n ** w <= 16:
                us.append({'func': 'count_kmers', 'axis': 'rows'})
        elif w == 9 and n == 4:
            us.append({'func': 'count_kmers', 'axis': 'none', 'refusal_probe': True})
    return us


def call_unit(unit, arr, alpha_name, w):
    """the real call -> raw library result"""
    import bionumpy as bnp
    f = unit['func']
    if f == 'get_kmers':
        return bnp.get_kmers(arr, w)
    if f == 'get_minimizers':
        return bnp.get_minimizers(arr, unit['k'], w)
    if f == 'match_string':
        return bnp.match_string(arr, unit['pattern'])
    if f == 'get_motif_scores':
        from bionumpy.sequence.position_weight_matrix import PWM
        alphabet = ALPHABETS[alpha_name]
        return bnp.get_motif_scores(arr, PWM(np.array(pwm_matrix(unit['pwm'], len(alphabet), w)), alphabet))
    if f == 'count_kmers':
        if unit['axis'] == 'none':
            return bnp.sequence.count_kmers(arr, w)
        return bnp.sequence.count_kmers(arr, w, axis=-1)
    raise ValueError(f)


def model_unit(unit, rows, alpha_name, w):
    alphabet = ALPHABETS[alpha_name]
    f = unit['func']
    if f == 'get_kmers':
        return M.kmers(rows, w, alphabet)
    if f == 'get_minimizers':
        return M.minimizers(rows, unit['k'], w, alphabet)
    if f == 'match_string':
        return M.matches(rows, unit['pattern'])
    if f == 'get_motif_scores':
        return M.motif_scores(rows, pwm_matrix(unit['pwm'], len(alphabet), w), alphabet)
    if f == 'count_kmers':
        return M.counts_per_row(rows, w, alphabet)
    raise ValueError(f)


VALUE_KIND = {'get_kmers': 'kmer-code', 'get_minimizers': 'minimizer-value', 'match_string': 'match-value',
              'get_motif_scores': 'motif-score', 'count_kmers': 'kmer-count'}


def observe_unit(unit, result):
    """-> per-row lists of plain values"""
    f = unit['func']
    if f == 'count_kmers':
        c = np.asarray(result.counts)
        if unit['axis'] == 'none':
            if c.ndim != 1:
                raise observe.ObserverError('flattened counts with ndim %d' % c.ndim)
            return c.tolist()
        if c.ndim == 1 and c.size == 0:
            return []
        if c.ndim != 2:
            raise observe.ObserverError('row counts with ndim %d' % c.ndim)
        return [r.tolist() for r in c]
    rows = rows_of(result)
    if f == 'match_string':
        return [[bool(v) for v in r] for r in rows]
    return rows


def features_of(alpha_name, rows, w, rep, unit):
    """facts about the case (never the symptom); few values each"""
    n = len(ALPHABETS[alpha_name])
    f = {'func': unit['func'], 'path': 'size4' if n == 4 else 'other-size',
         'window': '1' if w == 1 else ('2-15' if w < 16 else '16-31'),
         'input': 'view' if rep in ('view', 'revview') else 'contiguous',
         'rows': 'single' if len(rows) == 1 else 'multi'}
    if unit['func'] == 'get_minimizers':
        k = unit['k']
        f['k'] = '1' if k == 1 else ('=w' if k == w else '2..w-1')
    if unit['func'] == 'count_kmers':
        f['axis'] = unit['axis']
    if unit['func'] == 'get_motif_scores':
        f['pwm'] = unit['pwm']
    return f


class ShardState:
    """per-shard memo of single-row reference calls and of verified (alphabet, text) renderings"""

    def __init__(self):
        self.single = {}
        self.rendered = set()

    def trim(self):
        if len(self.single) > 40000:
            self.single.clear()
        if len(self.rendered) > 200000:
            self.rendered.clear()


def _bucket(n, cap):
    return str(n) if n < cap else '%d+' % cap


def run_unit(res, st, alpha_name, rows, w, rep, arr, unit):
    alphabet = ALPHABETS[alpha_name]
    feats = features_of(alpha_name, rows, w, rep, unit)
    case = {'alphabet': alpha_name, 'rows': list(rows), 'w': w, 'repr': rep, 'unit': unit}
    f = unit['func']
    res.transitions += 1
    if rep in ('view', 'revview'):
        # a lazy view is rebuilt for every call: reading it (also the harness's own check of its text) gathers its rows in
        # place, after which it is an ordinary contiguous array
        arr = build_input(alpha_name, rows, rep)
    try:
        result = call_unit(unit, arr, alpha_name, w)
        obs = observe_unit(unit, result)
    except observe.ObserverError:
        raise
    except Exception as e:
        if unit.get('refusal_probe'):
            res.raising += 1
            res.extra['count_kmers refuses k>8 (assertion; not judged)'] += 1
            res.outcome('count_kmers:refused')
            return
        res.fail('call-raises', case, feats, expected='a result (the statement gives a value for every such input)',
                 observed='%s: %s' % (type(e).__name__, str(e)[:200]), tb=tb_string(e))
        res.outcome('%s:raises:%s' % (f, type(e).__name__))
        return
    if unit.get('refusal_probe'):
        res.extra['count_kmers accepted k=9 (not judged)'] += 1
        return

    if f == 'count_kmers':
        per_row = M.counts_per_row(rows, w, alphabet)
        exp = M.counts_total(rows, w, alphabet) if unit['axis'] == 'none' else per_row
        ok = obs == exp
        res.outcome('count_kmers:%s:total=%s:%s' % (unit['axis'], _bucket(sum(sum(r) for r in per_row), 10),
                                                  'ok' if ok else 'differs'))
        if not ok:
            res.fail('kmer-count', case, feats, expected=_nonzero(exp), observed=_nonzero(obs))
            return
        labels = list(result.alphabet)
        if labels != M.count_labels(w, alphabet):
            res.fail('kmer-count-label', case, feats, expected=M.count_labels(w, alphabet)[:50], observed=labels[:50])
            return
        if unit['axis'] == 'rows' and len(rows) > 1:
            _differential(res, st, alpha_name, rows, w, unit, obs, case, feats)
        return

    exp = model_unit(unit, rows, alpha_name, w)
    n_exp = [len(r) for r in exp]
    n_obs = [len(r) for r in obs]
    distinct = len({json.dumps(v) for r in obs for v in r})
    res.outcome('%s:windows=%s:distinct=%s' % (f, _bucket(sum(n_obs), 12), _bucket(distinct, 6)))
    if n_obs != n_exp:
        if len(n_obs) == len(n_exp) and any(o > 0 for r, o in zip(rows, n_obs) if len(r) < w):
            res.fail('short-row-yields-windows', case, feats, expected=n_exp, observed=n_obs)
        else:
            res.fail('windows-per-row', case, feats, expected=n_exp, observed=n_obs)
        return
    if obs != exp:
        res.fail(VALUE_KIND[f], case, feats, expected=exp, observed=obs)
        return
    if f == 'get_kmers':
        _render_clauses(res, st, alpha_name, rows, w, result, obs, case, feats)
    if f == 'get_motif_scores':
        if not _reuse_clause(res, alpha_name, rows, w, rep, arr, unit, exp, case, feats):
            return
    if len(rows) > 1:
        _differential(res, st, alpha_name, rows, w, unit, obs, case, feats)


def _reuse_clause(res, alpha_name, rows, w, rep, arr, unit, exp, case, feats):
    """A PWM is a value a user builds once and scores many collections with.  History on ONE PWM object:
    score(rows) ; score(rows') ; score(rows) where rows' has the same number of letters (rows and letters reversed);
    every result equals the definition, and the FIRST result, kept alive and observed again after the later calls,
    still holds its values (no scratch shared between calls)."""
    import bionumpy as bnp
    from bionumpy.sequence.position_weight_matrix import PWM
    alphabet = ALPHABETS[alpha_name]
    matrix = pwm_matrix(unit['pwm'], len(alphabet), w)
    rows2 = tuple(r[::-1] for r in rows[::-1])
    feats = dict(feats, history='same-pwm-object')
    case = dict(case, history=['rows', 'reversed', 'rows'])
    try:
        pwm = PWM(np.array(matrix), alphabet)
        arr2 = build_input(alpha_name, rows2, rep)
        kept = []
        for step, (a, r) in enumerate(((arr, rows), (arr2, rows2), (arr, rows))):
            res.transitions += 1
            out = bnp.get_motif_scores(a, pwm)
            kept.append(out)
            got = observe_unit(unit, out)
            want = exp if r is rows else M.motif_scores(r, matrix, alphabet)
            if got != want:
                res.fail('motif-score-on-reused-pwm', dict(case, step=step), feats, expected=want, observed=got)
                return False
        res.transitions += 1
        again = observe_unit(unit, kept[0])
        if again != exp:
            res.fail('earlier-result-changed-by-later-call', case, feats, expected=exp, observed=again)
            return False
    except observe.ObserverError:
        raise
    except Exception as e:
        res.fail('call-raises', case, feats, expected='a result on every call of the history',
                 observed='%s: %s' % (type(e).__name__, str(e)[:200]), tb=tb_string(e))
        return False
    return True


def _nonzero(counts):
    if counts and isinstance(counts[0], list):
        return [_nonzero(c) for c in counts]
    return {str(i): c for i, c in enumerate(counts) if c}


def _render_clauses(res, st, alpha_name, rows, w, result, obs, case, feats):
    """A k-mer renders back to the window's text: (a) the returned array's own encoding renders the returned codes;
    (b) KmerEncoding(alphabet, k).to_string(code) and .encode(text) on every distinct window, scalar form."""
    from bionumpy.encodings.kmer_encodings import KmerEncoding
    alphabet = ALPHABETS[alpha_name]
    texts = M.window_texts(rows, w)
    flat_texts = [t for r in texts for t in r]
    flat_codes = [c for r in obs for c in r]
    res.transitions += 1
    try:
        rendered = result.encoding.to_string(result.ravel().raw())
    except Exception as e:
        res.fail('call-raises', case, dict(feats, func='KmerEncoding.to_string'), expected=','.join(flat_texts)[:300],
                 observed='%s: %s' % (type(e).__name__, str(e)[:200]), tb=tb_string(e))
        return
    if rendered != ','.join(flat_texts):
        res.fail('kmer-renders-to-window-text', case, dict(feats, func='KmerEncoding.to_string'),
                 expected=','.join(flat_texts), observed=rendered)
        return
    ke = KmerEncoding(encoding(alpha_name), w)
    for t, c in zip(flat_texts, flat_codes):
        key = (alpha_name, t)
        if key in st.rendered:
            continue
        st.rendered.add(key)
        res.transitions += 2
        try:
            s = ke.to_string(c)
            code = np.asarray(ke.encode(t).raw()).tolist()
        except Exception as e:
            res.fail('call-raises', dict(case, text=t), dict(feats, func='KmerEncoding.to_string/encode'), expected=[t, c],
                     observed='%s: %s' % (type(e).__name__, str(e)[:200]), tb=tb_string(e))
            return
        if s != t:
            res.fail('kmer-renders-to-window-text', dict(case, text=t), dict(feats, func='KmerEncoding.to_string'),
                     expected=t, observed=s)
            return
        if code != c:
            res.fail('kmer-encode-text', dict(case, text=t), dict(feats, func='KmerEncoding.encode'), expected=c,
                     observed=code)
            return


def _differential(res, st, alpha_name, rows, w, unit, obs, case, feats):
    """row i of the collection == the same function on the one-row collection [row i] (needs len(row) >= w)"""
    ukey = json.dumps(unit, sort_keys=True)
    for i, row in enumerate(rows):
        if len(row) < w:
            continue
        key = (alpha_name, row, w, ukey)
        if key not in st.single:
            res.transitions += 1
            try:
                single = observe_unit(unit, call_unit(unit, build_input(alpha_name, [row], 'fresh'), alpha_name, w))
                st.single[key] = single[0] if len(single) == 1 else ('bad-shape', single)
            except observe.ObserverError:
                raise
            except Exception as e:
                st.single[key] = ('raises', type(e).__name__)
        ref = st.single[key]
        if isinstance(ref, tuple):
            res.extra['single-row reference unavailable: %s' % (ref[0],)] += 1
            continue
        if obs[i] != ref:
            res.fail('differs-from-sequence-alone', dict(case, row_index=i), feats, expected=ref, observed=obs[i])
            return


# --------------------------------------------------------------------------- case driver
def is_nontrivial(rows, w):
    if len(rows) < 2:
        return False
    exp = sum(M.n_windows(rows, w))
    if exp < 1:
        return False
    flat_windows = sum(len(r) for r in rows) - w + 1
    return flat_windows != exp or any(len(r) < w for r in rows)


def check_case(res, st, alpha_name, rows, w, rep, only_unit=None, part='B'):
    rows = tuple(rows)
    res.evaluations += 1
    res.states += 1
    res.planned += 1
    arr = build_input(alpha_name, rows, rep)
    if text_rows(arr) != list(rows):
        res.extra['input construction gave other text (%s); case skipped' % rep] += 1
        return
    units = units_for(alpha_name, rows, w, rep, part) if only_unit is None else [only_unit]
    for unit in units:
        run_unit(res, st, alpha_name, rows, w, rep, arr, unit)
    res.traces += 1
    if is_nontrivial(rows, w):
        res.nontrivial += 1
    if len(res.samples) < 2 and len(rows) > 1:
        res.sample({'alphabet': alpha_name, 'rows': list(rows), 'w': w, 'repr': rep,
                    'calls': [u['func'] + (':k=%d' % u['k'] if 'k' in u else '') for u in units][:12],
                    'expected_kmers_per_row': M.n_windows(rows, w)})
    st.trim()


# Two alphabets of the same size used in ONE process, in both orders (even/odd shards): anything the library builds
# lazily per (alphabet size, k) - label tables, lookup tables - must not leak from one alphabet to the other.
TWINS = [('ACGT', 'ACTG'), ('ACG', 'AGC')]


def run_twins(res, shard_index):
    for a, b in TWINS:
        order = (a, b) if shard_index % 2 == 0 else (b, a)
        for name in order + order[:1]:
            alpha = ALPHABETS[name]
            rows = [alpha + alpha[0], alpha[-1] * 2 + alpha[1]]
            for w in (1, 2):
                check_case(res, ShardState(), name, rows, w, 'fresh', part='A')


def run_shard(desc, deadline):
    res = Result()
    run_twins(res, desc.get('shard', 0))
    for sub in desc['subs']:
        if sub['part'] == 'L':
            if deadline.expired():
                res.capped = True
                return res
            check_ladder(res, sub)
            continue
        st = ShardState()
        for n, (rows, rep) in enumerate(cases_of_shard(sub)):
            if n % 16 == 0 and deadline.expired():
                res.capped = True
                return res
            check_case(res, st, sub['alphabet'], rows, sub['w'], rep, part=sub['part'])
    return res


def replay_case(case):
    res = Result()
    if case.get('ladder'):
        check_ladder(res, {'alphabet': case['alphabet'], 'w': case['w'], 'n': case['n']})
        return [{'kind': g['kind'], 'features': g['features'], 'observed': g['exemplars'][0]['observed'],
                 'expected': g['exemplars'][0]['expected'], 'traceback': g['exemplars'][0]['traceback']}
                for g in res.fail_groups.values() if g['exemplars'][0]['case'].get('func') == case.get('func')]
    check_case(res, ShardState(), case['alphabet'], case['rows'], case['w'], case['repr'], only_unit=case['unit'])
    return [{'kind': g['kind'], 'features': g['features'], 'observed': g['exemplars'][0]['observed'],
             'expected': g['exemplars'][0]['expected'], 'traceback': g['exemplars'][0]['traceback']}
            for g in res.fail_groups.values()]


def repro_py(case):
    if case.get('ladder'):
        return ('import numpy as np, bionumpy as bnp\n# three rows with %d, 1 and 0 windows of length %d over %r (letters: (j*j + j//|A| + 1) %% |A|)\n'
                '# see checks/c13_windows.py ladder_rows(); replay with bin/vcheck replay <this file>\n'
                % (case['n'] - 1, case['w'], ALPHABETS[case['alphabet']]))
    unit = case['unit']
    alpha = ALPHABETS[case['alphabet']]
    rows, w, rep = case['rows'], case['w'], case['repr']
    enc = {'ACGT': 'bnp.DNAEncoding', 'ACGTN': 'bnp.encodings.ACGTnEncoding',
           'amino': 'bnp.encodings.AminoAcidEncoding'}.get(case['alphabet'], 'bnp.encodings.AlphabetEncoding(%r)' % alpha)
    if rep == 'fresh':
        build = 'seqs = bnp.as_encoded_array(%r, %s)' % (rows, enc)
    elif rep == 'ascii':
        build = 'seqs = bnp.as_encoded_array(%r)' % (rows,)
    else:
        pad = alpha[-1]
        build = 'seqs = bnp.as_encoded_array(%r, %s)[1:-1, 1:]   # rows %r as a sliced view' % (
            [pad * 2] + [pad + r for r in rows] + [pad], enc, rows)
    f = unit['func']
    if f == 'get_kmers':
        call = 'out = bnp.get_kmers(seqs, %d)' % w
    elif f == 'get_minimizers':
        call = 'out = bnp.get_minimizers(seqs, %d, %d)' % (unit['k'], w)
    elif f == 'match_string':
        call = 'out = bnp.match_string(seqs, %r)' % unit['pattern']
    elif f == 'get_motif_scores':
        call = ('from bionumpy.sequence.position_weight_matrix import PWM\n'
                'out = bnp.get_motif_scores(seqs, PWM(np.array(%r, dtype=float), %r))' % (
                    json.loads(json.dumps(pwm_matrix(unit['pwm'], len(alpha), w)).replace('-Infinity', '"-inf"')), alpha))
        call = call.replace("'-inf'", "-np.inf")
    else:
        call = 'out = bnp.sequence.count_kmers(seqs, %d%s).counts' % (w, '' if unit['axis'] == 'none' else ', axis=-1')
    if f == 'count_kmers':
        exp = M.counts_total(rows, w, alpha) if unit['axis'] == 'none' else M.counts_per_row(rows, w, alpha)
        show = 'print(np.asarray(out).tolist())'
    else:
        exp = model_unit(unit, rows, case['alphabet'], w)
        show = ('flat = out.ravel(); flat = flat.raw() if hasattr(flat, "raw") else flat\n'
                'print("row lengths", out.shape[-1], "values", np.asarray(flat).tolist())')
    return 'import numpy as np, bionumpy as bnp\ninf = float("inf")\n%s\n%s\n%s\nprint("expected per row (definition on each sequence alone):", %r)\n' % (
        build, call, show, exp)
