"""Shared harness helpers: reader construction over harness-owned file objects."""
import gzip as _pygzip
import io
import logging

logging.disable(logging.WARNING)   # bionumpy logs a warning per header-less VCF read


def gz_bytes(data):
    buf = io.BytesIO()
    with _pygzip.GzipFile(fileobj=buf, mode='wb', mtime=0) as g:
        g.write(data)
    return buf.getvalue()


def make_reader(data, buffer_type, lazy, gz=False):
    """The narrow seam named in C01's observe_at:
    NpDataclassReader(NumpyFileReader(file object, buffer type), lazy=...).
    For gzip the same steps as bnp.open: gzip file object + prepend mode."""
    from bionumpy.io.parser import NumpyFileReader
    from bionumpy.io.npdataclassreader import NpDataclassReader
    if gz:
        from bionumpy.io.gzip_reading import gzip as bnp_gzip
        fobj = bnp_gzip.GzipFile(fileobj=io.BytesIO(gz_bytes(data)), mode='rb')
        fr = NumpyFileReader(fobj, buffer_type)
        fr.set_prepend_mode()
    else:
        fr = NumpyFileReader(io.BytesIO(data), buffer_type)
    return NpDataclassReader(fr, lazy=lazy)


def exc_name(e):
    return type(e).__name__
