"""C20 — operations do not modify their inputs.

Part A (registry, shape A): every function of a registry of the public API x a
menu of argument tuples (including the special paths: negative numbers, '+'
signs, scientific floats, list-valued columns, genotype columns): deep byte
snapshot of every array reachable from the arguments -> call -> compare; call
again -> results equal.
Part B (chunk invariant, explicit state): for each lazily read chunk of every
format, explicit-state search over the SET of fields accessed so far (every
access order reaches every subset): in every state the chunk's raw buffer
bytes and the bytes it writes equal the original.
"""
import dataclasses
import io
import itertools

import numpy as np

from engine import observe
from engine.result import Result, tb_string, raising_frame
from models.formats import FORMATS, LF
from .common import make_reader, exc_name

PROPERTY = 'C20'
LEVEL = 'model_checking'
RULE = ('part A: registry function x argument tuple from its menu; a case = one call, judged by snapshot-before == snapshot-after '
        'and first result == second result; part B: format x root view (whole, reversed, tail) x subset of fields accessed '
        '(state) x next field (transition), invariant on raw buffer bytes and written bytes in every state; non-trivial = the '
        'argument tuple contains at least one array / the state has >= 1 accessed field')
ASSUMPTIONS = [
    'explicit item/attribute assignment is excluded by the statement and is not in the registry',
    'snapshots cover arrays reachable through dataclass fields, tuples, lists, dicts, EncodedArray/RaggedArray/StringArray wrappers',
    'the raw buffer of a lazy chunk is read best-effort (t._itemgetter.buffer.data); the written bytes are the public observation',
    'argument menus are small and hand-picked around the special paths named in the property',
]
EXPLANATION = 'bounded exhaustive enumeration of registry calls plus explicit-state search over field-access sets of lazy chunks'
MANIFEST_TEXT = ('Registry of ~90 public functions/methods (text<->number conversion, split/join, interval arithmetic, sequence '
                 'functions, encoding changes, genomic-data methods, table methods) x menus of argument tuples covering the '
                 'special paths (negative, "+", scientific floats, list-valued, genotype columns): arguments byte-identical '
                 'before/after every call, the second call returns an equal result, an earlier result kept alive is unchanged by later '
                 'calls, and after explicit assignment into a result the same call on fresh equal arguments still returns the first value. Explicit-state search over every subset '
                 'of accessed fields (<= 8 fields quick / all fields thorough, every access order) of lazily read chunks of 12 '
                 'formats on three root views: raw buffer bytes and written bytes unchanged in every state, field values after the write and field '
                 'values of a sub-chunk sliced off before the accesses equal those of a fresh read.')
MANIFEST_NOTE = 'Trusted: NumPy, the snapshot function in this file. Registry and menus bound the space.'
TECHNIQUE = 'exhaustive registry enumeration with deep snapshots + explicit-state search over field-access sets'


# ---------------------------------------------------------------- deep snapshot
def snap(x, depth=0):
    from bionumpy.encoded_array import EncodedArray, EncodedRaggedArray
    from bionumpy.string_array import StringArray
    from bionumpy.bnpdataclass import BNPDataClass
    from npstructures import RaggedArray
    if 6 < depth < 100 or depth > 106:
        return '<deep>'
    if isinstance(x, (EncodedRaggedArray, RaggedArray)) and depth < 100:
        # ravel() of a lazy ragged VIEW gathers its rows and installs the gathered array in the object: the snapshot is taken
        # from a deep copy, so that taking it neither detaches the argument from memory it shares nor hides a later write
        import copy
        return snap(copy.deepcopy(x), depth + 100)
    if isinstance(x, EncodedRaggedArray):
        return ('ERA', str(x.encoding), np.asarray(x.ravel().raw()).tobytes(), tuple(int(v) for v in x._shape.lengths))
    if isinstance(x, EncodedArray):
        r = np.asarray(x.raw())
        return ('EA', str(x.encoding), r.shape, str(r.dtype), r.tobytes())
    if isinstance(x, RaggedArray):
        r = np.asarray(x.ravel())
        return ('RA', str(r.dtype), r.tobytes(), tuple(int(v) for v in x._shape.lengths))
    if isinstance(x, StringArray):
        r = x.raw()
        return ('SA', str(r.dtype), r.shape, r.tobytes())
    if isinstance(x, np.ndarray):
        return ('ND', str(x.dtype), x.shape, x.tobytes() if x.dtype != object else repr(x.tolist()))
    if isinstance(x, BNPDataClass):
        if hasattr(x, '_itemgetter'):     # lazy table
            # (a lazy table cannot be deep-copied; reading its fields or writing it changes hidden state.)  What identifies its
            # value without touching it: the columns the user has set on it and the raw bytes behind it.
            try:
                set_values = dict(object.__getattribute__(x, '_set_values') or {})
            except Exception:
                set_values = {}
            return ('LAZY', type(x).__name__, len(x), snap(set_values, depth + 1), raw_bytes(x))
        return ('DC', type(x).__name__, tuple((f.name, snap(getattr(x, f.name), depth + 1)) for f in dataclasses.fields(x)))
    if isinstance(x, (list, tuple)):
        return (type(x).__name__,) + tuple(snap(v, depth + 1) for v in x)
    if isinstance(x, dict):
        return ('dict',) + tuple((k, snap(v, depth + 1)) for k, v in sorted(x.items(), key=lambda kv: str(kv[0])))
    if hasattr(x, '_data') and hasattr(x, '_genome_context'):
        return ('GA', type(x).__name__, snap(getattr(x, '_data', None), depth + 1))
    if hasattr(x, '_intervals') and hasattr(x, '_genome_context'):
        return ('GI', type(x).__name__, snap(getattr(x, '_intervals', None), depth + 1))
    if hasattr(x, '_locations') and hasattr(x, '_genome_context'):
        return ('GL', type(x).__name__, snap(getattr(x, '_locations', None), depth + 1))
    if hasattr(x, '_events') and hasattr(x, '_values'):
        return ('RLA', snap(np.asarray(x._events), depth + 1), snap(np.asarray(x._values), depth + 1))
    return ('other', type(x).__name__, repr(x)[:200])


def result_value(r, depth=0):
    """result -> comparable value (results of the two calls must be equal)"""
    import types
    if isinstance(r, types.GeneratorType):
        return tuple(result_value(v, depth + 1) for v in r)
    if hasattr(r, 'to_array') and not isinstance(r, np.ndarray):
        try:
            return ('RL', snap(np.asarray(r.to_array())))
        except Exception:
            pass
    if hasattr(r, 'to_dict') and hasattr(r, '_genome_context'):
        try:
            return ('GA', tuple((k, snap(np.asarray(v.to_array() if hasattr(v, 'to_array') else v))) for k, v in r.to_dict().items()))
        except Exception:
            pass
    if hasattr(r, 'get_data') and hasattr(r, '_genome_context'):
        try:
            return ('GI', snap(r.get_data()))
        except Exception:
            pass
    if hasattr(r, 'counts') and hasattr(r, 'alphabet'):
        return ('counts', snap(np.asarray(r.counts)))
    s = snap(r)
    if s[0] == 'other':
        # objects without a structural snapshot: compare through their list form, never through repr (addresses)
        if hasattr(r, 'tolist'):
            try:
                return ('tolist', type(r).__name__, repr(r.tolist()))
            except Exception:
                pass
        if ' at 0x' in s[2]:
            return ('other', s[1])
    return s


# ---------------------------------------------------------------- registry
def registry():
    """list of (name, [builders]) ; builder() -> (callable, args tuple) built fresh"""
    import bionumpy as bnp
    from bionumpy.io import strops
    from bionumpy.arithmetics import intervals as iv
    from bionumpy.datatypes import Interval, Bed6, StrandedInterval
    from bionumpy.sequence import get_reverse_complement, get_kmers, get_minimizers, match_string, count_kmers, translate_dna_to_protein
    from bionumpy.sequence.dna import get_strand_specific_sequences
    from npstructures import RaggedArray
    E = bnp.as_encoded_array
    reg = []

    def add(name, fn, *arg_builders):
        reg.append((name, fn, arg_builders))

    texts_int = [lambda: (E(['1', '23', '456']),), lambda: (E(['-1', '+23', '007']),), lambda: (E(['0']),), lambda: (E(['-9223372036854775808', '5']),),
                 # every sign pattern on its own: plus only, minus only (each takes a different branch)
                 lambda: (E(['+5', '12', '+300']),), lambda: (E(['-5', '12', '-300']),), lambda: (E(['+7']),)]
    add('strops.str_to_int', strops.str_to_int, *texts_int)

    def V(rows):    # the rows as a lazy ragged VIEW (row slice of a larger array that nothing has flattened yet)
        return E(['99'] + list(rows) + ['+1'])[1:-1]
    add('strops.str_to_int (argument is a row view)', strops.str_to_int, lambda: (V(['-12', '+3', '-450']),), lambda: (V(['7', '12']),),
        lambda: (V(['+5', '12', '+300']),))
    add('strops.str_to_float (argument is a row view)', strops.str_to_float, lambda: (V(['0.5', '-2.25', '1e3']),))
    add('strops.str_to_int_with_missing (argument is a row view)', strops.str_to_int_with_missing, lambda: (V(['.', '5', '-3']),))
    add('EncodedRaggedArray.copy (of a row view)', (lambda x: x.copy()), lambda: (V(['-12', '+3']),), lambda: (E(['AC', 'G', 'TTT'])[::-1],))
    texts_float = [lambda: (E(['0.5', '-2.25', '10']),), lambda: (E(['1e3', '2.5e-3', '-1e-10']),), lambda: (E(['.5', '5.', '-0.0']),)]
    add('strops.str_to_float', strops.str_to_float, *texts_float)
    add('strops.str_to_int_with_missing', strops.str_to_int_with_missing, lambda: (E(['.', '5', '-3']),), lambda: (E(['.', '.']),))
    add('strops.str_to_float_with_missing', strops.str_to_float_with_missing, lambda: (E(['.', '0.5']),))
    ints = [lambda: (np.array([0, 5, -7, 10 ** 15 - 1]),), lambda: (np.array([-2 ** 63, 2 ** 63 - 1]),), lambda: (np.array([12]),)]
    add('strops.ints_to_strings', strops.ints_to_strings, *ints)
    add('strops.float_to_strings', strops.float_to_strings, lambda: (np.array([0.5, -2.25, 1e-5, 1e20]),))
    add('strops.int_lists_to_strings', strops.int_lists_to_strings, lambda: (RaggedArray(np.array([1, 2, 3, -4]), [2, 0, 2]),),
        lambda: (RaggedArray(np.array([7]), [1]),))
    add('strops.split', strops.split, lambda: (E('a,bc,,d'), ','), lambda: (E('1\t2\t3'), '\t'))
    add('strops.join', strops.join, lambda: (E(['a', 'bc', '', 'd']), ','), lambda: (E(['x']), '\t'))
    add('strops.str_equal', strops.str_equal, lambda: (E(['ab', 'abc', 'ab']), 'ab'))

    def I(rows):
        return Interval([r[0] for r in rows], [r[1] for r in rows], [r[2] for r in rows])

    def SI(rows):
        return StrandedInterval([r[0] for r in rows], [r[1] for r in rows], [r[2] for r in rows], [r[3] for r in rows])
    ivs = [[('c', 1, 4), ('c', 2, 3), ('c', 5, 6)], [('c', 0, 6)], [('c', 0, 1), ('c', 1, 2)], []]
    iv_b = [lambda rows=rows: (I(rows) if rows else Interval.empty(), 6) for rows in ivs]
    add('get_pileup', iv.get_pileup, *iv_b)
    add('get_boolean_mask', iv.get_boolean_mask, *iv_b)
    add('merge_intervals', iv.merge_intervals, *[lambda rows=rows, d=d: (I(rows), d) for rows in ivs[:3] for d in (0, 1, 2)])
    unsorted = [('c2', 5, 6), ('c1', 2, 3), ('c1', 1, 4)]
    add('sort_intervals', iv.sort_intervals, lambda: (I(unsorted),), lambda: (I(ivs[0]),))
    add('count_overlap', iv.count_overlap, lambda: (I(ivs[2]), I(ivs[1])))
    add('intersect', iv.intersect, lambda: (I(ivs[2]), I(ivs[1])))
    add('unique_intersect', iv.unique_intersect, lambda: (I(ivs[0]), I(ivs[2]), 6))
    add('extend_to_size', iv.extend_to_size, lambda: (SI([('c', 1, 2, '+'), ('c', 4, 5, '-')]), 3, np.array([6, 6])))
    add('clip', iv.clip, lambda: (I([('c', -2, 3), ('c', 4, 9)]), np.array([6, 6])))

    seqs = [lambda: (E(['ACGT', 'AC', '', 'GGTCA'], bnp.DNAEncoding),), lambda: (E(['acgtn', 'N'], bnp.encodings.ACGTnEncoding),),
            lambda: (E(['ACGTacgtN']),), lambda: (E('ACGT', bnp.DNAEncoding),)]
    add('get_reverse_complement', get_reverse_complement, *seqs)
    add('get_kmers', get_kmers, lambda: (E(['ACGT', 'AC', 'GGTCA'], bnp.DNAEncoding), 2), lambda: (E(['ACGT'], bnp.DNAEncoding), 1),
        lambda: (E('ACGTT', bnp.DNAEncoding), 3))
    add('get_minimizers', get_minimizers, lambda: (E(['ACGTAC', 'GGTCA'], bnp.DNAEncoding), 2, 3))
    add('match_string', match_string, lambda: (E(['ACGTAC', 'GGTCA', 'A']), 'AC'), lambda: (E(['ACGTAC'], bnp.DNAEncoding), 'G'))
    add('count_kmers', count_kmers, lambda: (E(['ACGT', 'AC', 'GGTCA'], bnp.DNAEncoding), 2))
    add('translate_dna_to_protein', translate_dna_to_protein, lambda: (E(['ATGTGA', 'AAA', '']),), lambda: (E(['atgtaa']),))
    add('get_strand_specific_sequences', get_strand_specific_sequences,
        lambda: (E('ACGTAC', bnp.DNAEncoding), Bed6(['c', 'c'], [0, 2], [3, 5], ['a', 'b'], [0, 0], ['+', '-'])))
    add('as_encoded_array', bnp.as_encoded_array, lambda: (E(['ACGT', 'ac']), bnp.DNAEncoding), lambda: ('ACGT', bnp.DNAEncoding),
        lambda: (['AC', 'G'], bnp.DNAEncoding), lambda: (E(['ACG'], bnp.DNAEncoding), bnp.encodings.ACGTnEncoding))
    add('change_encoding', bnp.change_encoding, lambda: (E(['ACGT', 'AC'], bnp.DNAEncoding), bnp.encodings.ACGTnEncoding),
        lambda: (E('ACGT', bnp.DNAEncoding), bnp.encodings.BaseEncoding))

    # genomic data methods
    def G():
        return bnp.Genome.from_dict({'chr1': 6, 'chr2': 4})
    grows = [('chr1', 1, 4), ('chr1', 2, 3), ('chr2', 0, 2)]
    for mname in ('get_mask', 'get_pileup', 'clip', 'sorted'):
        add('GenomicIntervals.' + mname, (lambda gi, m=mname: getattr(gi, m)()), lambda: (G().get_intervals(I(grows)),))
    add('GenomicIntervals.merged', (lambda gi, d: gi.merged(d)), lambda: (G().get_intervals(I(grows)), 1))
    add('GenomicIntervals.extended_to_size', (lambda gi, s: gi.extended_to_size(s)),
        lambda: (G().get_intervals(SI([('chr1', 1, 2, '+'), ('chr2', 2, 3, '-')]), stranded=True), 3))
    add('GenomicIntervals.get_data', (lambda gi: gi.get_data()), lambda: (G().get_intervals(I(grows)),))
    add('GenomicArray.__add__', (lambda a: a + 1), lambda: (G().get_intervals(I(grows)).get_pileup(),))
    add('GenomicArray.__gt__', (lambda a: a > 1), lambda: (G().get_intervals(I(grows)).get_pileup(),))
    add('GenomicArray.sum', (lambda a: a.sum()), lambda: (G().get_intervals(I(grows)).get_pileup(),))
    add('GenomicArray.get_data', (lambda a: a.get_data()), lambda: (G().get_intervals(I(grows)).get_pileup(),))
    add('GenomicArray.to_dict', (lambda a: a.to_dict()), lambda: (G().get_intervals(I(grows)).get_pileup(),))
    add('GenomicArray[intervals]', (lambda a, gi: a[gi]), lambda: (G().get_intervals(I(grows)).get_pileup(), G().get_intervals(I(grows))))
    add('Genome.get_track', (lambda g, t: g.get_track(t)),
        lambda: (G(), bnp.datatypes.BedGraph(['chr1', 'chr2'], [1, 0], [3, 2], [2, 5])))

    # table methods
    def T():
        return Bed6(['c', 'chr10', 'a'], [5, 1, 3], [6, 9, 4], ['n0', 'x', 'yy'], [1, -2, 3], ['+', '-', '.'])
    add('table[slice]', (lambda t: t[1:]), lambda: (T(),))
    add('table[mask]', (lambda t, m: t[m]), lambda: (T(), np.array([True, False, True])))
    add('table[fancy]', (lambda t, i: t[i]), lambda: (T(), np.array([2, 0, 0])))
    add('np.concatenate(tables)', (lambda a, b: np.concatenate([a, b])), lambda: (T(), T()[:1]))
    add('bnp.replace', (lambda t, v: bnp.replace(t, start=v)), lambda: (T(), np.array([7, 8, 9])))

    def LZ(replaced_first):
        data, B, _ = chunk_root('bed6')
        t = make_reader(data, B, True).read()
        return bnp.replace(t, start=np.arange(len(t)) + 100) if replaced_first else t
    add('bnp.replace (lazily read table)', (lambda t: bnp.replace(t, stop=np.arange(len(t)) + 1000)), lambda: (LZ(False),))
    add('bnp.replace (lazily read table that already has a replaced column)', (lambda t: bnp.replace(t, stop=np.arange(len(t)) + 1000)),
        lambda: (LZ(True),))
    add('table.sort_by', (lambda t: t.sort_by('start')), lambda: (T(),))
    add('table.tolist', (lambda t: [dataclasses.astuple(e) if dataclasses.is_dataclass(e) else e for e in t.tolist()]), lambda: (T(),))
    add('table.todict', (lambda t: t.todict()), lambda: (T(),))
    add('table.topandas', (lambda t: t.topandas().to_dict('list')), lambda: (T(),))
    add('table.astype', (lambda t: t.astype(Interval)), lambda: (T(),))
    add('table.add_fields', (lambda t, v: t.add_fields({'extra': v}, {'extra': int})), lambda: (T(), np.array([1, 2, 3])))
    add('Bed6.from_entry_tuples', (lambda rows: Bed6.from_entry_tuples(rows)), lambda: ([('c', 1, 2, 'n', 0, '+'), ('d', 3, 4, 'm', 5, '-')],))
    add('iter(table)', (lambda t: [dataclasses.astuple(e) for e in t]), lambda: (T(),))

    # alignments: the eagerly read BAM table (every column is a plain array the snapshot sees) and hand-built CIGAR columns
    import bionumpy.alignments as alignments
    from bionumpy.alignments.cigar import count_reference_length
    from bionumpy.encodings import CigarOpEncoding
    from npstructures import RaggedArray

    def cigar_args():
        ops = bnp.as_encoded_array(['SMIM', 'M', 'HDNP=X', ''], CigarOpEncoding)
        return ops, RaggedArray(np.array([3, 10, 2, 5, 7, 1, 2, 3, 4, 5, 6], dtype=np.int64), [4, 1, 6, 0])
    add('alignments.alignment_to_interval', alignments.alignment_to_interval, lambda: (bnp.open(bam_root(), lazy=False).read(),))
    add('alignments.cigar.count_reference_length', count_reference_length, cigar_args)

    # the rest of the top-level namespace: reductions, counting, slicing, similarity, Geometry / Genome / GenomicIntervals methods
    from bionumpy.sequence.position_weight_matrix import PWM
    from bionumpy.genomic_data.geometry import Geometry
    from bionumpy.datatypes import VCFEntry
    import bionumpy.arithmetics as ar
    import bionumpy.sequence as sq
    import bionumpy.variants as va
    ivA, ivB, ivC = [('c', 0, 1), ('c', 1, 2)], [('c', 0, 6)], [('c', 1, 4), ('c', 2, 3), ('c', 5, 6)]

    def Geo():
        return Geometry({'chr1': 6, 'chr2': 4})
    add('bincount', (lambda a: bnp.bincount(a)), lambda: (np.array([0, 1, 1, 3]),), lambda: (np.array([2, 2]),))
    add('histogram', (lambda a: bnp.histogram(a, bins=[0, 1, 2, 3])), lambda: (np.array([0.5, 1.5, 2.5, 2.5]),))
    add('mean', (lambda a: bnp.mean(a)), lambda: (np.array([1.0, 2.0, 4.0]),), lambda: (RaggedArray(np.array([1, 2, 3, 4]), [1, 3]),))
    add('mean(axis=0)', (lambda a: bnp.mean(a, axis=0)), lambda: (np.array([[1.0, 2.0], [3.0, 5.0]]),))
    add('quantile', (lambda a: bnp.quantile(a, [0.5])), lambda: (np.array([3, 1, 2, 5]),))
    add('count_encoded', bnp.count_encoded, lambda: (E('ACGTA', bnp.DNAEncoding),), lambda: (E(['ACGTA', 'CC', ''], bnp.DNAEncoding),))
    add('count_encoded(weights)', (lambda v, w: bnp.count_encoded(v, weights=w)),
        lambda: (E('ACGTA', bnp.DNAEncoding), np.array([1, 2, 3, 4, 5])))
    add('groupby', (lambda t: [(str(k), v) for k, v in bnp.groupby(t, 'chromosome')]), lambda: (I(grows),))
    add('get_motif_scores', (lambda s, m: bnp.get_motif_scores(s, PWM(m, 'ACGT'))),
        lambda: (E(['ACGT', 'AC', 'GGTCA'], bnp.DNAEncoding), np.array([[0.5, 1.0], [0.25, -1.0], [0.0, 2.0], [1.5, 0.75]])))
    add('ragged_slice', bnp.ragged_slice, lambda: (E(['ACGT', 'ACG']), np.array([1, 0]), np.array([3, 2])))
    add('jaccard', ar.jaccard, lambda: ({'c': 6}, I(ivA), I(ivB)))
    add('forbes', ar.forbes, lambda: ({'c': 6}, I(ivA), I(ivB)))
    add('global_intersect', ar.global_intersect, lambda: (I(ivA), I(ivB)), lambda: (I(ivC), I(ivA)))
    add('get_sequences', sq.get_sequences, lambda: (E('ACGTACGT', bnp.DNAEncoding), Interval(['c', 'c'], [0, 2], [3, 8])))
    add('GenomicIntervals.get_mask', (lambda gi: gi.get_mask()), lambda: (G().get_intervals(I(grows)),))
    add('GenomicIntervals.get_pileup', (lambda gi: gi.get_pileup()), lambda: (G().get_intervals(I(grows)),))
    add('GenomicIntervals.clip', (lambda gi: gi.clip()), lambda: (G().get_intervals(I([('chr1', 1, 9), ('chr2', 0, 2)])),))
    add('GenomicIntervals.get_location', (lambda gi: gi.get_location('start')), lambda: (G().get_intervals(I(grows)),))
    add('GenomicIntervals.from_track', (lambda a: bnp.GenomicIntervals.from_track(a)), lambda: (G().get_intervals(I(grows)).get_mask(),))
    add('Geometry.get_pileup', (lambda g, t: g.get_pileup(t)), lambda: (Geo(), I(grows)))
    add('Geometry.get_mask', (lambda g, t: g.get_mask(t)), lambda: (Geo(), I(grows)))
    add('Geometry.merge_intervals', (lambda g, t: g.merge_intervals(t, 1)), lambda: (Geo(), I(grows)))
    add('Geometry.sort', (lambda g, t: g.sort(t)), lambda: (Geo(), I(grows[::-1])))
    add('Geometry.clip', (lambda g, t: g.clip(t)), lambda: (Geo(), I([('chr1', -1, 9), ('chr2', 0, 2)])))
    add('Geometry.jaccard', (lambda g, a, b: g.jaccard(a, b)), lambda: (Geo(), I(grows), I(grows[:1])))
    add('Genome.get_intervals', (lambda g, t: g.get_intervals(t)), lambda: (G(), I(grows)))
    add('Genome.get_locations', (lambda g, t: g.get_locations(t)), lambda: (G(), bnp.datatypes.LocationEntry(['chr1', 'chr2'], [1, 3])))
    add('variants.apply_variants_to_sequence', va.apply_variants_to_sequence,
        lambda: (E('ACGTACGT', bnp.DNAEncoding), VCFEntry(['c', 'c'], [1, 4], ['.', '.'], ['C', 'A'], ['T', 'G'], ['.', '.'], ['.', '.'], ['.', '.'])))
    return reg


def run_registry(res, deadline, only=None, reg=None):
    for name, fn, builders in (registry() if reg is None else reg):
        if only is not None and name != only[0]:
            continue
        for bi, b in enumerate(builders):
            if only is not None and bi != only[1]:
                continue
            if deadline.expired():
                res.capped = True
                return
            case = {'part': 'registry', 'func': name, 'args_index': bi, 'section': getattr(run_registry, '_section', None)}
            feats = {'part': 'registry', 'func': name}
            args = b()
            before = snap(args)
            res.evaluations += 1
            res.states += 1
            res.planned += 1
            res.traces += 1
            res.nontrivial += 1
            try:
                o1 = fn(*args)
                r1 = result_value(o1)
                res.transitions += 1
            except observe.ObserverError:
                raise
            except Exception as e:
                after = snap(args)
                if after != before:
                    res.fail('arguments-modified-by-raising-call', case, feats, expected=_s(before), observed=_s(after), tb=tb_string(e))
                res.raising += 1
                res.outcome('raises:' + name)
                continue
            after = snap(args)
            if after != before:
                res.fail('arguments-modified', case, feats, expected=_s(before), observed=_s(after))
                res.outcome('MODIFIED')
                continue
            try:
                r2 = result_value(fn(*args))
                res.transitions += 1
            except Exception as e:
                res.fail('second-call-raises', case, feats, expected='same result', observed=repr(e)[:300], tb=tb_string(e))
                continue
            if snap(args) != before:
                res.fail('arguments-modified', case, dict(feats, on='second-call'), expected=_s(before), observed=_s(snap(args)))
                continue
            if r1 != r2:
                res.fail('second-call-differs', case, feats, expected=_s(r1), observed=_s(r2))
                res.outcome('DIFFERS')
                continue
            # deferred observation: a result that is still alive must be unchanged after later calls on other arguments
            # (a result aliasing a scratch buffer shared between calls changes only then).  The kept object is fresh
            # and not observed before the later calls (observing may detach it from shared memory).
            import types
            if not isinstance(o1, types.GeneratorType):
                try:
                    kept = fn(*b())
                    nb = len(builders)
                    others = [builders[j % nb] for j in sorted({bi + 1, bi + 2, bi + nb // 2, 0})] if nb > 4 else list(builders)
                    for other in others:
                        fn(*other())
                    res.transitions += 1 + len(others)
                    later = result_value(kept)
                except observe.ObserverError:
                    raise
                except Exception:
                    later = r1
                if later != r1:
                    res.fail('earlier-result-changed-by-later-call', case, feats, expected=_s(r1), observed=_s(later))
                    res.outcome('ALIASED')
                    continue
            # explicit assignment into a RESULT is the caller's right (the statement exempts it); it must not change what
            # the same call on fresh, equal arguments returns afterwards (a result handed out from a cache, a literal
            # table or a scratch buffer would)
            if not isinstance(o1, types.GeneratorType) and scribble(o1):
                try:
                    r3 = result_value(fn(*b()))
                    res.transitions += 1
                except observe.ObserverError:
                    raise
                except Exception as e:
                    res.fail('call-after-editing-an-earlier-result-raises', case, feats, expected=_s(r1), observed=repr(e)[:300], tb=tb_string(e))
                    continue
                res.extra['results edited in place before a further call'] += 1
                if r3 != r1:
                    res.fail('result-depends-on-edit-of-an-earlier-result', case, feats, expected=_s(r1), observed=_s(r3))
                    res.outcome('CACHED-RESULT-SHARED')
                    continue
            res.outcome('pure')
    res.sample({'registry_functions': [n for n, _, _ in registry()][:12]})


def scribble(x, depth=0):
    """Overwrite, in place, every writable numeric buffer reachable from a result -> number of buffers edited."""
    from bionumpy.encoded_array import EncodedArray, EncodedRaggedArray
    from bionumpy.bnpdataclass import BNPDataClass
    from npstructures import RaggedArray
    if depth > 4:
        return 0
    try:
        if isinstance(x, EncodedRaggedArray):
            buf = np.asarray(x.ravel().raw())
        elif isinstance(x, EncodedArray):
            buf = np.asarray(x.raw())
        elif isinstance(x, RaggedArray):
            buf = np.asarray(x.ravel())
        elif isinstance(x, np.ndarray):
            buf = x
        elif isinstance(x, BNPDataClass):
            if hasattr(x, '_itemgetter'):
                return 0
            return sum(scribble(getattr(x, f.name), depth + 1) for f in dataclasses.fields(x))
        elif isinstance(x, (list, tuple)):
            return sum(scribble(v, depth + 1) for v in x)
        elif isinstance(x, dict):
            return sum(scribble(v, depth + 1) for v in x.values())
        else:
            return 0
    except Exception:
        return 0
    if not (isinstance(buf, np.ndarray) and buf.size and buf.flags.writeable and buf.dtype.kind in 'iufb'):
        return 0
    if buf.dtype.kind == 'b':
        buf[...] = ~buf
    elif buf.dtype.kind == 'f':
        buf[...] = buf * 2 + 1
    else:
        buf[...] = buf + 1
    return 1


def _s(v):
    return repr(v)[:600]


def bulk_registry(section):
    """Systematic argument menus (small exhaustive spaces, as in the other properties) for the functions whose special
    paths depend on the VALUES: sign patterns, widths, nesting / touching intervals, empty rows."""
    import itertools
    import bionumpy as bnp
    from bionumpy.io import strops
    from bionumpy.arithmetics import intervals as iv
    from bionumpy.datatypes import Interval, StrandedInterval
    from bionumpy.sequence import get_reverse_complement, get_kmers, match_string, count_kmers
    E = bnp.as_encoded_array
    reg = []
    if section == 'numbers':
        spell = ['0', '7', '-3', '+5', '007', '-0', '+0', '12345', '-12345', '999999999999999', '+10', '1']
        reg.append(('strops.str_to_int', strops.str_to_int,
                    [lambda t=t: (E(list(t)),) for n in (1, 2) for t in itertools.product(spell, repeat=n)]))
        ints = [0, 1, -1, 9, 10, -10, 99, 10 ** 15 - 1, -(10 ** 15), 2 ** 63 - 1, -2 ** 63]
        reg.append(('strops.ints_to_strings', strops.ints_to_strings,
                    [lambda t=t: (np.array(t, dtype=np.int64),) for n in (1, 2) for t in itertools.product(ints, repeat=n)]))
        ftexts = ['0.5', '-2.25', '10', '1e3', '2.5e-3', '-1e-10', '.5', '5.', '-0.0', '0']
        reg.append(('strops.str_to_float', strops.str_to_float,
                    [lambda t=t: (E(list(t)),) for n in (1, 2) for t in itertools.product(ftexts, repeat=n)]))
        opt = ['.', '5', '-3', '+7', '']
        reg.append(('strops.str_to_int_with_missing', strops.str_to_int_with_missing,
                    [lambda t=t: (E(list(t)),) for t in itertools.product(opt[:4], repeat=2)]))
        texts = ['', 'a', 'a,b', ',a', 'a,', ',,', 'ab,c,,d']
        reg.append(('strops.split', strops.split, [lambda t=t: (E(t), ',') for t in texts if t]))
        reg.append(('strops.join', strops.join, [lambda t=t: (E(list(t)), ',') for t in itertools.product(['', 'a', 'bc'], repeat=2)]))
    elif section == 'intervals':
        S = 3
        ivs = [(a, b) for a in range(S) for b in range(a + 1, S + 1)]
        sets = [()] + [(x,) for x in ivs] + [t for t in itertools.combinations_with_replacement(ivs, 2)]

        def I(t):
            t = sorted(t)
            return Interval(['c'] * len(t), [a for a, _ in t], [b for _, b in t]) if t else Interval.empty()
        reg.append(('get_pileup', iv.get_pileup, [lambda t=t: (I(t), S) for t in sets]))
        reg.append(('get_boolean_mask', iv.get_boolean_mask, [lambda t=t: (I(t), S) for t in sets]))
        reg.append(('merge_intervals', iv.merge_intervals, [lambda t=t, d=d: (I(t), d) for t in sets if t for d in (0, 1, 2)]))
        reg.append(('sort_intervals', iv.sort_intervals, [lambda t=t: (I(t[::-1]),) for t in sets if t]))
        reg.append(('clip', iv.clip, [lambda t=t: (Interval(['c'] * len(t), [a - 1 for a, _ in t], [b + 1 for _, b in t]), np.full(len(t), S))
                                      for t in sets if t]))
        reg.append(('extend_to_size', iv.extend_to_size,
                    [lambda t=t, s=s, L=L: (StrandedInterval(['c'] * len(t), [a for a, _ in t], [b for _, b in t], list(s)), L,
                                            np.full(len(t), S))
                     for t in sets if t for s in itertools.product('+-', repeat=len(t)) for L in (1, 2, 4)]))
        small = [t for t in sets if len(t) <= 1]
        reg.append(('count_overlap', iv.count_overlap, [lambda a=a, b=b: (I(a), I(b)) for a in small if a for b in small if b]))
        reg.append(('intersect', iv.intersect, [lambda a=a, b=b: (I(a), I(b)) for a in small if a for b in small if b]))

        def U(t):   # given order reversed (unsorted, nested sets start with the inner interval); () -> the empty table
            t = sorted(t)[::-1]
            return Interval(['c'] * len(t), [a for a, _ in t], [b for _, b in t]) if t else Interval.empty()
        pairs = [(a, b) for a in sets for b in sets if len(a) + len(b) <= 3 and (not a or not b or len(a) + len(b) == 2)]
        reg.append(('count_overlap (any operand, also empty / unsorted)', iv.count_overlap,
                    [lambda a=a, b=b: (U(a), U(b)) for a, b in pairs]))
        reg.append(('unique_intersect (any operand, also empty / unsorted)', iv.unique_intersect,
                    [lambda a=a, b=b: (U(a), U(b), S) for a, b in pairs]))
    elif section == 'sequences':
        strings = [''.join(t) for n in range(0, 3) for t in itertools.product('ACGT', repeat=n)]
        rows = [(a,) for a in strings] + [(a, b) for a in strings[:9] for b in strings[:9]]
        for enc_name, enc in (('DNA', bnp.DNAEncoding), ('ASCII', None)):
            mk = (lambda r, enc=enc: E(list(r), enc) if enc is not None else E(list(r)))
            reg.append(('get_reverse_complement[%s]' % enc_name, get_reverse_complement, [lambda r=r, mk=mk: (mk(r),) for r in rows]))
            reg.append(('match_string[%s]' % enc_name, match_string,
                        [lambda r=r, mk=mk, p=p: (mk(r), p) for r in rows if sum(map(len, r)) >= 2 for p in ('A', 'AC')]))
        reg.append(('get_kmers', get_kmers, [lambda r=r, k=k: (E(list(r), bnp.DNAEncoding), k) for r in rows for k in (1, 2)
                                             if sum(map(len, r)) >= k]))
        reg.append(('count_kmers', count_kmers, [lambda r=r, k=k: (E(list(r), bnp.DNAEncoding), k) for r in rows for k in (1, 2)
                                                 if sum(map(len, r)) >= k]))
    return reg


# ---------------------------------------------------------------- part B: lazy chunk invariant
CHUNK_FORMATS = ['bed6', 'bed12', 'narrowpeak', 'bedgraph', 'vcf_header', 'sam', 'fastq', 'fasta2', 'gff3', 'pairs', 'chromsizes',
                 'vcf_genotypes', 'vcf_typed', 'bam']
VIEWS_BY_FORMAT = {'bam': ['whole', 'reversed', 'tail', 'fancy']}
VIEWS = ['whole', 'reversed', 'tail', 'first_chunk']


_BAM = {}


def bam_root():
    """a small BAM written by the independent spec-level encoder (models/bam_spec.py), in a scratch file"""
    if not _BAM:
        import atexit
        import os
        import shutil
        import tempfile
        from models import bam_spec as S
        recs = [S.make_record(0, 5, 60, 0, 'r1', [('M', 3)], 'ACG', [30, 31, 32]),
                S.make_record(1, 7, 0, 16, 'read_two', [('S', 1), ('M', 2), ('I', 1)], 'TTAG', [1, 2, 3, 4], tags=S.tag_int('NM', 1)),
                S.make_record(0, 9, 255, 99, 'q', [('M', 5)], 'ACGTN', [40, 40, 40, 40, 40]),
                S.make_record(1, 1, 3, 0, 'r4', [('M', 1)], 'A', [10])]
        stream, _, _ = S.encode_bam([('chr1', 100), ('chr2', 50)], recs)
        d = tempfile.mkdtemp(dir='/dev/shm', prefix='c20bam_')
        atexit.register(shutil.rmtree, d, True)
        path = os.path.join(d, 'x.bam')
        with open(path, 'wb') as f:
            f.write(S.bgzf_compress(stream))
        _BAM['path'] = path
    return _BAM['path']


def chunk_root(fmt):
    """-> (data bytes, buffer type, field names)"""
    if fmt == 'bam':
        from bionumpy.io.bam import BamBuffer
        return bam_root(), BamBuffer, ['chromosome', 'name', 'flag', 'position', 'mapq', 'cigar_op', 'cigar_length', 'sequence', 'quality']
    if fmt in ('vcf_genotypes', 'vcf_typed'):
        from . import c02_vcf
        from bionumpy.io import vcf_buffers
        data = c02_vcf.header_text('A', 'c20') + c02_vcf.body((0, 1, 2), phased=False, gt_suffix=':7')
        B = vcf_buffers.VCFMatrixBuffer if fmt == 'vcf_genotypes' else vcf_buffers.VCFBuffer
        names = c02_vcf.FIXED + ['info'] + (['genotypes'] if fmt == 'vcf_genotypes' else [])
        return data, B, names
    f = FORMATS[fmt]
    recs = [f.record(v, i) for i, v in enumerate((0, 1, 2))]
    if fmt in ('narrowpeak', 'bedgraph'):
        recs = [f.record_from_texts([t if k != 'float' else alt for (n, k, _), t, alt in
                                     zip(f.cols, f.texts(v, i), itertools.cycle(['-1.5e-3', '.5', '-7', '1e3']))])
                for i, v in enumerate((0, 1, 2))]
    return f.render(recs, LF, True), f.buffer_type(), list(f.fields)


def read_view(data, B, view):
    if isinstance(data, str):           # a path (BAM)
        import bionumpy as bnp
        t = bnp.open(data).read()
        if view == 'reversed':
            return t[::-1]
        if view == 'tail':
            return t[1:]
        if view == 'fancy':
            return t[np.array([3, 1, 2])]
        return t
    r = make_reader(data, B, True)
    if view == 'first_chunk':
        return r.read_chunk(max(1, (2 * len(data)) // 3))
    t = r.read()
    if view == 'reversed':
        return t[::-1]
    if view == 'tail':
        return t[1:]
    return t


def raw_bytes(t):
    buf = getattr(getattr(t, '_itemgetter', None), 'buffer', None)
    d = getattr(buf, 'data', None)
    if d is None:
        d = getattr(buf, '_data', None)
    if d is None:
        return None
    try:
        return np.asarray(d.raw() if hasattr(d, 'raw') else d).tobytes()
    except Exception:
        return None


def written(t, B):
    from bionumpy.io.parser import NpBufferedWriter
    if B.__name__.startswith('Bam'):
        b = io.BytesIO()
        b.name = 'x.bam'
        NpBufferedWriter(b, B).write(t)
        return b.getvalue()
    b = io.BytesIO()
    NpBufferedWriter(b, B).write(t)
    return b.getvalue()


def rows_of(t, names):
    """value of every field (nested INFO tables: their fields that can be read)"""
    out = []
    for n in names:
        v = getattr(t, n)
        if dataclasses.is_dataclass(v):
            sub = []
            for f in dataclasses.fields(v):
                try:
                    sub.append((f.name, snap(getattr(v, f.name))))
                except Exception:
                    sub.append((f.name, 'unreadable'))
            out.append((n, tuple(sub)))
        else:
            out.append((n, snap(v)))
    return out


def touch(t, name):
    v = getattr(t, name)
    if dataclasses.is_dataclass(v):
        for f in dataclasses.fields(v):
            try:
                getattr(v, f.name)
            except Exception:
                pass       # absent INFO keys may raise; what matters here is that nothing is modified
    return v


def run_chunk_invariant(res, fmt, view, max_fields, deadline, only_hist=None):
    data, B, names = chunk_root(fmt)
    fields = names[-max_fields:] if max_fields and len(names) > max_fields else names
    t0 = read_view(data, B, view)
    orig_raw, orig_written = raw_bytes(t0), written(t0, B)
    try:
        orig_rows = rows_of(read_view(data, B, view), names)
    except observe.ObserverError:
        raise
    except Exception:
        orig_rows = None          # some field of this root cannot be read at all: judged elsewhere (C02/C05)
    # a sub-chunk taken with a basic slice BEFORE the accesses shares the parent's offset tables: its field values, read
    # after the accesses on the parent, must be what a fresh sub-chunk gives
    try:
        orig_sib_rows = rows_of(read_view(data, B, view)[0:2], names) if orig_rows is not None else None
    except observe.ObserverError:
        raise
    except Exception:
        orig_sib_rows = None
    seen = set()
    frontier = [()]
    feats = {'part': 'chunk', 'format': fmt, 'view': view}
    while frontier:
        nxt = []
        for hist in frontier:
            key = frozenset(hist)
            if key in seen and only_hist is None:
                continue
            seen.add(key)
            if deadline.expired():
                res.capped = True
                return
            for f in fields:
                if f in key:
                    continue
                h2 = hist + (f,)
                if only_hist is not None and list(h2) != list(only_hist)[:len(h2)]:
                    continue
                # replay on a fresh chunk
                t = read_view(data, B, view)
                sib = t[0:2] if orig_sib_rows is not None else None
                case = {'part': 'chunk', 'format': fmt, 'view': view, 'hist': list(h2)}
                res.evaluations += 1
                res.transitions += len(h2)
                res.traces += 1
                res.planned += 1
                res.nontrivial += 1
                try:
                    for name in h2:
                        touch(t, name)
                except observe.ObserverError:
                    raise
                except Exception as e:
                    res.raising += 1
                    res.outcome('access-raises')
                    res.extra['field_access_raises:%s:%s' % (fmt, h2[-1])] += 1
                    continue
                try:
                    w = written(t, B)
                except Exception as e:
                    res.fail('write-raises-after-field-access', case, dict(feats, last_field=h2[-1], exc=exc_name(e)),
                             expected='original bytes', observed=repr(e)[:300], tb=tb_string(e))
                    continue
                r = raw_bytes(t)
                # writing compacts the lazy buffer in place: every field read AFTER the write must still have its value
                rows_after = None
                if orig_rows is not None:
                    try:
                        rows_after = rows_of(t, names)
                    except observe.ObserverError:
                        raise
                    except Exception as e:
                        res.fail('field-access-raises-after-write', case, dict(feats, last_field=h2[-1], exc=exc_name(e)),
                                 expected='field values as before the write', observed=repr(e)[:300], tb=tb_string(e))
                        res.outcome('AFTER-WRITE-RAISES')
                        nxt.append(h2)
                        continue
                sib_rows = None
                if sib is not None:
                    try:
                        sib_rows = rows_of(sib, names)
                        res.transitions += 1
                    except observe.ObserverError:
                        raise
                    except Exception as e:
                        res.fail('sub-chunk-unreadable-after-access-on-parent', case, dict(feats, last_field=h2[-1], exc=exc_name(e)),
                                 expected='field values of a fresh sub-chunk', observed=repr(e)[:300], tb=tb_string(e))
                        res.outcome('SUB-CHUNK-RAISES')
                        nxt.append(h2)
                        continue
                if sib_rows is not None and sib_rows != orig_sib_rows:
                    res.fail('sub-chunk-values-changed-by-access-on-parent', case, dict(feats, last_field=h2[-1]),
                             expected=_s(orig_sib_rows), observed=_s(sib_rows))
                    res.outcome('SUB-CHUNK-CHANGED')
                elif rows_after is not None and rows_after != orig_rows:
                    res.fail('field-values-changed-by-write', case, dict(feats, last_field=h2[-1]),
                             expected=_s(orig_rows), observed=_s(rows_after))
                    res.outcome('VALUES-CHANGED')
                elif w != orig_written:
                    res.fail('written-bytes-changed-by-field-access', case, dict(feats, last_field=h2[-1]),
                             expected=orig_written.decode('latin1')[:500], observed=w.decode('latin1')[:500])
                    res.outcome('CHANGED')
                elif orig_raw is not None and r is not None and r != orig_raw:
                    res.fail('raw-buffer-changed-by-field-access', case, dict(feats, last_field=h2[-1]),
                             expected=orig_raw.decode('latin1')[:500], observed=r.decode('latin1')[:500])
                    res.outcome('RAW-CHANGED')
                else:
                    res.outcome('unchanged')
                nxt.append(h2)
        # dedupe next frontier by set
        uniq = {}
        for h in nxt:
            uniq.setdefault(frozenset(h), h)
        frontier = [h for k, h in uniq.items() if k not in seen]
        res.states = max(res.states, 0) + len(frontier)
    res.sample({'format': fmt, 'view': view, 'fields': fields, 'file': (data if isinstance(data, str) else data.decode('latin1'))[:300]})


def bounds(tier, seed):
    return {'max_fields': 6 if tier == 'quick' else None, 'chunk_formats': CHUNK_FORMATS, 'views': VIEWS}


def shards(tier, seed):
    out = [{'part': 'registry'}] + [{'part': 'bulk', 'section': sec} for sec in ('numbers', 'intervals', 'sequences')]
    for fmt in CHUNK_FORMATS:
        for view in VIEWS_BY_FORMAT.get(fmt, VIEWS):
            out.append({'part': 'chunk', 'format': fmt, 'view': view, 'max_fields': 6 if tier == 'quick' else None})
    return out


def run_shard(desc, deadline):
    res = Result()
    try:
        if desc['part'] == 'registry':
            run_registry(res, deadline)
        elif desc['part'] == 'bulk':
            run_registry._section = desc['section']
            run_registry(res, deadline, reg=bulk_registry(desc['section']))
            run_registry._section = None
        else:
            run_chunk_invariant(res, desc['format'], desc['view'], desc['max_fields'], deadline)
    finally:
        _drop_bam_scratch()
    return res


def _drop_bam_scratch():
    # pool workers leave through os._exit (no atexit handlers): remove the scratch BAM of this process here
    if _BAM.get('path'):
        import os
        import shutil
        shutil.rmtree(os.path.dirname(_BAM['path']), ignore_errors=True)
        _BAM.clear()


def replay_case(case):
    from engine.result import Deadline
    import time
    res = Result()
    d = Deadline(time.time() + 600)
    if case['part'] == 'registry':
        run_registry(res, d, only=(case['func'], case['args_index']),
                     reg=bulk_registry(case['section']) if case.get('section') else None)
    else:
        run_chunk_invariant(res, case['format'], case['view'], None, d, only_hist=case['hist'])
    out = []
    for g in res.fail_groups.values():
        for e in g['exemplars']:
            if case['part'] == 'registry' or e['case'].get('hist') == case.get('hist'):
                out.append({'kind': g['kind'], 'features': g['features'], 'observed': e['observed'], 'expected': e['expected'],
                            'traceback': e['traceback']})
                break
    return out
