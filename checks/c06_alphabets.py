"""C06 — alphabet encodings accept exactly their alphabet and never change the text.

Shape A (product-space enumeration), four parts, all against models/alphabets.py:

  bytes     every byte 0..255 x every predefined alphabet encoding, alone and next to a valid symbol,
            through every input form (str, list, uint8 array, ASCII EncodedArray / EncodedRaggedArray, ...):
            accepted <=> byte is a symbol or the lower-case form of a *letter* symbol; accepted text decodes to
            its upper-cased self.  Also the whole alphabet as one text (upper, lower, reversed).
  strings   every text of <= L characters over a <= 6-symbol sub-alphabet (first/last symbol, non-letter symbols,
            lower-case spellings) in every layout of 1..3 rows (ragged shape must be carried), and every such
            text with ONE foreign character (one per foreign class) at EVERY position: must raise.
  retarget  every ordered pair (source alphabet, target alphabet or ASCII) x every text of <= L characters over the
            FULL source alphabet x layouts (flat, 0-d scalar, ragged splits) through as_encoded_array(x, target),
            change_encoding(x, target) and target.encode(x): the result decodes to the same text, row for row, or the call raises.
  numeric   Quality / Digit / Cigar offset encodings over all 256 bytes: decode(encode(t)) == t or raises.

A *case* is (alphabet, rows) / (source, target, text, layouts) / (numeric encoding, rows); every input form /
layout / API applicable to the case is executed inside the case (they are the case's transitions).
"""
import itertools

import numpy as np

from engine import observe
from engine.result import Result, tb_string
from models import alphabets as A

PROPERTY = 'C06'
LEVEL = 'model_checking'
TECHNIQUE = ('bounded exhaustive enumeration of bytes, texts, row layouts and alphabet pairs through every input '
             'form of the real encoders against a reference model of "alphabet membership + upper-casing"')
RULE = ('cases are enumerated in canonical order (shorter texts first, symbols in alphabet order); never sampled. '
        'A case is non-trivial when: (encode) the text has >= 1 character; (retarget) the text is non-empty and its '
        'codes cannot simply be re-used under the target, i.e. some letter has a different code in, or is absent '
        'from, the target alphabet; (numeric) the text is non-empty')
ASSUMPTIONS = [
    'the ten predefined alphabets are those written down in models/alphabets.py from their definitions (IUPAC, '
    'SAMv1 4.2 for BAM 4-bit and CIGAR ops, BED strand, decimal digits); user-defined alphabets are not explored',
    'texts longer than the bound and layouts with more than 3 rows are not explored; the elementwise lookup makes '
    'longer texts repeat the explored per-character behaviour',
    'multi-character texts use a <= 6-symbol sub-alphabet per alphabet (every symbol is still covered alone, next '
    'to a valid symbol, and in the whole-alphabet texts); re-targeting uses the full source alphabet',
    'any exception counts as "raises" (the exception class is not judged); raw code values are not judged, only '
    'what the result decodes to',
    'FlatAlphabetEncoding (strand) flattens 2-d uint8 input by design: for that form only the concatenated text '
    'is judged',
    'k-mer and string (hash) encodings are not alphabet encodings and are outside the statement',
]
EXPLANATION = ('every byte, every short text in every row layout and every alphabet pair is pushed through every '
               'input form of the real encoders and compared with "member of the alphabet / upper-cased text"')
MANIFEST_TEXT = (
    'Exhaustive: all 256 bytes x 10 predefined alphabet encodings (alone, before and after a valid symbol, in a second row) '
    'through 9 input forms; every text of <= 3 (quick) / 4 (thorough) characters over a 6-symbol sub-alphabet (incl. lower case '
    'and non-letter symbols) in every layout of 1..3 rows, and the same with one foreign character of each class at '
    'every position (must raise); on every accepted text a second round: the first results are edited in place, then every '
    'input form encodes the same text again (a result handed out twice would decode to the edited letters); every ordered pair of alphabets (+ASCII target) x every text of <= 3 / 4 characters '
    '(3 for the 21- and 16-symbol alphabets) over the full source alphabet x flat / scalar / ragged layouts through '
    'as_encoded_array, change_encoding and target.encode (same text or raises, never other letters); the three numeric offset encodings over all 256 bytes; a size ladder (texts of N = 2^k-1/2^k/2^k+1 and 10^k+-1 '
    'symbols up to 2^16 (thorough 2^19) per alphabet as one string, byte array and N/3 rows: decodes to itself, refused with one foreign character first / middle / last).')
MANIFEST_NOTE = ('Trusted: NumPy, CPython, engine/observe.py, the alphabets as written in models/alphabets.py. '
                 'Exception classes and raw code values are not judged.')

NAMES = list(A.ALPHABETS)
TARGETS = NAMES + ['ascii']
MAX_ROWS = 3


# ---------------------------------------------------------------- library access
_LIB = {}


def lib():
    if not _LIB:
        import bionumpy as bnp
        from bionumpy.encodings import alphabet_encoding as ae
        from bionumpy import encodings as encs
        from bionumpy.encoded_array import EncodedArray, EncodedRaggedArray, BaseEncoding
        from npstructures import RaggedArray
        _LIB.update(bnp=bnp, ae=ae, encs=encs, EncodedArray=EncodedArray, EncodedRaggedArray=EncodedRaggedArray,
                    BaseEncoding=BaseEncoding, RaggedArray=RaggedArray)
    return _LIB


def encoding(name):
    L = lib()
    if name == 'ascii':
        return L['BaseEncoding']
    if name in A.NUMERIC:
        return getattr(L['encs'], A.NUMERIC_LIB_ATTR[name])
    return getattr(L['ae'], A.LIB_ATTR[name])


def exc_name(e):
    return type(e).__name__


def u8(text):
    return np.array([ord(c) for c in text], dtype=np.uint8)


def ascii_flat(text):
    L = lib()
    return L['EncodedArray'](u8(text), L['BaseEncoding'])


def ascii_ragged(rows):
    L = lib()
    return L['EncodedRaggedArray'](L['EncodedArray'](u8(''.join(rows)), L['BaseEncoding']), [len(r) for r in rows])


# ---------------------------------------------------------------- input forms (the case's transitions)
def _f_as_str(enc, rows): return lib()['bnp'].as_encoded_array(rows[0], enc)
def _f_enc_str(enc, rows): return enc.encode(rows[0])
def _f_enc_u8(enc, rows): return enc.encode(u8(rows[0]))
def _f_as_ascii_flat(enc, rows): return lib()['bnp'].as_encoded_array(ascii_flat(rows[0]), enc)
def _f_as_list(enc, rows): return lib()['bnp'].as_encoded_array(list(rows), enc)
def _f_enc_list(enc, rows): return enc.encode(list(rows))
def _f_as_ascii_ragged(enc, rows): return lib()['bnp'].as_encoded_array(ascii_ragged(rows), enc)


def _f_as_object_array(enc, rows):
    arr = np.empty(len(rows), dtype=object)
    for i, r in enumerate(rows):
        arr[i] = r
    return lib()['bnp'].as_encoded_array(arr, enc)


def _f_enc_matrix(enc, rows):
    return enc.encode(np.array([[ord(c) for c in r] for r in rows], dtype=np.uint8))


FORMS = [
    # name, needs single row, function
    ('as_encoded_array(str)', 'single', _f_as_str),
    ('encode(str)', 'single', _f_enc_str),
    ('encode(uint8[])', 'single', _f_enc_u8),
    ('as_encoded_array(ascii EncodedArray)', 'single', _f_as_ascii_flat),
    ('as_encoded_array(list)', 'any', _f_as_list),
    ('encode(list)', 'any', _f_enc_list),
    ('as_encoded_array(ascii EncodedRaggedArray)', 'any', _f_as_ascii_ragged),
    ('as_encoded_array(object ndarray)', 'any', _f_as_object_array),
    ('encode(uint8[][])', 'matrix', _f_enc_matrix),
]
FORM_FUNCS = {n: f for n, _, f in FORMS}
FLAT_FORMS = {n for n, k, _ in FORMS if k == 'single'}


def applicable_forms(rows):
    out = []
    for n, k, _ in FORMS:
        if k == 'single' and len(rows) != 1:
            continue
        if k == 'matrix' and not (len(rows) >= 2 and len(rows[0]) >= 1 and len({len(r) for r in rows}) == 1):
            continue
        out.append(n)
    return out


# ---------------------------------------------------------------- observation
def observe_rows(out):
    """library value -> ('rows', [str, ...]) | ('undecodable', exception name) | ('not-encoded', type name).
    Decoding goes through engine.observe (ravel / raw / lengths + encoding.decode).  An exception raised by the
    library's own decode of its own result is an observation, not an observer error."""
    L = lib()
    if not isinstance(out, (L['EncodedArray'], L['EncodedRaggedArray'])):
        return ('not-encoded', type(out).__name__)
    if isinstance(out, L['EncodedRaggedArray']):
        # a ragged result whose row lengths do not add up to its data is the library's inconsistency, not the
        # observer's: report it as an observation instead of letting observe.column refuse it
        n_flat, n_rows = int(np.asarray(out.ravel().raw()).size), int(np.asarray(out._shape.lengths).sum())
        if n_flat != n_rows:
            return ('inconsistent-ragged', 'data %d, sum(lengths) %d' % (n_flat, n_rows))
    try:
        col = observe.column(out)
    except observe.ObserverError:
        raise
    except Exception as e:
        return ('undecodable', exc_name(e))
    if isinstance(out, L['EncodedRaggedArray']):
        rows = col
    elif out.ndim == 0:
        rows = [col]
    elif out.ndim == 1:
        rows = [''.join(col)] if all(isinstance(c, str) for c in col) else col
    else:
        rows = col
    if not all(isinstance(r, str) for r in rows):
        return ('not-one-to-one', repr(rows)[:80])
    return ('rows', list(rows))


def explicit_decodes(enc, out):
    """The statement's observation points as explored operations: enc.decode(out), out.to_string() / out.tolist().
    -> list of (op name, observation) ; number of library calls"""
    L = lib()
    obs = []
    try:
        d = enc.decode(out)
    except Exception as e:
        obs.append(('enc.decode', ('raises', exc_name(e))))
    else:
        obs.append(('enc.decode', observe_rows(d)))
    if isinstance(out, L['EncodedRaggedArray']):
        try:
            t = out.tolist()
        except Exception as e:
            obs.append(('tolist', ('raises', exc_name(e))))
        else:
            obs.append(('tolist', ('rows', list(t)) if isinstance(t, list) else ('not-a-list', type(t).__name__)))
    elif isinstance(out, L['EncodedArray']) and out.ndim == 1:
        try:
            t = out.to_string()
        except Exception as e:
            obs.append(('to_string', ('raises', exc_name(e))))
        else:
            obs.append(('to_string', ('rows', [t]) if isinstance(t, str) else ('not-a-str', type(t).__name__)))
    return obs


def _group_forms(failing, executed, returned):
    """failing: {kind: {form: (expected, observed, tb)}} -> list of (kind, form label, expected, observed, tb):
    ONE failure per (case, kind).  The label says through which of the case's input forms (layouts) the clause
    is violated: 'all' when every one that the clause applies to is (for 'rejects-...' every executed form, for
    the clauses about a returned value every form that returned one), else their names joined with '+'."""
    out = []
    for kind in sorted(failing):
        d = failing[kind]
        base = executed if kind == 'rejects-text-over-alphabet' else returned
        bad = [f for f in executed if f in d]
        label = 'all' if len(bad) == len(base) else '+'.join(bad)
        out.append((kind, label, d[bad[0]][0], {f: d[f][1] for f in bad}, d[bad[0]][2]))
    return out


# ---------------------------------------------------------------- part: encode (bytes + strings)
def check_encode(res, case):
    name, rows = case['alphabet'], case['rows']
    enc = encoding(name)
    model = A.encode_model(name, rows)
    forms = applicable_forms(rows)
    n_chars = sum(len(r) for r in rows)
    res.evaluations += 1
    res.states += 1
    res.planned += 1
    failing = {}
    accepted = 0
    returned = []
    kept = []
    exc_names = set()
    for form in forms:
        res.transitions += 1
        try:
            out = FORM_FUNCS[form](enc, rows)
        except Exception as e:
            exc_names.add(exc_name(e))
            if model['ok']:
                failing.setdefault('rejects-text-over-alphabet', {})[form] = (
                    {'decodes_to': model['rows']}, 'raises ' + exc_name(e) + ': ' + str(e)[:160], tb_string(e))
            continue
        accepted += 1
        returned.append(form)
        if isinstance(out, (lib()['EncodedArray'], lib()['EncodedRaggedArray'])):
            kept.append(out)
        first = observe_rows(out)
        if not model['ok']:
            failing.setdefault('accepts-character-outside-alphabet', {})[form] = (
                {'raises': True, 'offending': model['offending']}, {'returned_decodes_to': first}, None)
            continue
        expected = [model['rows']]
        if form == 'encode(uint8[][])' and name in A.FLAT_ENCODINGS:
            expected.append([''.join(model['rows'])])
        observations = [('decode', first)]
        if first[0] == 'rows':
            more = explicit_decodes(enc, out)
            res.transitions += len(more)
            observations += more
        for op, ob in observations:
            if ob[0] != 'rows' or ob[1] not in expected:
                failing.setdefault('decoded-text-differs-from-uppercased-original', {})[form] = (
                    {'rows': model['rows']}, {'via': op, 'observed': ob}, None)
                break
        else:
            try:
                raw = np.asarray(out.ravel().raw()).ravel().tolist()
            except Exception:
                raw = None
            if raw is not None and raw != [c for r in model['codes'] for c in r]:
                res.extra['raw_codes_differ_from_alphabet_index(not judged)'] += 1
    if model['ok'] and n_chars >= 1 and kept:
        # History: the results of the first round are EDITED in place (explicit assignment, every code replaced by the
        # next code of the alphabet), then every form is called again on the same text.  A result handed out twice
        # (a literal cache, a shared scratch buffer) shows up as a second result that decodes to the edited letters.
        edited = 0
        size = max(len(A.ALPHABETS[name]), 2)
        for out in kept:
            try:
                buf = np.asarray(out.ravel().raw())
            except Exception:       # the library cannot flatten its own result: already reported through the observation
                continue
            if buf.flags.writeable and buf.size:
                buf[...] = (buf.astype(int) + 1) % size
                edited += 1
        res.extra['encode results edited in place before the second round'] += edited
        if edited:
            for form in returned:
                res.transitions += 1
                try:
                    again = observe_rows(FORM_FUNCS[form](enc, rows))
                except Exception as e:
                    again = ('raises', exc_name(e))
                expected = [model['rows']]
                if form == 'encode(uint8[][])' and name in A.FLAT_ENCODINGS:
                    expected.append([''.join(model['rows'])])
                if again[0] != 'rows' or again[1] not in expected:
                    failing.setdefault('encode-again-after-earlier-result-was-edited', {})[form] = (
                        {'rows': model['rows']}, {'second_call': again}, None)
    res.traces += 1
    if n_chars >= 1:
        res.nontrivial += 1
    label = A.class_label(model['classes'])
    impl = 'all-accept' if accepted == len(forms) else ('all-raise' if accepted == 0 else 'some-forms-raise')
    res.outcome('encode:%s:model-%s[%s]:impl-%s%s' % (
        'multi-row' if len(rows) > 1 else 'single-row', 'accept' if model['ok'] else 'reject', label, impl,
        (':' + '/'.join(sorted(exc_names))) if exc_names else ''))
    if not any(x.get('part') == 'encode' for x in res.samples):
        res.sample({'part': 'encode', 'alphabet': name, 'rows': rows, 'forms': forms, 'model':
                    'accept -> %r' % (model['rows'],) if model['ok'] else 'reject %r' % (model['offending'],)})
    for kind, form, exp, obs, tb in _group_forms(failing, forms, returned):
        if kind == 'accepts-character-outside-alphabet':
            cls = model['offending']['class']
        else:
            cls = label
        if kind in ('decoded-text-differs-from-uppercased-original', 'encode-again-after-earlier-result-was-edited'):
            # the clause is about upper-casing and about rows: those are the relevant facts of the case
            feats = {'form': form, 'rows': 'multi' if len(rows) > 1 else 'single',
                     'has_lower_case': 'lower_of_letter' in model['classes']}
        else:
            feats = {'char_class': cls, 'form': form}
        res.fail(kind, case, feats, expected=exp, observed=obs, tb=tb)
        res.extra['failing_cases[%s|%s]' % (kind, name)] += 1


# ---------------------------------------------------------------- part: retarget
def build_source(src_enc, text, layout):
    """-> (library object holding `text` under the source encoding, expected rows)"""
    bnp = lib()['bnp']
    if layout == 'flat':
        return bnp.as_encoded_array(text, src_enc), [text]
    if layout == 'scalar':
        return bnp.as_encoded_array(text, src_enc)[0], [text]
    if isinstance(layout, (list, tuple)) and layout and layout[0] == 'view':
        # a ragged array that is still a lazy, non-contiguous VIEW of another one (nothing has flattened it yet)
        how, lengths = layout[1], layout[2]
        rows = A.split_rows(text, lengths)
        if how == 'rowrev':
            return bnp.as_encoded_array(rows[::-1], src_enc)[::-1], rows
        if how == 'fancy':
            return bnp.as_encoded_array(rows[::-1], src_enc)[list(range(len(rows) - 1, -1, -1))], rows
        if how == 'colrev':
            return bnp.as_encoded_array([r[::-1] for r in rows], src_enc)[:, ::-1], rows
        if how == 'tail':
            return bnp.as_encoded_array([rows[-1]] + rows, src_enc)[1:], rows
        raise ValueError(layout)
    rows = A.split_rows(text, layout)
    return bnp.as_encoded_array(rows, src_enc), rows


def _api_as_encoded_array(x, tgt_enc): return lib()['bnp'].as_encoded_array(x, tgt_enc)
def _api_change_encoding(x, tgt_enc): return lib()['bnp'].change_encoding(x, tgt_enc)


def _api_target_encode(x, tgt_enc): return tgt_enc.encode(x)


APIS = [('as_encoded_array', _api_as_encoded_array), ('change_encoding', _api_change_encoding),
        ('target.encode', _api_target_encode)]


def _snapshot(x):
    """cheap identity of a source object's content (to notice an API call that modified its input)"""
    L = lib()
    if isinstance(x, L['EncodedRaggedArray']):
        return (id(x.encoding), np.asarray(x.ravel().raw()).tobytes(), np.asarray(x._shape.lengths).tobytes())
    return (id(x.encoding), np.asarray(x.raw()).tobytes())


def _snapshot_lazy(x):
    return None


def _sources(src, src_enc, text, layouts, res, cache):
    """Build (once per (source alphabet, text)) the source objects of every layout and verify that they hold
    the text.  -> list of [layout name, rows, object, snapshot]"""
    key = (src, text, repr(layouts))
    if cache is not None and cache.get('key') == key:
        return cache['sources']
    sources = []
    for layout in layouts:
        try:
            x, rows = build_source(src_enc, text, layout)
            ob = observe_rows(x)
        except observe.ObserverError:
            raise
        except Exception:
            ob = None
        if ob != ('rows', rows):
            # the source itself is not constructible as stated: judged by the encode part, not here
            res.extra['retarget_source_not_constructible(judged in encode part)'] += 1
            continue
        lname = layout if isinstance(layout, str) else ('view-%s%s' % (layout[1], list(layout[2])) if layout and layout[0] == 'view' else 'ragged' + str(list(layout)))
        sources.append([lname, rows, x, _snapshot(x), layout])
    if cache is not None:
        cache['key'] = key
        cache['sources'] = sources
    return sources


def check_retarget(res, case, cache=None):
    src, tgt, text, layouts = case['source'], case['target'], case['text'], case['layouts']
    src_enc, tgt_enc = encoding(src), encoding(tgt)
    facts = A.retarget_facts(src, tgt, text)
    res.evaluations += 1
    res.states += 1
    res.planned += 1
    sources = _sources(src, src_enc, text, layouts, res, cache)
    executed = [s[0] for s in sources]
    for api, fn in APIS:
        failing = {}
        returned = []
        summary = set()
        for entry in sources:
            lname, rows, x, snap, layout = entry
            res.transitions += 1
            if isinstance(layout, (list, tuple)) and layout and layout[0] == 'view':
                # observing a view flattens it in place: every call gets a fresh, still lazy view
                x, _ = build_source(src_enc, text, layout)
                snap = _snapshot_lazy(x)
            try:
                out = fn(x, tgt_enc)
            except Exception as e:
                res.raising += 1
                summary.add('raises:' + exc_name(e))
                out = None
            if isinstance(layout, (list, tuple)) and layout and layout[0] == 'view':
                pass        # (a view is rebuilt for every call; flattening by the callee is not a content change)
            elif _snapshot(x) != snap:
                # the call modified its input (purity is C20's subject); never reuse a modified source
                res.extra['retarget_call_modified_its_input(C20, not judged here)'] += 1
                entry[2], _ = build_source(src_enc, text, layout)
                entry[3] = _snapshot(entry[2])
            if out is None:
                continue
            returned.append(lname)
            try:
                ob = observe_rows(out)
            except observe.ObserverError:
                raise
            except Exception as e:
                # the returned object cannot even be read (inconsistent shape/data): an observation about the library
                ob = ('unreadable', '%s: %s' % (exc_name(e), str(e)[:120]))
            if ob == ('rows', rows):
                summary.add('same-text')
                if getattr(out, 'encoding', None) != tgt_enc:
                    res.extra['retarget_result_encoding_is_not_target(not judged)'] += 1
                continue
            if ob[0] == 'rows' and ''.join(ob[1]) == ''.join(rows):
                kind = 'retarget-changes-row-structure'
            elif ob[0] == 'rows':
                kind = 'retarget-yields-different-letters'
            else:
                kind = 'retarget-yields-undecodable-data'
            summary.add(kind)
            failing.setdefault(kind, {})[lname] = ({'rows': rows, 'or': 'raises'}, ob, None)
        res.outcome('retarget:%s:->%s:code-vs-prefix[%s]:text-vs-target[%s]:%s' % (
            api, 'ascii' if tgt == 'ascii' else 'alphabet', facts['max_code_vs_common_prefix'],
            facts['text_vs_target'], '+'.join(sorted(summary)) or 'no-source'))
        for kind, lname, exp, obs, tb in _group_forms(failing, executed, returned):
            container = lname if lname == 'all' else '+'.join(sorted({x.split('[')[0] for x in lname.split('+')}))
            feats = {'api': api, 'container': container}
            if api in ('as_encoded_array', 'target.encode'):
                # mechanism: codes are re-used when the alphabets agree on a prefix -> the relevant fact is where
                # the largest code of the data lies relative to the common prefix of the two alphabets
                feats['max_code_vs_common_prefix'] = facts['max_code_vs_common_prefix']
            else:
                # mechanism: decode then encode -> the relevant fact is what the text's characters are to the target
                feats['text_vs_target'] = facts['text_vs_target']
            res.fail(kind, case, feats, expected=exp, observed=obs, tb=tb)
            res.extra['failing_cases[%s|%s|%s->%s]' % (kind, api, src, tgt)] += 1
    res.traces += 1
    if text and not facts['codes_reusable']:
        res.nontrivial += 1
    if not any(x.get('part') == 'retarget' for x in res.samples):
        res.sample({'part': 'retarget', 'source': src, 'target': tgt, 'text': text, 'layouts': layouts,
                    'apis': [a for a, _ in APIS], 'facts': facts})


# ---------------------------------------------------------------- part: numeric offset encodings
NUMERIC_FORMS = [
    ('encode(str)', 'single', _f_enc_str),
    ('as_encoded_array(str)', 'single', _f_as_str),
    ('encode(uint8[])', 'single', _f_enc_u8),
    ('as_encoded_array(ascii EncodedArray)', 'single', _f_as_ascii_flat),
    ('encode(list)', 'any', _f_enc_list),
    ('as_encoded_array(list)', 'any', _f_as_list),
    ('as_encoded_array(ascii EncodedRaggedArray)', 'any', _f_as_ascii_ragged),
]


def observe_numeric_text(dec):
    """decoded numeric value (ndarray / RaggedArray of byte values) -> ('rows', [str]) or ('not-bytes', ...)"""
    L = lib()
    if isinstance(dec, (L['EncodedArray'], L['EncodedRaggedArray'])):
        return observe_rows(dec)
    if not isinstance(dec, (np.ndarray, L['RaggedArray'])):
        return ('not-an-array', type(dec).__name__)
    col = observe.column(dec)
    rows = col if isinstance(dec, L['RaggedArray']) else [col]
    out = []
    for r in rows:
        if not all(isinstance(v, int) and 0 <= v <= 255 for v in r):
            return ('not-bytes', repr(rows)[:80])
        out.append(''.join(chr(v) for v in r))
    return ('rows', out)


def check_numeric(res, case):
    name, rows = case['encoding'], case['rows']
    enc = encoding(name)
    offset = A.NUMERIC[name]
    res.evaluations += 1
    res.states += 1
    res.planned += 1
    forms = [n for n, k, _ in NUMERIC_FORMS if k == 'any' or len(rows) == 1]
    funcs = {n: f for n, _, f in NUMERIC_FORMS}
    failing = {}
    returned = []
    summary = set()
    for form in forms:
        res.transitions += 1
        try:
            val = funcs[form](enc, rows)
            res.transitions += 1
            dec = enc.decode(val)
        except Exception as e:
            res.raising += 1
            summary.add('raises:' + exc_name(e))
            continue
        returned.append(form)
        ob = observe_numeric_text(dec)
        if ob[0] == 'rows' and [A.upper(r) for r in ob[1]] == [A.upper(r) for r in rows]:
            summary.add('same-text' if ob[1] == rows else 'same-text-up-to-case')
            try:
                v = np.asarray(val.ravel()).tolist()
            except Exception:
                v = None
            if v != [(ord(c) - offset) % 256 for r in rows for c in r]:
                res.extra['numeric_value_is_not_byte_minus_offset_mod_256(not judged)'] += 1
        else:
            summary.add('changed')
            failing.setdefault('numeric-roundtrip-changes-text', {})[form] = ({'rows': rows, 'or': 'raises'}, ob, None)
    res.traces += 1
    if sum(len(r) for r in rows) >= 1:
        res.nontrivial += 1
    res.outcome('numeric:%s:%s' % ('multi-row' if len(rows) > 1 else 'single-row', '+'.join(sorted(summary))))
    if not any(x.get('part') == 'numeric' for x in res.samples):
        res.sample({'part': 'numeric', 'encoding': name, 'rows': rows, 'forms': forms})
    for kind, form, exp, obs, tb in _group_forms(failing, forms, returned):
        res.fail(kind, case, {'encoding': name, 'form': form}, expected=exp, observed=obs, tb=tb)


# ---------------------------------------------------------------- part: size ladder
# Short texts decide which characters are accepted and how rows are laid out; a path chosen by the NUMBER of characters or
# rows needs long inputs.  Per alphabet and ladder size N: a text of N symbols (quadratic pattern over the whole alphabet)
# as one string, as a byte array and as N//3 rows; it must decode to itself; with ONE foreign character at the last
# position, at N//2 and at position 0 it must be refused.
def ladder_sizes(tier):
    ns = set()
    for k in range(6, (17 if tier == 'quick' else 20)):
        ns.update((2 ** k - 1, 2 ** k, 2 ** k + 1))
    for k in range(2, 5 if tier == 'quick' else 6):
        ns.update((10 ** k - 1, 10 ** k, 10 ** k + 1))
    return sorted(ns)


def ladder_text(name, n):
    alpha = A.ALPHABETS[name]
    j = np.arange(n, dtype=np.int64)
    idx = (j * j + j // len(alpha) + 1) % len(alpha)
    return np.frombuffer(alpha.encode('latin1'), dtype=np.uint8)[idx].tobytes().decode('latin1')


def check_ladder(res, case):
    name, n = case['alphabet'], case['n']
    enc = encoding(name)
    bnp = lib()['bnp']
    text = ladder_text(name, n)
    size = '<=10^3' if n <= 1000 else ('10^3..10^5' if n <= 10 ** 5 else '>10^5')
    res.evaluations += 1
    res.states += 1
    res.planned += 1
    res.traces += 1
    res.nontrivial += 1
    foreign = A.foreign_representatives(name)[0][1]
    rows3 = [text[i:i + 3] for i in range(0, n, 3)]
    forms = [('as_encoded_array(str)', lambda t=text: bnp.as_encoded_array(t, enc), [text]),
             ('encode(uint8[])', lambda t=text: enc.encode(u8(t)), [text]),
             ('as_encoded_array(list of rows)', lambda r=rows3: bnp.as_encoded_array(list(r), enc), rows3),
             ('change_encoding(ASCII rows)', lambda r=rows3: bnp.change_encoding(bnp.as_encoded_array(list(r)), enc), rows3)]
    for form, call, want in forms:
        feats = {'form': form, 'size': size, 'part': 'ladder'}
        res.transitions += 1
        try:
            ob = observe_rows(call())
        except observe.ObserverError:
            raise
        except Exception as e:
            res.fail('rejects-text-over-alphabet', dict(case, form=form), feats, expected='decodes to the text',
                     observed='raises ' + exc_name(e) + ': ' + str(e)[:160], tb=tb_string(e))
            res.outcome('ladder:%s:raises' % size)
            continue
        if ob[0] != 'rows' or ob[1] != want:
            got = ob[1] if ob[0] == 'rows' else ob
            first = next((i for i, (a, b) in enumerate(zip(''.join(got), ''.join(want))) if a != b), None) if ob[0] == 'rows' else None
            res.fail('decoded-text-differs-from-uppercased-original', dict(case, form=form), feats,
                     expected={'characters': n, 'rows': len(want)},
                     observed={'kind': ob[0], 'first_difference_at': first, 'characters': sum(len(r) for r in got) if ob[0] == 'rows' else None,
                               'rows': len(got) if ob[0] == 'rows' else None})
            res.outcome('ladder:%s:differs' % size)
            continue
        res.outcome('ladder:%s:ok' % size)
    for where, pos in (('last', n - 1), ('middle', n // 2), ('first', 0)):
        bad = text[:pos] + foreign + text[pos + 1:]
        bad_rows = [bad[i:i + 3] for i in range(0, n, 3)]
        for form, call in (('as_encoded_array(str)', lambda: bnp.as_encoded_array(bad, enc)),
                           ('as_encoded_array(list of rows)', lambda: bnp.as_encoded_array(bad_rows, enc))):
            res.transitions += 1
            try:
                ob = observe_rows(call())
            except observe.ObserverError:
                raise
            except Exception:
                res.outcome('ladder:foreign:%s:refused' % size)
                continue
            res.fail('accepts-character-outside-alphabet', dict(case, form=form, foreign_at=where),
                     {'form': form, 'size': size, 'part': 'ladder', 'foreign_at': where},
                     expected={'raises': True, 'offending': repr(foreign), 'position': pos},
                     observed={'returned': ob[0], 'character_there': (''.join(ob[1])[pos:pos + 1] if ob[0] == 'rows' else None)})
            res.outcome('ladder:foreign:%s:ACCEPTED' % size)


# ---------------------------------------------------------------- part: lists of pieces encoded in different alphabets
# as_encoded_array(list of EncodedArray) with pieces of two different alphabets: single characters (0-d, what indexing a
# sequence returns), one-letter rows and two-letter rows.  The call may refuse; if it returns, the result decodes to the
# letters of the pieces (never to other letters).
def check_mixed(res, case):
    bnp = lib()['bnp']
    a, b = case['a'], case['b']
    ea, eb = encoding(a), encoding(b)
    sa, sb = case['sa'], case['sb']
    res.evaluations += 1
    res.states += 1
    res.planned += 1
    res.traces += 1
    res.nontrivial += 1
    builders = [('single characters (0-d)', lambda: [bnp.as_encoded_array(sa, ea)[0], bnp.as_encoded_array(sb, eb)[0]], [sa, sb]),
                ('one-letter rows', lambda: [bnp.as_encoded_array(sa, ea), bnp.as_encoded_array(sb, eb)], [sa, sb]),
                ('two-letter row + single character', lambda: [bnp.as_encoded_array(sa + sa, ea), bnp.as_encoded_array(sb, eb)[0]], [sa + sa, sb])]
    for form, build, pieces in builders:
        for tgt_name, tgt in (('none', None), (a, ea), (b, eb)):
            res.transitions += 1
            try:
                lst = build()
                out = bnp.as_encoded_array(lst) if tgt is None else bnp.as_encoded_array(lst, tgt)
                ob = observe_rows(out)
            except observe.ObserverError:
                raise
            except Exception:
                res.outcome('mixed:refused')
                continue
            letters = ''.join(ob[1]) if ob[0] == 'rows' else None
            if letters is None or letters.upper() != ''.join(pieces).upper():
                res.fail('list-of-pieces-in-two-alphabets-decodes-to-other-letters', dict(case, form=form, target=tgt_name),
                         {'part': 'mixed', 'form': form, 'target': 'none' if tgt is None else ('first' if tgt_name == a else 'second'),
                          'same_alphabet': a == b},
                         expected={'pieces': pieces, 'or': 'raises'}, observed={'decoded': ob})
                res.outcome('mixed:OTHER-LETTERS')
            else:
                res.outcome('mixed:same-letters')


CHECKERS = {'encode': check_encode, 'retarget': check_retarget, 'numeric': check_numeric, 'ladder': check_ladder,
            'mixed': check_mixed}


def check_case(res, case, cache=None):
    if case['part'] == 'retarget':
        check_retarget(res, case, cache)
    else:
        CHECKERS[case['part']](res, case)


# ---------------------------------------------------------------- spaces
def bounds(tier, seed):
    quick = tier == 'quick'
    return {
        'alphabets': dict(A.ALPHABETS), 'numeric_encodings': dict(A.NUMERIC),
        'bytes': 'all 256 x 10 alphabets x contexts {[b], [s0 b], [b s0], [s0 | b], [b | s0 s0]} (s0 = first symbol, | = row '
                 'break) x all applicable input forms; whole-alphabet texts (upper, lower, reversed, doubled)',
        'strings_max_chars': 3 if quick else 4, 'strings_max_rows': MAX_ROWS,
        'strings_sub_alphabets': dict(A.SUB_ALPHABET),
        'foreign_classes': list(A.FOREIGN_CLASSES),
        'retarget_max_chars': '3' if quick else '4 (alphabets of > 10 symbols, i.e. amino acids and BAM 4-bit: 3)',
        'retarget_targets': TARGETS,
        'retarget_layouts': (
            'core: flat, 0-d scalar (1 char), ragged [1,n-1]; extension slice for texts <= 2 chars: ragged [n] and '
            'ragged [k,n-k] with k=(VERIF_SEED mod (n+1))' if quick else
            'texts <= 3 chars: flat, scalar, ragged [n], every 2-row split, [1,..,1]; 4 chars: flat, ragged [4], '
            'ragged [2,2]'),
        'numeric': 'all 256 bytes x 3 offset encodings x 5 contexts x 7 input forms',
        'retarget_apis': [a for a, _ in APIS],
        'input_forms': [n for n, _, _ in FORMS],
    }


def _sigma(name):
    return A.SUB_ALPHABET[name]


def unit_cases(unit, tier, seed):
    """Generator of case dicts of one unit (canonical order)."""
    quick = tier == 'quick'
    kind = unit[0]
    if kind == 'bytes':
        name = unit[1]
        alpha = A.ALPHABETS[name]
        s0 = alpha[0]
        for b in range(256):
            ch = chr(b)
            for rows in ([ch], [s0 + ch], [ch + s0], [s0, ch], [ch, s0 + s0]):
                yield {'part': 'encode', 'alphabet': name, 'rows': rows}
        lower = ''.join(c.lower() if A.is_upper_letter(c) else c for c in alpha)
        for text in (alpha, lower, alpha[::-1], lower[::-1], alpha + lower):
            yield {'part': 'encode', 'alphabet': name, 'rows': [text]}
            yield {'part': 'encode', 'alphabet': name, 'rows': [text[:1], text[1:], '']}
            yield {'part': 'encode', 'alphabet': name, 'rows': [text, text]}
    elif kind == 'numeric':
        name = unit[1]
        off = chr(A.NUMERIC[name])
        for b in range(256):
            ch = chr(b)
            for rows in ([ch], [off + ch], [ch + off], [off, ch], [ch, '', off + ch]):
                yield {'part': 'numeric', 'encoding': name, 'rows': rows}
        yield {'part': 'numeric', 'encoding': name, 'rows': ['']}
        yield {'part': 'numeric', 'encoding': name, 'rows': [''.join(chr(b) for b in range(128))]}
        yield {'part': 'numeric', 'encoding': name, 'rows': [''.join(chr(b) for b in range(128, 256)), '']}
    elif kind == 'valid':
        _, name, fi = unit
        L = 3 if quick else 4
        sig = _sigma(name)
        if fi is None:
            for prof in A.profiles(0, MAX_ROWS):
                yield {'part': 'encode', 'alphabet': name, 'rows': A.split_rows('', prof)}
            return
        for n in range(1, L + 1):
            profs = A.profiles(n, MAX_ROWS)
            for rest in itertools.product(sig, repeat=n - 1):
                text = sig[fi] + ''.join(rest)
                for prof in profs:
                    yield {'part': 'encode', 'alphabet': name, 'rows': A.split_rows(text, prof)}
    elif kind == 'foreign':
        _, name, ri = unit
        L = 3 if quick else 4
        sig = _sigma(name)
        _, f = A.foreign_representatives(name)[ri]
        for n in range(1, L + 1):
            profs = A.profiles(n, MAX_ROWS)
            for pos in range(n):
                for others in itertools.product(sig, repeat=n - 1):
                    text = ''.join(others[:pos]) + f + ''.join(others[pos:])
                    for prof in profs:
                        yield {'part': 'encode', 'alphabet': name, 'rows': A.split_rows(text, prof)}
    elif kind == 'retarget':
        _, src, fi, targets = unit
        L = 3 if quick else 4
        alpha = A.ALPHABETS[src]
        big = len(alpha) > 10
        if fi is None:
            for tgt in targets:
                yield {'part': 'retarget', 'source': src, 'target': tgt, 'text': '',
                       'layouts': ['flat', [0], [0, 0]]}
            return
        for n in range(1, (3 if big else L) + 1):
            for rest in itertools.product(alpha, repeat=n - 1):
                text = alpha[fi] + ''.join(rest)
                layouts = retarget_layouts(n, quick, seed, big)
                for tgt in targets:
                    yield {'part': 'retarget', 'source': src, 'target': tgt, 'text': text, 'layouts': layouts}
    elif kind == 'mixed':
        _, a = unit
        for b in NAMES:
            for sa in A.ALPHABETS[a]:
                for sb in A.ALPHABETS[b]:
                    yield {'part': 'mixed', 'a': a, 'b': b, 'sa': sa, 'sb': sb}
    elif kind == 'ladder':
        _, name, sizes = unit
        for n in sizes:
            yield {'part': 'ladder', 'alphabet': name, 'n': n}
    else:
        raise ValueError(unit)


def retarget_layouts(n, quick, seed, big):
    out = ['flat']
    if n == 1:
        out.append('scalar')
    if n >= 2:
        for how in ('rowrev', 'fancy', 'colrev', 'tail'):
            out.append(['view', how, [1, n - 1]])
            if not quick and n >= 3:
                out.append(['view', how, [2, n - 2]])
    if quick:
        out.append([1, n - 1])             # core
        if n <= 2:                         # extension slice (rotated by VERIF_SEED); thorough has every split
            out.append([n])
            k = seed % (n + 1)
            if [k, n - k] not in out:
                out.append([k, n - k])
        return out
    if n <= 3:
        out.append([n])
        for k in range(n + 1):
            out.append([k, n - k])
        if n >= 3:
            out.append([1] * n)
        return out
    out.append([n])
    out.append([2, n - 2])
    return out


def unit_cost(unit, tier, seed):
    """Estimated number of library calls (used only to balance shards)."""
    quick = tier == 'quick'
    kind = unit[0]
    L = 3 if quick else 4
    if kind == 'bytes':
        return 256 * 5 * 14
    if kind == 'numeric':
        return 256 * 5 * 5
    if kind in ('valid', 'foreign'):
        s = len(_sigma(unit[1]))
        if kind == 'valid' and unit[2] is None:
            return 30
        tot = 0
        for n in range(1, L + 1):
            texts = s ** (n - 1) * (n if kind == 'foreign' else 1)
            tot += texts * len(A.profiles(n, MAX_ROWS)) * (16 if kind == 'valid' else 8)
        return tot
    if kind == 'mixed':
        return 9 * len(A.ALPHABETS[unit[1]]) * sum(len(A.ALPHABETS[b]) for b in NAMES)
    if kind == 'ladder':
        return 10 * len(unit[2]) + sum(unit[2]) // 40
    if kind == 'retarget':
        _, src, fi, targets = unit
        a = len(A.ALPHABETS[src])
        if fi is None:
            return 10 * len(targets)
        tot = 0
        for n in range(1, (3 if a > 10 else L) + 1):
            tot += a ** (n - 1) * len(retarget_layouts(n, quick, seed, a > 10)) * 3 * len(targets)
        return tot
    raise ValueError(unit)


def units(tier, seed):
    out = []
    for name in NAMES:
        out.append(['bytes', name])
    for name in A.NUMERIC:
        out.append(['numeric', name])
    for name in NAMES:
        out.append(['valid', name, None])
        for fi in range(len(_sigma(name))):
            out.append(['valid', name, fi])
        for ri in range(len(A.foreign_representatives(name))):
            out.append(['foreign', name, ri])
    for name in NAMES:
        out.append(['mixed', name])
    sizes = ladder_sizes(tier)
    for name in NAMES:
        for i in range(0, len(sizes), 6):
            out.append(['ladder', name, sizes[i:i + 6]])
    for src in NAMES:
        targets = [t for t in TARGETS if t != src]
        out.append(['retarget', src, None, targets])
        for fi in range(len(A.ALPHABETS[src])):
            out.append(['retarget', src, fi, targets])
    return out


def shards(tier, seed):
    us = units(tier, seed)
    costs = [unit_cost(u, tier, seed) for u in us]
    total = sum(costs)
    want = 64 if tier == 'quick' else 192
    target = total / float(want)
    # split over-sized retarget units by target list so that no unit dominates
    split_units = []
    for u, c in zip(us, costs):
        if u[0] == 'retarget' and c > 1.5 * target and len(u[3]) > 1:
            parts = min(len(u[3]), int(c / target) + 1)
            tg = u[3]
            for i in range(parts):
                sub = tg[i::parts]
                if sub:
                    split_units.append(['retarget', u[1], u[2], sub])
        else:
            split_units.append(u)
    us = split_units
    costs = [unit_cost(u, tier, seed) for u in us]
    # greedy: largest first into the currently lightest of `want` bins (deterministic)
    order = sorted(range(len(us)), key=lambda i: (-costs[i], i))
    bins = [[0, []] for _ in range(want)]
    for i in order:
        b = min(range(want), key=lambda j: (bins[j][0], j))
        bins[b][0] += costs[i]
        bins[b][1].append(i)
    out = []
    for cost, idxs in bins:
        if idxs:
            out.append({'tier': tier, 'seed': seed, 'units': [us[i] for i in sorted(idxs)], 'est_calls': cost})
    # heavy shards first (better pool packing); VERIF_SEED rotates the order
    out.sort(key=lambda d: -d['est_calls'])
    r = seed % len(out)
    return out[r:] + out[:r]


def run_shard(desc, deadline):
    res = Result()
    n = 0
    cache = {}
    for unit in desc['units']:
        for case in unit_cases(unit, desc['tier'], desc['seed']):
            n += 1
            if n % 64 == 0 and deadline.expired():
                res.capped = True
                return res
            check_case(res, case, cache)
    return res


def replay_case(case):
    res = Result()
    check_case(res, case)
    return [{'kind': g['kind'], 'features': g['features'], 'observed': g['exemplars'][0]['observed'],
             'expected': g['exemplars'][0]['expected'], 'traceback': g['exemplars'][0]['traceback']}
            for g in res.fail_groups.values()]


def repro_py(case):
    head = ('import numpy as np\nimport bionumpy as bnp\n'
            'from bionumpy.encodings import alphabet_encoding as ae\nimport bionumpy.encodings as encs\n')
    if case['part'] == 'encode':
        return head + '''enc = ae.%s
rows = %r
model_alphabet = %r   # accepted: these symbols, and lower case of the letters among them
try:
    out = bnp.as_encoded_array(rows if len(rows) > 1 else rows[0], enc)
    print('accepted ->', out.tolist() if len(rows) > 1 else out.to_string())
except Exception as e:
    print('raises', type(e).__name__, e)
''' % (A.LIB_ATTR[case['alphabet']], case['rows'], A.ALPHABETS[case['alphabet']])
    if case['part'] == 'retarget':
        tgt = 'bnp.BaseEncoding' if case['target'] == 'ascii' else 'ae.' + A.LIB_ATTR[case['target']]
        return head + '''src, tgt = ae.%s, %s
text = %r
x = bnp.as_encoded_array(text, src)
for name, fn in (('as_encoded_array', bnp.as_encoded_array), ('change_encoding', bnp.change_encoding)):
    try:
        out = fn(x, tgt)
        print(name, '->', out.to_string(), '(must be %%r or raise)' %% text)
    except Exception as e:
        print(name, 'raises', type(e).__name__)
''' % (A.LIB_ATTR[case['source']], tgt, case['text'])
    return head + '''enc = encs.%s
rows = %r
val = enc.encode(rows if len(rows) > 1 else rows[0])
print(val, enc.decode(val))
''' % (A.NUMERIC_LIB_ATTR[case['encoding']], case['rows'])
