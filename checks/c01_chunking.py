"""C01 — chunked reading loses, duplicates, reorders nothing.

Space (shape A x reader state machine): format x file (sequence of record
variants) x {LF,CRLF} x {final newline, none} x {plain, gzip} x {lazy, eager}
x EVERY min_chunk_size 1..size+2, plus the non-initial-state programs
"read_chunk(k1) then read_chunks(k2)" and "one more read_chunk after the
stream ended".  Oracle after every delivered chunk: entries so far are a prefix
of read()'s entries; at termination: equal.  A path that raises is not judged.
"""
import base64
import itertools

from engine import observe
from engine.result import Result, tb_string, raising_frame
from models.formats import FORMATS, LF, CRLF
from .common import make_reader, exc_name

PROPERTY = 'C01'
LEVEL = 'model_checking'
RULE = ('every file = sequence of 1..N record variants per format; every configuration; every min_chunk_size '
        '1..size+2; a case is (file, configuration, chunk schedule); non-trivial = the chunked read completed '
        'AND delivered >= 2 chunks (the cut/carry-over logic ran)')
ASSUMPTIONS = [
    'whole-file read() of the same bytes is the reference (the statement\'s own reference); read() is compared '
    'with the constructive spec expectation separately in C02',
    'files larger than the stated bound are not explored (no sampling)',
    'file objects are BytesIO / GzipFile over BytesIO constructed by the harness (bnp.open cross-section uses '
    'scratch files under /dev/shm)',
    'a path that raises is not judged (statement allows raising for small chunk sizes); counted in paths_raising',
]
EXPLANATION = 'stateless exploration of the real reader: every chunk size is a distinct schedule of read/seek/prepend steps'

C01_FORMATS = ['bed3', 'bed6', 'bedgraph', 'narrowpeak', 'vcf', 'vcf_header', 'sam', 'gtf', 'fasta2',
               'fasta_wrapped', 'fastq']


def bounds(tier, seed):
    if tier == 'quick':
        pair = [(0, 1), (0, 2), (1, 2)][seed % 3]
        return {'max_records': 3, 'variants': list(pair), 'k': 'all 1..size+2', 'mixed_k2': [1, 7],
                'formats': C01_FORMATS,
                'core': 'files of 1..2 records x all 16 configurations x all k',
                'extension_slice': '3-record files on configurations with (index+seed)%4==0'}
    return {'max_records': 4, 'variants': [0, 1, 2], 'k': 'all 1..size+2', 'mixed_k2': [1, 'size'],
            'four_record_files': 'variants 0 and 1 only (16 files) on a fixed quarter of the configurations; 1..3 records: all three variants, all 16 configurations',
            'mixed_schedules': 'every k1 for files of <= 2 records, a 9-value k1 menu for longer files',
            'formats': C01_FORMATS}


def shards(tier, seed):
    b = bounds(tier, seed)
    out = []
    for fmt in b['formats']:
        for n in range(1, b['max_records'] + 1):
            for vs in itertools.product(b['variants'] if (n <= 3 or tier == 'quick') else b['variants'][:2], repeat=n):
                out.append({'fmt': fmt, 'variants': list(vs), 'tier': tier, 'seed': seed})
    # simplest first within a format is kept; interleave formats so that a cap cuts evenly
    out.sort(key=lambda d: (len(d['variants']), C01_FORMATS.index(d['fmt']), d['variants']))
    open_files = [[0, 1, 2], [2]] if tier == 'quick' else [[0, 1, 2], [1, 0], [2]]
    out = [{'part': 'open', 'fmt': fmt, 'variants': vs, 'eol': eol, 'tier': tier, 'seed': seed}
           for fmt in OPEN_SUFFIX for vs in open_files for eol in ('LF', 'CRLF')] + out
    return out


CONFIGS = [(eol, fn, gz, lazy) for eol in ('LF', 'CRLF') for fn in (True, False) for gz in (False, True)
           for lazy in (False, True)]


def build(fmt, variants, eol, final_newline):
    f = FORMATS[fmt]
    recs = [f.record(v, i) for i, v in enumerate(variants)]
    data = f.render(recs, LF if eol == 'LF' else CRLF, final_newline)
    return f, recs, data


def run_schedule(f, data, gz, lazy, sched, fields):
    """Execute one chunk schedule on a fresh reader.  Returns (status, chunks) where chunks is a list of
    row lists; status 'ok' or ('raises', name).  After the stream ends one more read_chunk is issued."""
    reader = make_reader(data, f.buffer_type(), lazy, gz)
    chunks = []
    try:
        if sched[0] == 'const':
            k = sched[1]
            for c in reader.read_chunks(k):
                chunks.append(observe.table_rows(c, fields))
            extra = reader.read_chunk(k)
        else:
            _, k1, k2 = sched
            c = reader.read_chunk(k1)
            chunks.append(observe.table_rows(c, fields))
            if len(c):
                for c in reader.read_chunks(k2):
                    chunks.append(observe.table_rows(c, fields))
            extra = reader.read_chunk(k2)
        extra_rows = observe.table_rows(extra, fields)
    except observe.ObserverError:
        raise
    except Exception as e:
        return ('raises', exc_name(e), e), chunks
    return ('ok', extra_rows), chunks


def run_joined(f, data, gz, lazy, k, fields):
    """The statement's "when the chunks are concatenated in order", taken literally: the chunk objects of read_chunks(k),
    not looked at, joined with np.concatenate, then read.  -> ('ok', rows, n_chunks) | ('raises', exc) | None (< 3 chunks)"""
    import numpy as np
    try:
        reader = make_reader(data, f.buffer_type(), lazy, gz)
        cs = list(reader.read_chunks(k))
        if len(cs) < 3:
            return None
        joined = np.concatenate(cs)
        return ('ok', observe.table_rows(joined, fields), len(cs))
    except observe.ObserverError:
        raise
    except Exception as e:
        return ('raises', e)


def judge(whole, status, chunks):
    """-> None or (kind, expected, observed)"""
    flat = [r for c in chunks for r in c]
    if flat != whole[:len(flat)]:
        return ('delivered-not-a-prefix', whole, chunks)
    if status[0] == 'ok':
        if flat != whole:
            return ('completed-with-missing-entries', whole, chunks)
        if status[1]:
            return ('read-after-end-returns-entries', [], status[1])
    return None


def check_case(res, fmt, variants, eol, final_newline, gz, lazy, scheds, whole_cache=None):
    f, recs, data = build(fmt, variants, eol, final_newline)
    fields = list(f.fields)
    if lazy and not f.lazy_capable:
        pass  # the reader decides; lazy=True is still a legal request (GTF/wrapped FASTA fall back to eager)
    try:
        whole_t = make_reader(data, f.buffer_type(), lazy, gz).read()
        whole = observe.table_rows(whole_t, fields)
    except observe.ObserverError:
        raise
    except Exception as e:
        res.raising += 1
        res.outcome('whole-read-raises:' + exc_name(e))
        return
    res.transitions += 1
    if whole != f.expected(recs):
        res.extra['whole_read_differs_from_spec(judged in C02)'] += 1
    completed = 0
    e = LF if eol == 'LF' else CRLF
    max_rec = max(len(e.join(r.lines) + e) for r in recs)
    for sched in scheds:
        res.evaluations += 1
        res.states += 1
        res.planned += 1
        status, chunks = run_schedule(f, data, gz, lazy, sched, fields)
        res.transitions += len(chunks) + 1
        res.traces += 1
        case = {'fmt': fmt, 'variants': list(variants), 'eol': eol, 'final_newline': final_newline, 'gz': gz,
                'lazy': lazy, 'sched': list(sched), 'data_b64': base64.b64encode(data).decode()}
        verdict = judge(whole, status, chunks)
        if status[0] == 'ok':
            completed += 1
            if len(chunks) >= 2:
                res.nontrivial += 1
            res.outcome('ok:%d-chunks' % min(len(chunks), 9))
        else:
            res.raising += 1
            res.outcome('raises:' + status[1])
            # the statement allows an error only for a chunk size too small to hold one entry
            k_min = min(s for s in sched[1:] if isinstance(s, int))
            if verdict is None and k_min >= max_rec:
                verdict = ('raises-although-chunk-size-holds-the-largest-entry', 'completes (k=%d >= largest entry %d bytes)' % (k_min, max_rec),
                           '%s: %s' % (status[1], str(status[2])[:200]))
        if verdict is not None:
            kind, exp, obs = verdict
            feats = {'format': fmt, 'final_newline': final_newline, 'gz': gz}
            res.fail(kind, case, feats, expected=exp, observed=obs,
                     tb=tb_string(status[2]) if status[0] == 'raises' else None)
    # the chunk OBJECTS joined with np.concatenate (>= 3 chunks), a few chunk sizes
    if len(whole) >= 3:
        for k in sorted({1, max(1, len(data) // 4), max(1, len(data) // 3)}):
            r = run_joined(f, data, gz, lazy, k, fields)
            if r is None:
                continue
            res.transitions += 1
            jcase = {'fmt': fmt, 'variants': list(variants), 'eol': eol, 'final_newline': final_newline, 'gz': gz, 'lazy': lazy,
                     'sched': ['joined', k]}
            if r[0] == 'raises':
                # every chunk alone and the whole file read fine; np.concatenate is how the repository's own tests and examples
                # join chunks: a well-formed file must not become unreadable by being read in three or more chunks
                res.fail('joined-chunks-unreadable', jcase,
                         {'format': fmt, 'final_newline': final_newline, 'gz': gz, 'lazy': lazy, 'schedule': 'np.concatenate(chunks)',
                          'exc': exc_name(r[1])}, expected={'n': len(whole), 'rows': whole[:6]},
                         observed='%s: %s' % (exc_name(r[1]), str(r[1])[:200]), tb=tb_string(r[1]))
                res.outcome('JOINED-RAISES')
                continue
            if r[1] != whole:
                res.fail('joined-chunks-differ-from-whole-read', jcase,
                         {'format': fmt, 'final_newline': final_newline, 'gz': gz, 'lazy': lazy, 'schedule': 'np.concatenate(chunks)'},
                         expected={'n': len(whole), 'rows': whole[:6]}, observed={'n': len(r[1]), 'rows': r[1][:6], 'chunks': r[2]})
                res.outcome('JOINED-DIFFERS')
            else:
                res.outcome('joined:ok')
    if completed == 0 and scheds:
        case = {'fmt': fmt, 'variants': list(variants), 'eol': eol, 'final_newline': final_newline, 'gz': gz,
                'lazy': lazy, 'sched': ['all'], 'data_b64': base64.b64encode(data).decode()}
        res.fail('no-chunk-size-completes', case, {'format': fmt, 'final_newline': final_newline, 'gz': gz},
                 expected='some k completes', observed='every k raised')
    if len(res.samples) < 2 and scheds:
        res.sample({'format': fmt, 'file': data.decode('latin1'), 'config': [eol, final_newline, gz, lazy],
                    'schedules': len(scheds), 'whole_entries': len(whole)})


def schedules(size, tier, b, n_records=1):
    out = [('const', k) for k in range(1, size + 3)]
    k2s = [k2 if k2 != 'size' else size for k2 in b['mixed_k2']]
    # mixed schedules read_chunk(k1) then read_chunks(k2): every k1 for files of <= 2 records in thorough, a fixed menu otherwise
    k1s = range(1, size + 3) if (tier == 'thorough' and n_records <= 2) else [1, 2, 3, 5, 8, 13, size // 2, size - 1, size]
    seen = set()
    for k1 in k1s:
        for k2 in k2s:
            if k1 >= 1 and k2 >= 1 and k1 != k2 and (k1, k2) not in seen:
                seen.add((k1, k2))
                out.append(('first', k1, k2))
    return out


OPEN_SUFFIX = {'bed3': '.bed', 'bedgraph': '.bdg', 'narrowpeak': '.narrowPeak', 'vcf': '.vcf', 'vcf_header': '.vcf', 'sam': '.sam',
               'gtf': '.gtf', 'fasta_wrapped': '.fa', 'fastq': '.fq'}


def run_open_shard(desc, deadline):
    """cross-section through bnp.open(path) on real scratch files: suffix dispatch, gzip detection by name"""
    import gzip
    import os
    import shutil
    import tempfile
    import bionumpy as bnp
    res = Result()
    fmt = desc['fmt']
    f = FORMATS[fmt]
    fields = list(f.fields)
    scratch = tempfile.mkdtemp(dir='/dev/shm', prefix='c01_')
    try:
        for variants in [desc['variants']]:
            for eol in [desc['eol']]:
                for fn in (True, False):
                    _, recs, data = build(fmt, variants, eol, fn)
                    ee = LF if eol == 'LF' else CRLF
                    max_rec = max(len(ee.join(r.lines) + ee) for r in recs)
                    for gz in (False, True):
                        path = os.path.join(scratch, 'f' + OPEN_SUFFIX[fmt] + ('.gz' if gz else ''))
                        with (gzip.open(path, 'wb') if gz else open(path, 'wb')) as fh:
                            fh.write(data)
                        for lazy in (None, False):
                            if deadline.expired():
                                res.capped = True
                                return res
                            try:
                                whole = observe.table_rows(bnp.open(path, lazy=lazy).read(), fields)
                            except observe.ObserverError:
                                raise
                            except Exception as e:
                                res.raising += 1
                                res.outcome('whole-read-raises:' + exc_name(e))
                                continue
                            completed = 0
                            for k in range(1, len(data) + 3):
                                res.evaluations += 1
                                res.states += 1
                                res.planned += 1
                                res.traces += 1
                                case = {'fmt': fmt, 'variants': variants, 'eol': eol, 'final_newline': fn, 'gz': gz,
                                        'lazy': lazy, 'sched': ['open', k], 'data_b64': base64.b64encode(data).decode()}
                                chunks = []
                                try:
                                    for c in bnp.open(path, lazy=lazy).read_chunks(k):
                                        chunks.append(observe.table_rows(c, fields))
                                    status = ('ok', [])
                                except observe.ObserverError:
                                    raise
                                except Exception as e:
                                    status = ('raises', exc_name(e), e)
                                res.transitions += len(chunks) + 1
                                verdict = judge(whole, status, chunks)
                                if status[0] == 'ok':
                                    completed += 1
                                    if len(chunks) >= 2:
                                        res.nontrivial += 1
                                    res.outcome('open-ok:%d-chunks' % min(len(chunks), 9))
                                else:
                                    res.raising += 1
                                    res.outcome('open-raises:' + status[1])
                                    if verdict is None and k >= max_rec:
                                        verdict = ('raises-although-chunk-size-holds-the-largest-entry',
                                                   'completes (k=%d >= largest entry %d bytes)' % (k, max_rec),
                                                   '%s: %s' % (status[1], str(status[2])[:200]))
                                if verdict is not None:
                                    res.fail(verdict[0], case, {'format': fmt, 'final_newline': fn, 'gz': gz, 'via': 'bnp.open'},
                                             expected=verdict[1], observed=verdict[2])
                            if completed == 0:
                                res.fail('no-chunk-size-completes', dict(case, sched=['open', 'all']),
                                         {'format': fmt, 'final_newline': fn, 'gz': gz, 'via': 'bnp.open'},
                                         expected='some k completes', observed='every k raised')
    finally:
        shutil.rmtree(scratch, ignore_errors=True)
    return res


def run_shard(desc, deadline):
    if desc.get('part') == 'open':
        return run_open_shard(desc, deadline)
    res = Result()
    b = bounds(desc['tier'], desc.get('seed', 0))
    for ci, (eol, fn, gz, lazy) in enumerate(CONFIGS):
        if desc['tier'] == 'quick' and len(desc['variants']) >= 3 and (ci + desc.get('seed', 0)) % 4 != 0:
            # extension slice (DESIGN 10): rotated by VERIF_SEED; thorough runs all of it for <= 3 records.  The
            # np.concatenate(chunks) clause needs >= 3 chunks and costs three reads: it runs on every configuration
            f, recs, data = build(desc['fmt'], desc['variants'], eol, fn)
            check_case(res, desc['fmt'], desc['variants'], eol, fn, gz, lazy, [])
            continue
        if desc['tier'] == 'thorough' and len(desc['variants']) >= 4 and (ci // 4 + ci) % 4 != 0:
            continue      # 4-record files: a fixed quarter of the configurations (each of plain/gzip x lazy/eager occurs)
        if deadline.expired():
            res.capped = True
            break
        f, recs, data = build(desc['fmt'], desc['variants'], eol, fn)
        scheds = schedules(len(data), desc['tier'], b, len(desc['variants']))
        check_case(res, desc['fmt'], desc['variants'], eol, fn, gz, lazy, scheds)
    return res


def replay_case(case):
    res = Result()
    if case['sched'][0] == 'open':
        from engine.result import Deadline
        import time
        full = run_open_shard({'part': 'open', 'fmt': case['fmt'], 'variants': case['variants'], 'eol': case['eol']},
                              Deadline(time.time() + 900))
        return [{'kind': g['kind'], 'features': g['features'], 'observed': g['exemplars'][0]['observed'],
                 'expected': g['exemplars'][0]['expected'], 'traceback': g['exemplars'][0]['traceback']}
                for g in full.fail_groups.values()]
    scheds = [tuple(case['sched'])]
    if case['sched'][0] == 'joined':
        scheds = []
    if case['sched'] == ['all']:
        f, recs, data = build(case['fmt'], case['variants'], case['eol'], case['final_newline'])
        scheds = [('const', k) for k in range(1, len(data) + 3)]
    check_case(res, case['fmt'], case['variants'], case['eol'], case['final_newline'], case['gz'], case['lazy'], scheds)
    return [{'kind': g['kind'], 'features': g['features'], 'observed': g['exemplars'][0]['observed'],
             'expected': g['exemplars'][0]['expected'], 'traceback': g['exemplars'][0]['traceback']}
            for g in res.fail_groups.values()]


def repro_py(case):
    if case['sched'][0] == 'joined':
        return ('# np.concatenate(list(reader.read_chunks(%d))) of format %s (variants %r, %s, final newline %s, gz %s, lazy %s): '
                'replay with bin/vcheck replay <this file>\n' % (case['sched'][1], case['fmt'], case['variants'], case['eol'],
                                                                 case['final_newline'], case['gz'], case['lazy']))
    f = FORMATS[case['fmt']]
    mod, cls = f.buffer.split(':')
    return '''import io, base64, gzip, numpy as np
from bionumpy.io.parser import NumpyFileReader
from bionumpy.io.npdataclassreader import NpDataclassReader
from %s import %s as B
data = base64.b64decode(%r)   # %r
def reader():
    fobj = io.BytesIO(data)
    gz = %r
    if gz:
        fobj = gzip.GzipFile(fileobj=io.BytesIO(gzip.compress(data)), mode='rb')
    fr = NumpyFileReader(fobj, B)
    if gz: fr.set_prepend_mode()
    return NpDataclassReader(fr, lazy=%r)
whole = reader().read()
k = %r
chunks = list(reader().read_chunks(k)) if %r == 'const' else None
print(len(whole), [len(c) for c in chunks] if chunks is not None else 'mixed schedule %r')
assert chunks is None or sum(len(c) for c in chunks) == len(whole)
''' % (mod, cls, case['data_b64'], base64.b64decode(case['data_b64'])[:200], case['gz'], case['lazy'],
       case['sched'][1] if len(case['sched']) > 1 else None, case['sched'][0], case['sched'])

MANIFEST_TEXT = ('Stateless exhaustive exploration of the real chunked reader: every file of 1..3 (quick) / 1..4 (thorough) '
                 'records drawn from 2/3 record variants (short, long, mixed field lengths) for 11 formats x LF/CRLF x '
                 'final newline or none x plain/gzip x lazy/eager x EVERY min_chunk_size 1..size+2, plus read_chunk(k1) '
                 'then read_chunks(k2) and one extra read after the end; the chunk objects of read_chunks(k) joined with np.concatenate and read (>= 3 chunks, every configuration); after every delivered chunk the entries so far '
                 'must be a prefix of read()\'s entries and at completion equal to them. Coincidences such as "tail length '
                 'is a multiple of k" are hit for every file because all k are enumerated.')
MANIFEST_NOTE = ('Trusted: NumPy, npstructures, CPython, the observer (engine/observe.py). Reference = read() of the same '
                 'bytes; files above the bound are not explored; raising paths are not judged.')
TECHNIQUE = 'stateless bounded exhaustive exploration of the real reader over all chunk sizes and configurations'
