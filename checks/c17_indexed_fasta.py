"""C17 - indexed FASTA random access agrees with the file.

Shape A (product space).  A *file* is 1..3 records, each of a (length, line width) shape, rendered LF-only with or
without a newline after the last line, with plain names or names followed by a description.  On every file a fixed
program of *operations* is executed against the real library and judged against models/fai.py:

  build       bnp.open_indexed on a FASTA that has no index writes the .fai; the written text is parsed and every
              row compared with (name, length, offset of first base, bases/line, bytes/line)
  build-chunked  bionumpy.io.indexed_fasta.create_index with the default chunk size of read_chunks forced to EVERY
              k in 1..size+2 (the only way to reach the cross-chunk offset accumulation without a > 5 MB file)
  lengths     IndexedFasta.get_contig_lengths() == true sequence lengths
  contig      IndexedFasta[name] == whole sequence
  intervals   get_interval_sequences: EVERY [a,b) 0 <= a < b <= length, one call per interval and all of them in one
              call (forward and reversed order), through the generic path and the string-encoded fast path
  genome      Genome.from_file(fasta) (writes the .fai itself when there is none: judged like `build`),
              .read_sequence(): chromosome sizes, whole contigs, all intervals in one call

each against the index written by the library and against an index supplied faidx-style by the model.  Which files
get which operations is stated in bounds(); a case is (file, operation) and replays alone from {'file', 'op'}.

Failure kinds name the oracle clause (fai-name / fai-length / fai-offset / fai-bases-per-line / fai-bytes-per-line /
fai-row-count / fai-not-written / fai-malformed / fai-build-raises, contig-lengths, contig-names, whole-contig,
intervals, intervals-batch, open-indexed-raises, genome-from-file-raises, genome-read-sequence-raises,
genome-chrom-sizes); features are facts about the file / record / interval only.
"""
import itertools
import os
import shutil
import tempfile

import numpy as np

from engine import observe
from engine.result import Result, tb_string
from models import fai
from .common import exc_name

PROPERTY = 'C17'
LEVEL = 'model_checking'
TECHNIQUE = ('bounded exhaustive enumeration of FASTA layouts x every in-bounds interval x index source x access '
             'path, executed on the real library against a base-by-base reference model')
RULE = ('a case is (file, operation): file = every sequence of 1..N record shapes (length 1..L, every line width '
        '1..W or single line), final newline or none, name scheme; operation = one library-written index build, one '
        'chunk-size-forced build, one contig-length report, one whole-contig fetch, one interval fetch (single '
        'interval or whole batch) or one Genome cross-section; non-trivial = the operation has to deal with a line '
        'break or an accumulated offset: build/lengths/genome on a file with a multi-line record or >= 2 records, '
        'chunked build that really used >= 2 chunks, contig fetch of a multi-line record, interval (or batch '
        'containing an interval) that crosses a line break or starts/stops exactly on one')
ASSUMPTIONS = [
    'LF line ends only (the quantifier has no CRLF); sequence lines of a record all have the record\'s width except the last',
    'files above the stated bound (records, length, width) are not explored; no sampling below it',
    'descriptions are separated from the name by a space (no tab inside a header line)',
    'sets of intervals are explored as: every singleton, and the full set of all intervals of all records in one '
    'call in forward and reversed order (plus the same set without the intervals that end at an unterminated full '
    'last line); arbitrary subsets are not enumerated',
    'the chunk size of the index builder is not a public parameter: it is forced by setting the default arguments of '
    'NpDataclassReader.read_chunks inside the harness process for the duration of one create_index call',
    'bytes-per-line of a single-line last record with no final newline is accepted as lenc or lenc+1',
    'results are compared as text; through Genome/GenomicSequence (ACGTN alphabet encoding) case-insensitively',
    'trusted: NumPy, npstructures, CPython, engine/observe.py, models/fai.py (two derivations cross-checked per file, '
    'scanner checked against the repository\'s example .fai files)',
]
EXPLANATION = ('every small FASTA layout is written to a scratch file and the real index builder, index reader and '
               'random-access readers are run on it for every in-bounds interval')
MANIFEST_TEXT = ('Exhaustive enumeration of FASTA files with 1..3 records of length 1..6 (quick) / 1..9 (thorough) wrapped '
                 'at every width 1..4 / 1..6 or on a single line, with and without final newline: on each file the '
                 'library-written .fai is compared row by row with the model (name, length, offset, bases/line, bytes/line), '
                 'and get_contig_lengths, every whole contig and all in-bounds intervals [a,b) in one call (generic and '
                 'string-encoded path, library-written and model-supplied index) are compared with the true substrings. On '
                 'all files of 1..2 records and the 3-record files of the reduced shapes (length<=3,width<=2 / <=4,<=3) '
                 'additionally: names with descriptions, reversed batch/label order, Genome.from_file(fasta).read_sequence() '
                 '(index written by Genome.from_file, and supplied) and create_index with EVERY forced chunk size '
                 '1..size+2; on all files of 1..2 records EVERY interval in a call of its own.')
MANIFEST_NOTE = ('Trusted: NumPy, npstructures, CPython, observer, models/fai.py. LF only; arbitrary interval subsets '
                 'and files above the bound are not explored.')

FIELDS = ('chromosome', 'length', 'start', 'characters_per_line', 'line_length')
PLAIN = ['a', 'chr10', 'c']
DESC = ['a d', 'chr10 some text', 'c x']
SOURCES = ('library', 'supplied')


# ------------------------------------------------------------------ space
def shapes(L, W):
    """distinct record layouts: (length, width) with width < length, or (length, None) = single line"""
    out = []
    for l in range(1, L + 1):
        for w in list(range(1, min(W, l - 1) + 1)) + [None]:
            out.append((l, w))
    return out


def headers(n, scheme):
    if scheme == 'plain':
        return PLAIN[:n]
    if scheme == 'desc':
        return DESC[:n]
    if scheme == 'mixed':          # description on every second record
        return [DESC[i] if i % 2 == 1 else PLAIN[i] for i in range(n)]
    raise ValueError(scheme)


def bounds(tier, seed):
    if tier == 'quick':
        b = {'max_records': 3, 'L': 6, 'W': 4, 'reduced_L': 3, 'reduced_W': 2}
    else:
        b = {'max_records': 3, 'L': 9, 'W': 6, 'reduced_L': 4, 'reduced_W': 3}
    b.update({
        'final_newline': [True, False],
        'index_sources': list(SOURCES),
        'every_file': 'all files of 1..3 records x all shapes x final newline or none, plain names: library build '
                      '(open_indexed), contig lengths, every whole contig, all intervals in one call '
                      '(generic + string-encoded path) with library-written and supplied index',
        'names_with_description': 'description on every record / on every second record: all files of 1..2 records and '
                                  '3-record files of the reduced shapes',
        'rich_extras': 'reversed batch order, reversed label order, Genome.from_file(fasta).read_sequence() cross-section '
                       '(index written by Genome.from_file, and supplied index): files of 1..2 records and 3-record files '
                       'of the reduced shapes',
        'single_interval_calls': 'every [a,b) of every record, one call each: files of 1..2 records, plain names, generic + '
                                 'string-encoded path, library-written index and - unless its bytes are identical to it - supplied index',
        'chunked_index_build': 'every k in 1..size+2: all files of 1..2 records (plain names) and 3-record files of the '
                               'reduced shapes (plain and mixed names)',
        'duplicate_state_rule': 'operations on the supplied index are skipped when the library-written .fai is byte-identical '
                                'to the supplied one (3-record files outside the reduced shapes; single-interval calls everywhere); '
                                'counted in extra',
        'seed': 'unused: the whole space is enumerated in both tiers (seed only rotates shard order)',
    })
    return b


def shards(tier, seed):
    import bionumpy
    problems = fai.selftest(os.path.join(os.path.dirname(os.path.dirname(os.path.abspath(bionumpy.__file__))),
                                         'example_data'))
    if problems:
        raise AssertionError('models/fai.py disagrees with the example .fai files: %r' % (problems[:2],))
    b = bounds(tier, seed)
    sh = shapes(b['L'], b['W'])
    out = []
    for fn in (True, False):
        out.append({'tier': tier, 'seed': seed, 'n': 1, 'first': None, 'final_newline': fn})
    for first in sh:
        for fn in (True, False):
            out.append({'tier': tier, 'seed': seed, 'n': 2, 'first': list(first), 'final_newline': fn})
    n3 = []
    # NB: the shard count is kept well below 40 x (number of worker processes): the runner's pool recycles a worker
    # after 40 tasks and CPython 3.12.1 does not respawn it reliably (gh-115634)
    for first in sh:
        for fn in (True, False):
            n3.append({'tier': tier, 'seed': seed, 'n': 3, 'first': list(first), 'final_newline': fn})
    # simplest first (so that the first exemplar of a failure group is a small file); the seed only rotates the
    # order of the 3-record shards, never what is enumerated
    r = seed % max(1, len(n3))
    return out + n3[r:] + n3[:r]


def file_spec(shape_seq, scheme, final_newline):
    hs = headers(len(shape_seq), scheme)
    return {'records': [[hs[i], l, w] for i, (l, w) in enumerate(shape_seq)], 'final_newline': final_newline}


# ------------------------------------------------------------------ per-file context
class OpenFailed(Exception):
    def __init__(self, source, exc):
        Exception.__init__(self, source)
        self.source = source
        self.exc = exc


class Ctx:
    def __init__(self, spec, root):
        self.spec = spec
        self.root = root
        self.fn = bool(spec['final_newline'])
        self.records = [(h, fai.sequence_for(i, l), w) for i, (h, l, w) in enumerate(spec['records'])]
        self.data, self.rows, self.seqs = fai.build(self.records, self.fn)      # model error -> harness error
        self.names = [r[0] for r in self.rows]
        self.n = len(self.rows)
        self.any_description = any(' ' in h for h, _, _ in self.records)
        self._count = 0
        self._idx = {}
        self._plain = None
        self.calls = 0
        self.library_fai_text = None       # text of the .fai written by open_indexed in op_build
        self.encodings = {}

    # facts about record i / an interval (features are built from these only)
    def rec(self, i):
        name, rlen, offset, lenc, lenb = self.rows[i]
        return {'name': name, 'rlen': rlen, 'lenc': lenc, 'multi_line': rlen > lenc, 'last_line_full': rlen % lenc == 0,
                'unterminated': (not self.fn) and i == self.n - 1, 'description': ' ' in self.records[i][0]}

    def ends_at_unterminated_full_line(self, i, b):
        r = self.rec(i)
        return bool(r['unterminated'] and b == r['rlen'] and r['last_line_full'])

    def touches_break(self, i, a, b):
        r = self.rec(i)
        if not r['multi_line']:
            return False
        return fai.crosses_break(a, b, r['lenc']) or a % r['lenc'] == 0 and a > 0 or b % r['lenc'] == 0

    def fresh_fasta(self, with_index):
        self._count += 1
        p = os.path.join(self.root, 'f%d.fa' % self._count)
        with open(p, 'wb') as f:
            f.write(self.data)
        if with_index:
            with open(p + '.fai', 'w') as f:
                f.write(fai.fai_text(self.rows))
        return p

    def plain_fasta(self):
        if self._plain is None:
            self._plain = self.fresh_fasta(False)
            os.rename(self._plain, self._plain[:-3] + '_noindex.fa')
            self._plain = self._plain[:-3] + '_noindex.fa'
        return self._plain

    def adopt(self, source, idx):
        self._idx[source] = idx

    def indexed(self, source):
        if source not in self._idx:
            import bionumpy as bnp
            p = self.fresh_fasta(source == 'supplied')
            self.calls += 1
            try:
                self._idx[source] = bnp.open_indexed(p)
            except Exception as e:
                raise OpenFailed(source, e)
        return self._idx[source]

    def close(self):
        for idx in self._idx.values():
            _close(idx)
        self._idx = {}


def _close(idx):
    f = getattr(idx, '_f_obj', None)
    if f is not None:
        try:
            f.close()
        except Exception:
            pass


def _fail(kind, features, expected, observed, exc=None):
    return {'kind': kind, 'features': features, 'expected': expected, 'observed': observed,
            'traceback': tb_string(exc) if exc is not None else None}


def _raised(e):
    return 'raises %s: %s' % (exc_name(e), str(e)[:160])


def _ragged_text(r, decode_alphabet=False):
    """library ragged/encoded result -> list of str, or ('inconsistent', why) if the object contradicts itself"""
    try:
        v = observe.column(r)
    except observe.ObserverError as e:
        if 'ragged flat size' in str(e):
            return ('inconsistent', str(e))
        raise
    if isinstance(v, str):
        return [v]
    return [x if isinstance(x, str) else ''.join(x) for x in v]


# ------------------------------------------------------------------ oracle: index rows
def compare_rows(ctx, got, builder):
    fails = []
    exp = ctx.rows
    if len(got) != len(exp):
        fails.append(_fail('fai-row-count', {'builder': builder, 'n_records': ctx.n, 'final_newline': ctx.fn},
                           [list(r) for r in exp], [list(r) for r in got]))
        return fails, 0
    ambiguous = 0
    for i, (g, e) in enumerate(zip(got, exp)):
        r = ctx.rec(i)
        if g[0] != e[0]:
            fails.append(_fail('fai-name', {'builder': builder, 'description': r['description']}, e[0], g[0]))
        if g[1] != e[1]:
            fails.append(_fail('fai-length', {'builder': builder, 'multi_line': r['multi_line'],
                                              'last_line_full': r['last_line_full'], 'unterminated_last': r['unterminated']},
                               list(e), list(g)))
        if g[2] != e[2]:
            fails.append(_fail('fai-offset', {'builder': builder, 'record': 'first' if i == 0 else 'later',
                                              'description_before': any(ctx.rec(j)['description'] for j in range(i + 1))},
                               list(e), list(g)))
        if g[3] != e[3]:
            fails.append(_fail('fai-bases-per-line', {'builder': builder, 'multi_line': r['multi_line']}, list(e), list(g)))
        if g[4] != e[4]:
            if fai.lenb_is_ambiguous(ctx.records, ctx.fn, i) and g[4] == e[3]:
                ambiguous += 1
            else:
                fails.append(_fail('fai-bytes-per-line', {'builder': builder, 'multi_line': r['multi_line'],
                                                          'unterminated_last': r['unterminated']}, list(e), list(g)))
    return fails, ambiguous


def _read_written_fai(path, builder, ctx):
    """-> (rows or None, fails)"""
    if not os.path.isfile(path + '.fai'):
        return None, [_fail('fai-not-written', {'builder': builder}, path + '.fai exists', 'no such file')]
    with open(path + '.fai') as f:
        text = f.read()
    try:
        return fai.parse_fai_text(text), []
    except ValueError as e:
        return None, [_fail('fai-malformed', {'builder': builder, 'description': ctx.any_description},
                            fai.fai_text(ctx.rows), text)]


# ------------------------------------------------------------------ operations
def op_build(ctx, builder):
    import bionumpy as bnp
    assert builder == 'open_indexed'
    p = ctx.fresh_fasta(False)
    ctx.calls += 1
    try:
        idx = bnp.open_indexed(p)
    except Exception as e:
        return [_fail('fai-build-raises', {'builder': builder, 'description': ctx.any_description,
                                           'final_newline': ctx.fn}, 'an index', _raised(e), e)], 'build:raises:' + exc_name(e)
    ctx.adopt('library', idx)
    got, fails = _read_written_fai(p, builder, ctx)
    if os.path.isfile(p + '.fai'):
        with open(p + '.fai') as f:
            ctx.library_fai_text = f.read()
    if got is None:
        return fails, 'build:unreadable'
    f2, amb = compare_rows(ctx, got, builder)
    return fails + f2, 'build:%s:%d-rows%s' % (builder, len(got), ':lenb-ambiguous' if amb else '')


def op_build_chunked(ctx, k):
    from bionumpy.io.indexed_fasta import create_index
    from bionumpy.io.npdataclassreader import NpDataclassReader
    from bionumpy.io.multiline_buffer import FastaIdxBuffer
    p = ctx.plain_fasta()
    counter = [0]
    orig_get = FastaIdxBuffer.get_data

    def counting_get_data(self):
        counter[0] += 1
        return orig_get(self)

    old = NpDataclassReader.read_chunks.__defaults__
    assert isinstance(old, tuple) and len(old) == 2, old      # (min_chunk_size, max_chunk_size)
    FastaIdxBuffer.get_data = counting_get_data
    NpDataclassReader.read_chunks.__defaults__ = (int(k), None)
    ctx.calls += 1
    exc = None
    table = None
    try:
        table = create_index(p)
    except Exception as e:
        exc = e
    finally:
        NpDataclassReader.read_chunks.__defaults__ = old
        FastaIdxBuffer.get_data = orig_get
    builder = 'create_index-chunked'
    largest = max(len(h) + 2 + len('\n'.join(fai.lines_of(s, w))) + 1 for h, s, w in ctx.records)
    if exc is not None:
        if k < largest:
            return [], 'chunked:raises-small-k:' + exc_name(exc), {'raising': 1, 'chunks': counter[0]}
        return [_fail('fai-build-raises', {'builder': builder, 'description': ctx.any_description,
                                           'final_newline': ctx.fn}, 'an index', _raised(exc), exc)], \
            'chunked:raises:' + exc_name(exc), {'chunks': counter[0]}
    cols = [observe.column(getattr(table, f)) for f in FIELDS]
    got = [tuple([cols[0][i]] + [int(c[i]) for c in cols[1:]]) for i in range(len(cols[0]))]
    fails, amb = compare_rows(ctx, got, builder)
    return fails, 'chunked:%d-chunks' % min(counter[0], 9), {'chunks': counter[0]}


def op_lengths(ctx, source):
    idx = ctx.indexed(source)
    ctx.calls += 1
    try:
        d = idx.get_contig_lengths()
        got = {str(k): int(v) for k, v in d.items()}
    except Exception as e:
        return [_fail('contig-lengths', {'multi_line': any(ctx.rec(i)['multi_line'] for i in range(ctx.n))},
                      {r[0]: r[1] for r in ctx.rows}, _raised(e), e)], 'lengths:raises:' + exc_name(e)
    fails = []
    if sorted(got) != sorted(ctx.names):
        fails.append(_fail('contig-names', {'index': source, 'description': ctx.any_description}, ctx.names, sorted(got)))
    for i, row in enumerate(ctx.rows):
        if row[0] in got and got[row[0]] != row[1]:
            fails.append(_fail('contig-lengths', {'multi_line': ctx.rec(i)['multi_line']},
                               {r[0]: r[1] for r in ctx.rows}, got))
    return fails, 'lengths:' + ('ok' if not fails else 'differs')


def _contig_features(ctx, source, i, via):
    r = ctx.rec(i)
    return {'via': via, 'multi_line': r['multi_line'], 'last_line_full': r['last_line_full'],
            'record': 'first' if i == 0 else 'later', 'unterminated_last': r['unterminated']}


def op_contig(ctx, source, i):
    idx = ctx.indexed(source)
    name = ctx.names[i]
    ctx.calls += 1
    try:
        got = idx[name]
    except Exception as e:
        return [_fail('whole-contig', _contig_features(ctx, source, i, 'IndexedFasta'), ctx.seqs[name], _raised(e), e)], \
            'contig:raises:' + exc_name(e)
    text = ''.join(_ragged_text(got)) if not isinstance(got, str) else got
    if text != ctx.seqs[name]:
        return [_fail('whole-contig', _contig_features(ctx, source, i, 'IndexedFasta'), ctx.seqs[name], text)], 'contig:differs'
    return [], 'contig:lines=%d' % len(fai.lines_of(ctx.seqs[name], ctx.records[i][2]))


def op_contigs_kept(ctx, source, order):
    """Deferred observation: every whole contig is fetched (largest first or last), all results are KEPT and only then
    decoded.  A result that was right when returned must still be right after later fetches on the same object
    (a read buffer shared between fetches shows only then)."""
    idx = ctx.indexed(source)
    names = list(ctx.names)
    names.sort(key=lambda n: len(ctx.seqs[n]), reverse=(order == 'largest-first'))
    kept = []
    try:
        for name in names:
            ctx.calls += 1
            kept.append((name, idx[name]))
    except Exception as e:
        return [], 'contigs-kept:raises:' + exc_name(e)      # a raising fetch is judged by the 'contig' operation
    fails = []
    for name, got in kept:
        text = ''.join(_ragged_text(got)) if not isinstance(got, str) else got
        if text != ctx.seqs[name]:
            i = ctx.names.index(name)
            f = _contig_features(ctx, source, i, 'IndexedFasta')
            f['fetch_order'] = order
            fails.append(_fail('whole-contig-changed-by-later-fetch', f, ctx.seqs[name], text))
    return fails, 'contigs-kept:%s' % ('differs' if fails else 'ok')


def interval_list(ctx, ivs_spec):
    if isinstance(ivs_spec, list):
        return [tuple(x) for x in ivs_spec]
    full = [(i, a, b) for i in range(ctx.n) for (a, b) in fai.all_intervals(ctx.rows[i][1])]
    if ivs_spec == 'all':
        return full
    if ivs_spec == 'all-reversed':
        return full[::-1]
    if ivs_spec == 'all-terminated':
        return [(i, a, b) for (i, a, b) in full if not ctx.ends_at_unterminated_full_line(i, b)]
    raise ValueError(ivs_spec)


def _feature_path(path):
    return 'string-encoded' if path.startswith('string-encoded') else path


def _interval_features(ctx, source, path, mode, i, a, b):
    """facts about the interval: where it lies relative to the line breaks of its record"""
    r = ctx.rec(i)
    lenc = r['lenc']
    if ctx.ends_at_unterminated_full_line(i, b):
        geometry = 'ends-at-unterminated-full-last-line'
    elif not r['multi_line']:
        geometry = 'single-line-record'
    else:
        geometry = 'crosses-break=%d,start-on-break=%d,stop-on-break=%d' % (
            fai.crosses_break(a, b, lenc), a % lenc == 0 and a > 0, b % lenc == 0)
    return {'path': _feature_path(path), 'mode': mode, 'geometry': geometry}


def _batch_features(path, has_unterminated):
    return {'path': _feature_path(path), 'contains_end_at_unterminated_full_last_line': has_unterminated}


def _make_intervals(ctx, ivs, path):
    import bionumpy as bnp
    from bionumpy.datatypes import Interval
    from bionumpy.encodings.string_encodings import StringEncoding
    I = Interval.from_entry_tuples([(ctx.names[i], a, b) for (i, a, b) in ivs])
    if path == 'generic':
        return I
    if path not in ctx.encodings:       # one encoding object per label order, reused for every call on this file
        labels = list(ctx.names) if path == 'string-encoded' else list(ctx.names)[::-1]
        ctx.encodings[path] = StringEncoding(labels)
    return bnp.bnpdataclass.replace(I, chromosome=bnp.as_encoded_array(I.chromosome, ctx.encodings[path]))


def _judge_intervals(ctx, source, path, mode, order, ivs, call):
    """call() -> library result.  -> fails, outcome"""
    expected = [ctx.seqs[ctx.names[i]][a:b] for (i, a, b) in ivs]
    if path == 'genome':
        expected = [e.upper() for e in expected]
    has_unterminated = any(ctx.ends_at_unterminated_full_line(i, b) for (i, a, b) in ivs)
    ctx.calls += 1
    try:
        r = call()
    except Exception as e:
        if mode == 'single':
            (i, a, b) = ivs[0]
            return [_fail('intervals', _interval_features(ctx, source, path, mode, i, a, b), expected, _raised(e), e)], \
                'interval:raises:' + exc_name(e)
        return [_fail('intervals-batch', _batch_features(path, has_unterminated),
                      expected, _raised(e), e)], 'batch:raises:' + exc_name(e)
    got = _ragged_text(r)
    if path == 'genome' and isinstance(got, list):
        got = [g.upper() for g in got]
    if isinstance(got, tuple) or len(got) != len(expected):
        if mode == 'single':
            (i, a, b) = ivs[0]
            return [_fail('intervals', _interval_features(ctx, source, path, mode, i, a, b), expected, got)], 'interval:malformed'
        return [_fail('intervals-batch', _batch_features(path, has_unterminated),
                      expected, got)], 'batch:malformed'
    fails = []
    seen = set()
    for (i, a, b), e, g in zip(ivs, expected, got):
        if e != g:
            feats = _interval_features(ctx, source, path, mode, i, a, b)
            key = tuple(sorted(feats.items()))
            if key in seen:
                continue
            seen.add(key)
            fails.append(_fail('intervals', feats, {'interval': [ctx.names[i], a, b], 'sequence': e},
                               {'interval': [ctx.names[i], a, b], 'sequence': g}))
    if mode == 'single':
        (i, a, b) = ivs[0]
        r_ = ctx.rec(i)
        nb = ((b - 1) // r_['lenc'] - a // r_['lenc']) if r_['multi_line'] else 0
        return fails, 'interval:%s:breaks=%d:%s' % (path, min(nb, 4), 'ok' if not fails else 'differs')
    return fails, 'batch:%s:%s:%s' % (path, order, 'ok' if not fails else 'differs')


def op_intervals(ctx, source, path, ivs_spec):
    idx = ctx.indexed(source)
    ivs = interval_list(ctx, ivs_spec)
    if not ivs:
        return [], 'batch:empty'
    mode = 'single' if isinstance(ivs_spec, list) and len(ivs) == 1 else 'batch'
    order = ivs_spec if isinstance(ivs_spec, str) else 'explicit'
    I = _make_intervals(ctx, ivs, path)
    return _judge_intervals(ctx, source, path, mode, order, ivs, lambda: idx.get_interval_sequences(I))


def op_interleave(ctx, source, i):
    """History on ONE IndexedFasta object that mixes the access routes: for every split point b of contig i,
    [generic intervals (i,0,b)] ; [another route: a whole contig, or the string-encoded batch path] ; [generic intervals
    (i,b,L)] -- back-to-back windows with a read through another route in between.  Every answer is judged."""
    idx = ctx.indexed(source)
    L = ctx.rows[i][1]
    fails, bad = [], 0
    other = ctx.names[(i + 1) % ctx.n]
    for b in range(1, L):
        for route in ('whole-contig', 'string-encoded'):
            steps = [('generic', [(i, 0, b)]), None, ('generic', [(i, b, L)])]
            for k, st in enumerate(steps):
                if st is None:
                    ctx.calls += 1
                    try:
                        if route == 'whole-contig':
                            text = ''.join(_ragged_text(idx[other]))
                            ok = text == ctx.seqs[other]
                        else:
                            ivs2 = [(i, 0, L)]
                            got = _ragged_text(idx.get_interval_sequences(_make_intervals(ctx, ivs2, 'string-encoded')))
                            ok = got == [ctx.seqs[ctx.names[i]]]
                    except observe.ObserverError:
                        raise
                    except Exception:
                        ok = True       # judged by the contig / intervals operations; here it only moves the file cursor
                    continue
                path, ivs = st
                if any(ctx.ends_at_unterminated_full_line(j, e) for (j, a, e) in ivs):
                    break       # (known separately: an interval ending at an unterminated full last line)
                f, _ = _judge_intervals(ctx, source, path, 'single', 'explicit', ivs,
                                        lambda ivs=ivs, path=path: idx.get_interval_sequences(_make_intervals(ctx, ivs, path)))
                for x in f:
                    x['features'] = dict(x['features'], history='generic ; %s ; generic (adjacent windows)' % route, step=k)
                fails += f
                bad += bool(f)
    return fails, 'interleave:%s' % ('ok' if not bad else 'differs')


def op_genome(ctx, source):
    """Genome.from_file(fasta).read_sequence() cross-section; with source == 'library' the FASTA has no index, so
    Genome.from_file writes it (genome.py), and the written text is judged like any other library-built index."""
    import bionumpy as bnp
    from bionumpy.datatypes import Interval
    fails = []
    p = ctx.fresh_fasta(source == 'supplied')
    g = None
    ctx.calls += 1
    try:
        g = bnp.Genome.from_file(p)
    except Exception as e:
        fails.append(_fail('genome-from-file-raises', {'index': source, 'description': ctx.any_description},
                             'a Genome', _raised(e), e))
    amb = 0
    if source == 'library':
        got, f1 = _read_written_fai(p, 'Genome.from_file', ctx)
        fails += f1
        if got is not None:
            f2, amb = compare_rows(ctx, got, 'Genome.from_file')
            fails += f2
    if g is None:
        return fails, 'genome:from_file-raises'
    true_sizes = {r[0]: r[1] for r in ctx.rows}
    ctx.calls += 1
    try:
        sizes = {str(k): int(v) for k, v in g.get_genome_context().chrom_sizes.items()}
    except Exception as e:
        sizes = _raised(e)
    if sizes != true_sizes:
        fails.append(_fail('genome-chrom-sizes', {'index': source, 'description': ctx.any_description,
                                                  'multi_line': any(ctx.rec(i)['multi_line'] for i in range(ctx.n))},
                           true_sizes, sizes))
    ctx.calls += 1
    try:
        gs = g.read_sequence()
    except Exception as e:
        fails.append(_fail('genome-read-sequence-raises', {'index': source, 'description': ctx.any_description},
                               'a GenomicSequence', _raised(e), e))
        return fails, 'genome:read_sequence-raises'
    try:
        for i, name in enumerate(ctx.names):
            ctx.calls += 1
            try:
                text = ''.join(_ragged_text(gs[name])).upper()
            except observe.ObserverError:
                raise
            except Exception as e:
                fails.append(_fail('whole-contig', _contig_features(ctx, source, i, 'Genome'), ctx.seqs[name].upper(),
                                   _raised(e), e))
                continue
            if text != ctx.seqs[name].upper():
                fails.append(_fail('whole-contig', _contig_features(ctx, source, i, 'Genome'), ctx.seqs[name].upper(), text))
        specs = ['all']
        if any(ctx.ends_at_unterminated_full_line(i, b) for (i, a, b) in interval_list(ctx, 'all')):
            specs.append('all-terminated')
        for spec in specs:
            ivs = interval_list(ctx, spec)
            if not ivs:
                continue
            I = Interval.from_entry_tuples([(ctx.names[i], a, b) for (i, a, b) in ivs])
            f3, _ = _judge_intervals(ctx, source, 'genome', 'batch', spec, ivs, lambda: gs[g.get_intervals(I)])
            fails += f3
        fails += _genome_history(ctx, source, g)
    finally:
        _close(getattr(gs, '_fasta', None))
    return fails, 'genome:%s%s' % ('ok' if not fails else 'differs', ':lenb-ambiguous' if amb else '')


_TWIN = str.maketrans('ACGTacgt', 'CGTAcgta')


def _genome_history(ctx, source, g):
    """History on ONE Genome object: read_sequence() was called above; now read_sequence(twin.fa) where twin.fa has the
    same names, lengths and line layout but other bases (A->C->G->T->A), then read_sequence() again: every call returns
    the bases of the file it was asked for."""
    fails = []
    records2 = [(h, seq.translate(_TWIN), w) for h, seq, w in ctx.records]
    data2, rows2, seqs2 = fai.build(records2, ctx.fn)
    ctx._count += 1
    p2 = os.path.join(ctx.root, 'twin%d.fa' % ctx._count)
    with open(p2, 'wb') as f:
        f.write(data2)
    if source == 'supplied':
        with open(p2 + '.fai', 'w') as f:
            f.write(fai.fai_text(rows2))
    for step, (arg, seqs) in enumerate((((p2,), seqs2), ((), ctx.seqs))):
        ctx.calls += 1
        gs = None
        try:
            gs = g.read_sequence(*arg)
            for i, name in enumerate(ctx.names):
                ctx.calls += 1
                text = ''.join(_ragged_text(gs[name])).upper()
                if text != seqs[name].upper():
                    fails.append(_fail('genome-asked-for-another-fasta', dict(_contig_features(ctx, source, i, 'Genome'),
                                       call='read_sequence(other file)' if arg else 'read_sequence() again'),
                                       seqs[name].upper(), text))
                    break
        except observe.ObserverError:
            raise
        except Exception as e:
            fails.append(_fail('genome-asked-for-another-fasta', {'index': source, 'call': 'read_sequence(other file)' if arg
                               else 'read_sequence() again', 'raises': True}, 'a GenomicSequence of the requested file', _raised(e), e))
        finally:
            _close(getattr(gs, '_fasta', None))
    return fails


def exec_op(ctx, op):
    """-> (fails, outcome, info)"""
    info = {}
    try:
        kind = op[0]
        if kind == 'build':
            out = op_build(ctx, op[1])
        elif kind == 'build-chunked':
            out = op_build_chunked(ctx, op[1])
        elif kind == 'lengths':
            out = op_lengths(ctx, op[1])
        elif kind == 'contig':
            out = op_contig(ctx, op[1], op[2])
        elif kind == 'contigs-kept':
            out = op_contigs_kept(ctx, op[1], op[2])
        elif kind == 'intervals':
            out = op_intervals(ctx, op[1], op[2], op[3])
        elif kind == 'genome':
            out = op_genome(ctx, op[1])
        elif kind == 'interleave':
            out = op_interleave(ctx, op[1], op[2])
        else:
            raise ValueError(op)
    except OpenFailed as of:
        return ([_fail('open-indexed-raises', {'index': of.source, 'description': ctx.any_description,
                                               'final_newline': ctx.fn}, 'an IndexedFasta', _raised(of.exc), of.exc)],
                'open:raises:' + exc_name(of.exc), {'open_failed': of.source})
    if len(out) == 3:
        return out
    return out[0], out[1], info


def op_nontrivial(ctx, op, info):
    kind = op[0]
    some_multi = any(ctx.rec(i)['multi_line'] for i in range(ctx.n))
    if kind in ('build', 'lengths', 'genome'):
        return some_multi or ctx.n >= 2
    if kind == 'build-chunked':
        return info.get('chunks', 0) >= 2
    if kind == 'contig':
        return ctx.rec(op[2])['multi_line']
    if kind == 'contigs-kept':
        return ctx.n >= 2
    if kind == 'interleave':
        return True
    if kind == 'intervals':
        return any(ctx.touches_break(i, a, b) for (i, a, b) in interval_list(ctx, op[3]))
    return False


# ------------------------------------------------------------------ program per file
def ops_for(ctx, level):
    """level: {'rich': bool, 'singles': bool, 'chunked': bool}.  Every file gets: library build (open_indexed), contig
    lengths, every whole contig and the all-intervals batch through the generic and the string-encoded path, for both
    index sources.  'rich' adds the reversed batch order, the string encoding with reversed label order and the Genome
    cross-section (Genome.from_file on a FASTA without index, which writes it, and on the supplied index).  On files
    that are not 'rich' the operations on the supplied index are skipped as a duplicate state when the .fai the library
    has just written is byte-identical to the supplied one (same FASTA bytes + same index bytes = same inputs); the
    same rule is applied to the single-interval calls on every file."""
    has_unterm = any(ctx.ends_at_unterminated_full_line(i, b) for (i, a, b) in interval_list(ctx, 'all'))
    yield ['build', 'open_indexed']
    for s in SOURCES:
        if s == 'supplied' and not level['rich'] and ctx.library_fai_text == fai.fai_text(ctx.rows):
            yield None
            continue
        yield ['lengths', s]
        for i in range(ctx.n):
            yield ['contig', s, i]
        if ctx.n >= 2:
            yield ['contigs-kept', s, 'largest-first']
            yield ['contigs-kept', s, 'largest-last']
        plan = [('generic', 'all'), ('string-encoded', 'all')]
        if level['rich']:
            plan += [('generic', 'all-reversed'), ('string-encoded', 'all-reversed')]
            if ctx.n >= 2:
                plan.append(('string-encoded-reversed-labels', 'all'))
        for path, spec in plan:
            yield ['intervals', s, path, spec]
        if has_unterm:
            for path in sorted({p for p, _ in plan}):
                yield ['intervals', s, path, 'all-terminated']
        for i in range(ctx.n):
            if ctx.rows[i][1] >= 2:
                yield ['interleave', s, i]
        if level['rich']:
            yield ['genome', s]
    if level['singles']:
        for s in SOURCES:
            if s == 'supplied' and ctx.library_fai_text == fai.fai_text(ctx.rows):
                yield None          # same FASTA bytes + same .fai bytes as the library-index singles: duplicate state
                continue
            for path in ('generic', 'string-encoded'):
                for (i, a, b) in interval_list(ctx, 'all'):
                    yield ['intervals', s, path, [[i, a, b]]]
    if level['chunked']:
        for k in range(1, len(ctx.data) + 3):
            yield ['build-chunked', k]


def run_file(res, spec, level, root):
    ctx = Ctx(spec, root)
    dead_sources = set()
    try:
        for op in ops_for(ctx, level):
            if op is None:
                res.extra['supplied_index_ops_skipped_as_duplicate_state(.fai bytes identical to library-written)'] += 1
                continue
            if len(op) > 1 and op[1] in dead_sources and op[0] in ('lengths', 'contig', 'contigs-kept', 'intervals'):
                res.extra['ops_pruned_after_open_failure'] += 1
                continue
            before = ctx.calls
            fails, outcome, info = exec_op(ctx, op)
            res.evaluations += 1
            res.states += 1
            res.planned += 1
            res.traces += 1
            res.transitions += ctx.calls - before
            res.raising += info.get('raising', 0)
            if 'open_failed' in info:
                dead_sources.add(info['open_failed'])
            if op_nontrivial(ctx, op, info):
                res.nontrivial += 1
            res.outcome(outcome)
            if 'lenb-ambiguous' in outcome:
                res.extra['lenb_of_unterminated_single_last_line_accepted_as_lenc_or_lenc+1'] += 1
            case = {'file': spec, 'op': op}
            for f in fails:
                res.fail(f['kind'], case, f['features'], expected=f['expected'], observed=f['observed'], tb=f['traceback'])
            if len(res.samples) < 3 and op[0] in ('build', 'intervals', 'genome') and \
                    op[0] not in [x['op'][0] for x in res.samples] and (op[0] == 'build' or op_nontrivial(ctx, op, info)):
                res.sample({'file': ctx.data.decode('ascii'), 'index_rows': [list(r) for r in ctx.rows], 'op': op,
                            'outcome': outcome})
    finally:
        ctx.close()
        for name in os.listdir(root):
            try:
                os.unlink(os.path.join(root, name))
            except OSError:
                pass


def levels_for(n, scheme, shape_seq, reduced):
    """which operation groups run on this file (see bounds())"""
    is_reduced = all(tuple(s) in reduced for s in shape_seq)
    if n <= 2:
        return {'rich': True, 'singles': scheme == 'plain', 'chunked': scheme == 'plain'}
    if scheme == 'plain':
        return {'rich': is_reduced, 'singles': False, 'chunked': is_reduced}
    if not is_reduced:
        return None
    return {'rich': True, 'singles': False, 'chunked': scheme == 'mixed'}


def files_of_shard(desc):
    b = bounds(desc['tier'], desc.get('seed', 0))
    sh = shapes(b['L'], b['W'])
    reduced = set(shapes(b['reduced_L'], b['reduced_W']))
    n = desc['n']
    fn = desc['final_newline']
    if n == 1:
        seqs = [(s,) for s in sh]
    else:
        first = tuple(desc['first'])
        seqs = [(first,) + rest for rest in itertools.product(sh, repeat=n - 1)]
    for shape_seq in seqs:
        schemes = ['plain', 'desc'] + (['mixed'] if n >= 2 else [])
        for scheme in schemes:
            level = levels_for(n, scheme, shape_seq, reduced)
            if level is None:
                continue
            yield file_spec(shape_seq, scheme, fn), level


def run_shard(desc, deadline):
    import time
    res = Result()
    cpu0 = time.process_time()
    root = tempfile.mkdtemp(dir='/dev/shm', prefix='c17_')
    try:
        for spec, level in files_of_shard(desc):
            if deadline.expired():
                res.capped = True
                break
            run_file(res, spec, level, root)
            res.extra['files'] += 1
    finally:
        shutil.rmtree(root, ignore_errors=True)
    res.extra['cpu_seconds(informational)'] += int(round(time.process_time() - cpu0))
    return res


def _mask(expected, observed):
    """observed value with every position that differs from the expected one replaced by '?'.  Used only for the
    verdict of the double-replay determinism gate: a wrong read may hand back uninitialised memory (np.empty), whose
    bytes differ from process to process although the failure itself is perfectly reproducible."""
    if isinstance(observed, str) and observed.startswith('raises '):
        return observed.split(':')[0]
    if isinstance(expected, str) and isinstance(observed, str):
        if len(expected) != len(observed):
            return '<%d characters>' % len(observed)
        return ''.join(o if o == e else '?' for e, o in zip(expected, observed))
    if isinstance(expected, dict) and isinstance(observed, dict):
        return {k: _mask(expected.get(k), observed[k]) for k in sorted(observed)}
    if isinstance(expected, (list, tuple)) and isinstance(observed, (list, tuple)):
        if len(expected) != len(observed):
            return '<%d items>' % len(observed)
        return [_mask(e, o) for e, o in zip(expected, observed)]
    if expected == observed:
        return observed
    return observed if isinstance(observed, (int, bool, type(None))) else '<%s>' % type(observed).__name__


def replay_case(case):
    import sys
    root = tempfile.mkdtemp(dir='/dev/shm', prefix='c17r_')
    try:
        ctx = Ctx(case['file'], root)
        try:
            fails, outcome, info = exec_op(ctx, case['op'])
        finally:
            ctx.close()
    finally:
        shutil.rmtree(root, ignore_errors=True)
    gate = '--json' in sys.argv      # the runner's fresh-process determinism gate; a human replay shows the raw bytes
    return [{'kind': f['kind'], 'features': f['features'], 'expected': f['expected'],
             'observed': _mask(f['expected'], f['observed']) if gate else f['observed'],
             'traceback': f['traceback']} for f in fails]


def repro_py(case):
    spec = case['file']
    op = case['op']
    records = [(h, fai.sequence_for(i, l), w) for i, (h, l, w) in enumerate(spec['records'])]
    data, rows, seqs = fai.build(records, bool(spec['final_newline']))
    names = [r[0] for r in rows]
    head = '''import os, tempfile, shutil
import bionumpy as bnp
from bionumpy.datatypes import Interval
from bionumpy.encodings.string_encodings import StringEncoding
data = %r
true_rows = %r      # name, length, offset of first base, bases per line, bytes per line
sequences = %r
d = tempfile.mkdtemp()
path = os.path.join(d, 'x.fa')
open(path, 'wb').write(data)
''' % (data, rows, seqs)
    supplied = len(op) > 1 and op[1] == 'supplied'
    if supplied:
        head += "open(path + '.fai', 'w').write(%r)      # index supplied faidx-style\n" % fai.fai_text(rows)
    kind = op[0]
    if kind == 'build':
        body = '''idx = bnp.open_indexed(path)
print(open(path + '.fai').read())
print('expected rows:', true_rows)
'''
    elif kind == 'build-chunked':
        body = '''from bionumpy.io.indexed_fasta import create_index
from bionumpy.io.npdataclassreader import NpDataclassReader
NpDataclassReader.read_chunks.__defaults__ = (%d, None)     # force the chunk size (not a public parameter of create_index)
print(create_index(path))
print('expected rows:', true_rows)
''' % op[1]
    elif kind == 'lengths':
        body = '''idx = bnp.open_indexed(path)
print(idx.get_contig_lengths(), 'expected', {r[0]: r[1] for r in true_rows})
assert idx.get_contig_lengths() == {r[0]: r[1] for r in true_rows}
'''
    elif kind == 'contig':
        body = '''idx = bnp.open_indexed(path)
name = %r
print(idx[name].to_string(), 'expected', sequences[name])
assert idx[name].to_string() == sequences[name]
''' % names[op[2]]
    elif kind == 'contigs-kept':
        body = '''idx = bnp.open_indexed(path)
kept = {name: idx[name] for name in sorted(sequences, key=lambda n: len(sequences[n]), reverse=%r)}
for name, got in kept.items():
    print(name, got.to_string(), 'expected', sequences[name])
    assert got.to_string() == sequences[name]
''' % (op[2] == 'largest-first')
    elif kind == 'intervals':
        ctx_ivs = op[3]
        if isinstance(ctx_ivs, list):
            ivs = [(names[i], a, b) for (i, a, b) in ctx_ivs]
            ivs_src = repr(ivs)
        else:
            ivs_src = '[(n, a, b) for n in sequences for b in range(1, len(sequences[n]) + 1) for a in range(b)]'
            if ctx_ivs == 'all-reversed':
                ivs_src += '[::-1]'
            if ctx_ivs == 'all-terminated':
                ivs_src += '   # minus those ending at the unterminated full last line'
        body = '''idx = bnp.open_indexed(path)
ivs = %s
I = Interval.from_entry_tuples(ivs)
''' % ivs_src
        if op[2] != 'generic':
            labels = names if op[2] == 'string-encoded' else names[::-1]
            body += 'I = bnp.bnpdataclass.replace(I, chromosome=bnp.as_encoded_array(I.chromosome, StringEncoding(%r)))\n' % (labels,)
        body += '''got = idx.get_interval_sequences(I)
expected = [sequences[n][a:b] for n, a, b in ivs]
print(got, expected)
'''
    else:
        body = '''g = bnp.Genome.from_file(path)
gs = g.read_sequence()
for n in sequences:
    print(n, gs[n].to_string(), 'expected', sequences[n].upper())
ivs = [(n, a, b) for n in sequences for b in range(1, len(sequences[n]) + 1) for a in range(b)]
print(gs[g.get_intervals(Interval.from_entry_tuples(ivs))])
'''
    return head + 'try:\n' + ''.join('    ' + l + '\n' for l in body.splitlines()) + 'finally:\n    shutil.rmtree(d)\n'
