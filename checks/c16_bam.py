"""C16 - BAM records decode to the values the BAM specification defines.

Shape A (product space, union of families).  Every file is produced by the independent spec-level encoder
models/bam_spec.py (SAMv1 section 4) from explicit alignment records, compressed as real BGZF (or single-member
gzip), written to a scratch file under /dev/shm and read through the public seam bnp.open(...).  On every file a
fixed program of *clauses* is executed on the real library; a case is (file, clause) and replays alone:

  decode      bnp.open(x.bam).read() with the default (lazy) reader and with lazy=False: each of the nine fields of
              every record equals the encoder's input (reference name: none for refID -1; read name; flag; 0-based
              position; mapq; CIGAR ops; CIGAR lengths; sequence letters; qualities)
  interval    bnp.open(x.bam, buffer_type=BamIntervalBuffer).read() and bnp.alignments.alignment_to_interval(table):
              chromosome, start = pos, stop = pos + sum(len of M D N = X), strand from flag 0x10; afterwards the records that
              were converted still decode to the same values and a second conversion of the same table gives the same
  chunked     bnp.open(x.bam).read_chunks(k) for EVERY k from the largest record to (bytes of all records)+2: the
              concatenation of the chunks' records equals the whole read's records
  write       with bnp.open(y.bam,'w') as f: f.write(selection of the lazily read table): y.bam is decoded by the
              INDEPENDENT decoder (records, including mate fields and tag bytes, equal the selected source records;
              the same reference names) and re-read by bionumpy (equal to the selected rows of the first read);
              selections: whole, masks, reversal, repeats, slices, composed selections, chunk stream, piecewise, and
              write HISTORIES: a selection is written first, then the same object again / a further selection of it /
              the table it was taken from is written and judged (writing compacts a lazy selection in place).
              Per C04 (BAM roots) the written record bytes must equal the source record bytes.

Families (see bounds()): single-record shape product; sequence contents; CIGAR lists; scalar fields; qualities;
tag bytes; headers / reference tables; multi-record files x all chunk sizes x all selections; BGZF member boundary at
every byte offset; large records (n_cigar_op around 2**14 and 2**16, l_seq > 64 KiB, record spanning BGZF blocks).

Failure kinds name the oracle clause: decode:<field> / decode:read-raises / decode:row-count, interval:<field> /
interval:raises, chunked:differs / chunked:raises, write:raises / write:not-a-valid-bam / write:records-differ /
write:c04-record-bytes-differ / write:reread-differs / write:reread-raises.  Features are facts about the file and
about the records that decode wrongly (is every wrong record one without a reference? does every wrong record have
>= 2**14 CIGAR operations? has the file an empty reference table?), never about the symptom.
"""
import base64
import itertools
import os
import shutil
import tempfile
import time

import numpy as np

from engine import observe
from engine.result import Result, tb_string
from models import bam_spec as S
from .common import exc_name

PROPERTY = 'C16'
LEVEL = 'model_checking'
TECHNIQUE = ('bounded exhaustive enumeration of BAM files built by an independent spec-level encoder x every chunk '
             'size x write selections, executed on the real reader/writer against the encoder inputs and an '
             'independent spec-level decoder')
RULE = ('a case is (file, clause): file = every member of the stated finite families of alignment-record lists '
        '(shape product name-length x n_cigar x l_seq x quality kind x tags x mapped/unmapped; all sequences over '
        '{=,A,C,N} up to the length bound and all 16 codes; all CIGAR lists up to 3 ops over the nine kinds; scalar '
        'value products; all ordered 2..4-record files over the variant set; every BGZF member boundary offset); '
        'clause = one whole read (lazy or eager), one interval conversion, one chunked read with one chunk size, or '
        'one write of one selection; non-trivial = decode/interval on a file with >= 1 record whose variable-length '
        'offsets matter (some record has a CIGAR, a sequence or tags), chunked read that completed and delivered >= 2 '
        'chunks, write of a non-empty selection')
ASSUMPTIONS = [
    '"valid BAM" = what models/bam_spec.py encodes: refID in -1..n_ref-1, read name 1..254 printable characters, '
    'n_cigar_op <= 65535 with op codes 0..8, alignment end <= 2**31-1, qualities 0..93 or 0xFF-filled when absent, '
    'tag bytes well-formed; BGZF blocks with the BC extra field and the EOF block (plus Python-style single-member gzip)',
    'a record "without reference" is one whose refID is -1 (the specification derives RNAME from refID, not from flag '
    '0x4); for such a record any of "" or "*" is accepted as "none"',
    'the value of the quality column of a record whose qualities are absent (0xFF fill) is not judged',
    'chunk sizes are counted in bytes of the uncompressed stream after the header, the largest record includes its '
    'block_size field; k ranges over EVERY value from that size to total+2',
    'written files are decoded leniently at the gzip layer (any RFC 1952 multi-member stream): whether the writer '
    'produces block-structured BGZF and the EOF block is counted in `extra`, not judged (the statement only asks that '
    'the output decodes to the same records)',
    'writing is judged for tables read with the default (lazy) reader, whole or selected by indexing; writing an '
    'eagerly read table, a concatenation of tables or a 0-record file is executed and counted in `extra` only '
    '(C05 / C04 territory)',
    'the header is compared through the reference names the records resolve to; header text bytes are counted, not judged',
    'files above the stated bounds are not explored; no sampling below them',
    'trusted: NumPy, npstructures, CPython zlib/gzip, engine/observe.py, models/bam_spec.py (its decoder reproduces '
    'the samtools-written SAM twins of the repository\'s example BAMs and its encoder their record bytes: checked at '
    'the start of every run)',
]
EXPLANATION = ('every small BAM file is encoded from explicit records by a spec-level encoder, written to a scratch file, '
               'and the real reader, interval converter and writer are run on it for every chunk size and selection')
MANIFEST_TEXT = ('Exhaustive enumeration of BAM files built by an independent SAMv1-section-4 encoder (real BGZF): all 576 '
                 'single-record shapes (name length 1/2/254 x 0..3 CIGAR ops x l_seq 0..5 x qualities present/absent x '
                 'tags x refID -1), all sequences over {=,A,C,N} up to length 5 and all byte values of the packed '
                 'sequence, all CIGAR lists of <= 3 ops over the nine kinds with lengths 0,1,2,2**28-1, flag x mapq x '
                 'position products, reference tables of 0..3 names, all ordered files of 2 records over 6 record variants, of 3 '
                 'records over 4 of them plus a seed-rotated quarter of the rest (quick) / all ordered files of 2..4 records '
                 'over 6 variants and of 5 records over 4 (thorough) x EVERY chunk size from the largest record to '
                 'total+2 x up to 15 write selections (incl. permutations that keep the first and the last record in place) and 20 write histories (a selection is written, then the same object / a further selection of it / its parent table is written and judged), the BGZF member boundary at every byte offset, and records with 16383/16384/65535 CIGAR ops '
                 'or > 64 KiB. Each field of each record is compared with the encoder input (lazy and eager), intervals with '
                 'pos + reference-consuming lengths and strand from 0x10, chunked reads with the whole read, and written '
                 'files are decoded by an independent decoder and re-read by bionumpy.')
MANIFEST_NOTE = ('Trusted: NumPy, npstructures, CPython zlib, observer, models/bam_spec.py (self-tested against the '
                 'samtools SAM twins of example_data). BGZF conformance of written files, eager/concatenated writes and '
                 'files above the bounds are not judged.')

FIELDS = ['chromosome', 'name', 'flag', 'position', 'mapq', 'cigar_op', 'cigar_length', 'sequence', 'quality']
IV_JUDGED = ['chromosome', 'start', 'stop', 'strand']
IV_ALL = ['chromosome', 'start', 'stop', 'name', 'score', 'strand']
NONE_NAMES = ('', '*')
BIG_CIGAR = 1 << 14
MAXLEN = (1 << 28) - 1

REFS2 = [['chr1', 1000], ['chrTwo', 2 ** 31 - 1]]
TEXT = '@HD\tVN:1.6\tSO:unsorted\n@SQ\tSN:chr1\tLN:1000\n'


# ------------------------------------------------------------------------------------------------ recipes
def R(ref=0, pos=3, mapq=30, flag=0, name='r', cigar=(), seq='', qual='auto', nref=-1, npos=-1, tlen=0, tags=''):
    """JSON-able record recipe.  cigar: [[op,len],...] or ['rep', op, len, n]; seq: str or ['rep', unit, n];
    qual: list | None (absent) | 'auto' (i % 41 + 1) | ['rep', q]; tags: hex string"""
    cigar = list(cigar) if (len(cigar) and cigar[0] == 'rep') else [list(c) for c in cigar]
    return {'ref': ref, 'pos': pos, 'mapq': mapq, 'flag': flag, 'name': name, 'cigar': cigar,
            'seq': seq, 'qual': qual, 'nref': nref, 'npos': npos, 'tlen': tlen, 'tags': tags}


def expand(recipe):
    cig = recipe['cigar']
    if cig and cig[0] == 'rep':
        cig = [(cig[1], cig[2])] * cig[3]
    else:
        cig = [(o, n) for o, n in cig]
    seq = recipe['seq']
    if not isinstance(seq, str):          # ['rep', unit, total length]
        seq = (seq[1] * (seq[2] // len(seq[1]) + 1))[:seq[2]]
    q = recipe['qual']
    if q == 'auto':
        q = [(i % 41) + 1 for i in range(len(seq))]
    elif q is not None and len(q) == 2 and q[0] == 'rep':
        q = [q[1]] * len(seq)
    if len(seq) == 0:
        q = []
    return S.make_record(recipe['ref'], recipe['pos'], recipe['mapq'], recipe['flag'], recipe['name'], cig, seq, q,
                         recipe['nref'], recipe['npos'], recipe['tlen'], bytes.fromhex(recipe['tags']))


def F(family, recs, refs=REFS2, text=TEXT, comp=('bgzf',), chunks=None, writes=(), eager=True, interval=True):
    """file case.  chunks: None | 'all' | list of offsets relative to the largest record (ints) and/or 'total'"""
    return {'family': family, 'refs': [list(r) for r in refs], 'text': text, 'recs': list(recs), 'comp': list(comp),
            'chunks': chunks, 'writes': list(writes), 'eager': eager, 'interval': interval}


TAG_NM = S.tag_int('NM', 3).hex()
TAG_Z = S.tag_string('RG', 'grp 1').hex()
TAG_NL = S.tag_array('XB', 'C', [7, 10]).hex()                 # last byte of the record is 0x0A
TAG_MANY = (S.tag_int('NM', -1, 'c') + S.tag_string('MD', '3^AC2') + S.tag_array('ZF', 'f', [1.5]) +
            S.tag_int('XI', 70000, 'I') + b'XAAq' + S.tag_string('XH', '1AE3').replace(b'Z', b'H', 1)).hex()
TAG_LONG = S.tag_string('CO', 'x' * 300).hex()

# record variants for the multi-record families (small records: the chunk-size range is total - largest)
V = [
    R(ref=0, pos=0, mapq=0, flag=0, name='a'),                                                      # 38 bytes: nothing variable
    R(ref=0, pos=5, mapq=60, flag=16, name='bb', cigar=[['M', 1]], seq='A', qual=[1]),
    R(ref=1, pos=7, mapq=1, flag=0x93, name='c', cigar=[['S', 1], ['=', 2]], seq='AC=', qual=[0, 93, 10]),  # ends with 0x0A
    R(ref=1, pos=11, mapq=255, flag=0, name='dd', cigar=[['M', 2], ['D', 1], ['I', 2]], seq='ACGT', qual=None, tags=TAG_NM,
      nref=0, npos=99, tlen=-50),
    R(ref=-1, pos=-1, mapq=0, flag=4, name='u', seq='NN', qual=[2, 3]),                              # no reference
    R(ref=0, pos=2 ** 31 - 7, mapq=9, flag=0x10 | 0x400, name='eeeeeee', cigar=[['N', 5]], tags=TAG_NL),
]
V_CORE = [0, 2, 3, 4]
SELECTIONS = ['whole', 'mask-alt', 'mask-none', 'mask-all', 'rev', 'fancy-rep', 'slice1', 'step2', 'sel-sel', 'sel-sel-mask',
              'touch-then-mask', 'stream', 'piecewise', 'perm-inner', 'perm-inner-tail']
# perm-inner: first and last record stay, the records in between are reversed (the selection spans the same bytes as the
# whole table but in another order); perm-inner-tail: the same on t[1:]
SEL_SINGLE = ['whole', 'mask-none', 'fancy-rep', 'stream']
# write histories: a selection is written (to a scratch file), THEN a second table is derived and written; the second
# file is the judged one.  'same' = the selection object itself once more, 'parent' = the table it was taken from.
HISTORY_FIRST = ['mask-alt', 'rev', 'slice1', 'fancy-rep']
HISTORY_SECOND = ['same', 'rev', 'slice1', 'mask-alt', 'parent']
HISTORIES = ['after-write:%s:%s' % (a, b) for a in HISTORY_FIRST for b in HISTORY_SECOND]
SELECTIONS = SELECTIONS + HISTORIES
HISTORIES_SHORT = ['after-write:mask-alt:rev', 'after-write:rev:slice1', 'after-write:slice1:parent']
UNJUDGED_WRITES = ['eager-whole', 'concat', 'row']


# ------------------------------------------------------------------------------------------------ families
def cigar_for(n, L):
    """a CIGAR of n operations whose query-consuming lengths add up to L (any lengths when L == 0: SEQ '*')"""
    if n == 0:
        return []
    if n == 1:
        return [['M', L or 4]]
    if n == 2:
        if L >= 2:
            return [['S', 1], ['X', L - 1]]
        return [['D', 2], ['M', L or 3]]
    return [['H', 2], ['M', L or 1], ['P', 3]]


def fam_singles(tier, seed):
    out = []
    for nl in (1, 2, 254):
        for nc in range(4):
            for ls in range(6):
                cg = cigar_for(nc, ls)
                for qk in ('present', 'absent'):
                    for tg in ('', TAG_MANY):
                        for ref in (0, -1):
                            rec = R(ref=ref, pos=-1 if ref < 0 else 3, flag=4 if ref < 0 else 0, name=('n' * nl),
                                    cigar=cg, seq='ACN=G'[:ls], qual='auto' if qk == 'present' else None, tags=tg)
                            out.append(F('singles', [rec], chunks='all', writes=SEL_SINGLE))
    return out


def seq_strings(alpha, maxlen):
    for n in range(maxlen + 1):
        for t in itertools.product(alpha, repeat=n):
            yield ''.join(t)


def fam_seq(tier, seed):
    out = []
    # every sequence over {=,A,C,N} (nibbles 0000 0001 0010 1111) of length 0..5, alone in its file
    for s in seq_strings('=ACN', 5):
        out.append(F('seq', [R(name='s', cigar=[['M', len(s)]] if s else [], seq=s)], eager=(tier == 'thorough' or len(s) <= 3),
                     interval=False))
    # ... and packed: consecutive blocks of 32 sequences in one file (rows of mixed parity / empty rows side by side)
    allseq = list(seq_strings('=ACN', 5))
    for i in range(0, len(allseq), 32):
        out.append(F('seq', [R(name='s%d' % j, seq=s, cigar=[['I', len(s)]] if (j % 3 and s) else []) for j, s in enumerate(allseq[i:i + 32])],
                     interval=False, writes=['mask-alt'] if tier == 'thorough' else []))
    # all 16 codes alone, all 256 ordered pairs (= every byte value of the packed sequence), all codes in one read
    for c in S.SEQ_CODES:
        out.append(F('seq', [R(name='s', seq=c)], interval=False))
    pairs = [a + b for a in S.SEQ_CODES for b in S.SEQ_CODES]
    for i in range(0, 256, 64):
        out.append(F('seq', [R(name='p', seq=s) for s in pairs[i:i + 64]], interval=False))
    out.append(F('seq', [R(name='all', seq=S.SEQ_CODES), R(name='all1', seq=S.SEQ_CODES + 'A'), R(name='rev', seq=S.SEQ_CODES[::-1][:15])],
                 interval=False, writes=['whole']))
    if tier == 'thorough':
        trip = [a + b + c for a in S.SEQ_CODES for b in S.SEQ_CODES for c in S.SEQ_CODES]
        for i in range(0, len(trip), 128):
            out.append(F('seq', [R(name='t', seq=s) for s in trip[i:i + 128]], interval=False, eager=False))
        for s in pairs:
            out.append(F('seq', [R(name='p', seq=s)], interval=False, eager=False))
    return out


def fam_cigar(tier, seed):
    out = []
    ops = S.CIGAR_OPS
    for o in ops:
        for n in (0, 1, 2, MAXLEN):
            out.append(F('cigar', [R(pos=100, cigar=[[o, n]])], eager=False))
    pats = [(1, 2), (MAXLEN, 1), (2, MAXLEN)] if tier == 'thorough' else [(1, 2), (MAXLEN, 3)]
    for a in ops:
        for b in ops:
            for la, lb in pats:
                out.append(F('cigar', [R(pos=100, cigar=[[a, la], [b, lb]])], eager=False))
    # all 729 triples: nine per file (fixed first two ops, all third ops) and, thorough, alone
    for a in ops:
        for b in ops:
            recs = [R(pos=7, name='t%s' % c, cigar=[[a, 1], [b, 2], [c, 4]]) for c in ops]
            out.append(F('cigar', recs, eager=(tier == 'thorough')))
            if tier == 'thorough':
                for c in ops:
                    out.append(F('cigar', [R(pos=7, cigar=[[a, MAXLEN], [b, 2], [c, MAXLEN]])], eager=False))
    # reference length up to the largest legal end 2**31-1 (sum needs > 31 bits only beyond the legal range)
    out.append(F('cigar', [R(pos=7, cigar=[['M', MAXLEN]] * 8), R(pos=0, cigar=[['D', MAXLEN], ['I', MAXLEN], ['N', MAXLEN], ['=', 5]]),
                           R(pos=2 ** 31 - 2, cigar=[['X', 1]])], writes=['whole']))
    # longer lists
    for n in (4, 5, 9, 16, 17, 255, 256):
        out.append(F('cigar', [R(pos=1, cigar=[[ops[i % 9], i % 5] for i in range(n)]), R(pos=2, cigar=[['M', 1]], seq='G')]))
    return out


FLAGS = [0, 1, 4, 16, 20, 0x110, 0x800, 0xfff, 0xffef, 0xffff]
MAPQS = [0, 1, 60, 254, 255]
POSS = [0, 1, 65535, 65536, 2 ** 31 - 2]


def fam_scalars(tier, seed):
    out = []
    recs = []
    for fl in FLAGS:
        out.append(F('scalars', [R(flag=fl, cigar=[['M', 1]], seq='A')], eager=False))
    for mq in MAPQS:
        out.append(F('scalars', [R(mapq=mq, cigar=[['M', 1]], seq='A')], eager=False))
    for p in POSS:
        out.append(F('scalars', [R(pos=p, cigar=[['M', 1]], seq='A')], eager=False))
    for fl in FLAGS:
        for mq in MAPQS:
            for p in POSS:
                recs.append(R(flag=fl, mapq=mq, pos=p, name='x', cigar=[['M', 1]], seq='A'))
    out.append(F('scalars', recs, chunks=[0, 1, 'total'], writes=['whole', 'mask-alt', 'rev']))
    for i in range(0, len(recs), 50):
        out.append(F('scalars', recs[i:i + 50]))
    # mate fields / template length are carried by the writer
    mates = [R(nref=nr, npos=np_, tlen=tl, name='m', cigar=[['M', 2]], seq='AC')
             for nr in (-1, 0, 1) for np_ in (-1, 0, 2 ** 31 - 2) for tl in (0, -5, 2 ** 31 - 1, -2 ** 31)]
    out.append(F('scalars', mates, writes=['whole', 'rev', 'mask-alt']))
    return out


def fam_qual(tier, seed):
    out = []
    recs = []
    for n in (1, 2, 3):
        for q in itertools.product((0, 1, 93), repeat=n):
            recs.append(R(name='q', seq='ACG'[:n], qual=list(q)))
    recs.append(R(name='q', seq='ACGTA', qual=[10, 10, 10, 10, 10]))
    recs.append(R(name='q', seq='ACGTA', qual=None))
    recs.append(R(name='q', seq='A' * 94, qual=list(range(94))))
    for r in recs:
        out.append(F('qual', [r], interval=False, eager=False))
    out.append(F('qual', recs, interval=False, chunks=[0, 1, 'total'], writes=['whole', 'mask-alt']))
    return out


def fam_tags(tier, seed):
    out = []
    tags = ['', TAG_NM, TAG_Z, TAG_NL, TAG_MANY, TAG_LONG]
    base = lambda t, i: R(name='t%d' % i, pos=i, cigar=[['M', 2], ['I', 1]], seq='ACG', tags=t)
    for i, t in enumerate(tags):
        out.append(F('tags', [base(t, i)], chunks='all' if len(t) < 200 else [0, 1, 2], writes=SEL_SINGLE))
    for i, t in enumerate(tags):
        for j, u in enumerate(tags):
            out.append(F('tags', [base(t, i), base(u, j)], chunks='all' if (len(t) < 200 and len(u) < 200) else [0, 1, 2, 'total'],
                         writes=['whole', 'rev', 'mask-alt', 'fancy-rep']))
    return out


def fam_header(tier, seed):
    out = []
    names = ['1', 'chr1', 'HLA-A*01:01:01:01', 'chrUn_KI270302v1_' + 'x' * 40]
    tables = [[]]
    for n in (1, 2, 3):
        for t in itertools.product(range(len(names)), repeat=n):
            if len(set(t)) == n:
                tables.append([[names[i], [1, 1000, 2 ** 31 - 1][k % 3]] for k, i in enumerate(t)])
    texts = ['', TEXT, '@CO\tpadded\n\x00\x00\x00']
    for ti, tab in enumerate(tables):
        if tier == 'quick' and len(tab) == 3 and (ti + seed) % 3 != 0:
            continue       # extension slice rotated by the seed; thorough runs every table
        recs = [R(ref=i, pos=i, name='h%d' % i, cigar=[['M', 1]], seq='A') for i in range(len(tab))]
        recs += [R(ref=len(tab) - 1, pos=9, name='last', cigar=[['M', 2]], seq='AC')] if tab else []
        recs_u = recs + [R(ref=-1, pos=-1, flag=4, name='nomap', seq='ACGT')]
        for tx in (texts if len(tab) <= 2 else texts[:1]):
            if recs:
                out.append(F('header', recs, refs=tab, text=tx, chunks=[0, 1, 'total'], writes=['whole', 'rev', 'mask-none']))
            out.append(F('header', recs_u, refs=tab, text=tx, chunks=[0, 1, 'total'], writes=['whole', 'rev', 'mask-none']))
    # no records at all
    for tab in (tables[0], tables[1], tables[6]):
        out.append(F('header', [], refs=tab, text=TEXT, chunks=[0, 1], writes=['whole']))
    return out


def fam_multi(tier, seed):
    """all ordered files of 2..3 (4) records over the variant set x EVERY chunk size x all selections"""
    out = []
    idx = range(len(V))
    for t in itertools.product(idx, repeat=2):
        out.append(F('multi2', [V[i] for i in t], chunks='all', writes=SELECTIONS))
    for t in itertools.product(idx, repeat=3):
        core = all(i in V_CORE for i in t)
        if tier == 'quick' and not core and (sum(t) + seed) % 4 != 0:
            continue       # extension slice rotated by the seed; thorough runs every triple
        out.append(F('multi3', [V[i] for i in t], chunks='all', writes=SELECTIONS if (core or tier == 'thorough') else ['whole', 'sel-sel'] + HISTORIES_SHORT))
    if tier == 'thorough':
        for t in itertools.product(idx, repeat=4):
            out.append(F('multi4', [V[i] for i in t], chunks='all', writes=['whole', 'mask-alt', 'sel-sel-mask', 'fancy-rep', 'perm-inner'] + HISTORIES_SHORT))
        for t in itertools.product(V_CORE, repeat=5):
            out.append(F('multi5', [V[i] for i in t], chunks='all', writes=['whole', 'sel-sel-mask']))
    # one file with everything, a handful of chunk sizes
    big = [dict(V[i % len(V)], name='%s%d' % (V[i % len(V)]['name'][:3], i)) for i in range(30)]
    out.append(F('multi-pack', big, chunks=[0, 1, 2, 3, 4, 5, 40, 100, 'total'], writes=SELECTIONS))
    return out


def comp_base():
    return [V[1], V[3], V[2]]


def fam_comp(tier, seed):
    """BGZF member boundary at every byte offset of the uncompressed stream (header included)"""
    out = []
    recs = comp_base()
    refs = REFS2
    data, hl, blobs = S.encode_bam(refs, [expand(r) for r in recs], TEXT)
    n = len(data)
    ks = [0, 1, 'total']
    out.append(F('comp', recs, comp=['gzip'], chunks=ks, writes=['whole']))
    out.append(F('comp', recs, comp=['bgzf-noeof'], chunks=ks))
    out.append(F('comp', recs, comp=['bgzf-stored'], chunks=ks))
    out.append(F('comp', recs, comp=['bgzf', list(range(1, n))], chunks=ks))                        # one byte per member
    for c in range(1, n):
        out.append(F('comp', recs, comp=['bgzf', [c]], chunks=ks, eager=False, interval=False))
    widths = (1, 2, 3, 4) if tier == 'thorough' else (1, 3)
    for w in widths:
        for c in range(1, n - w):
            if tier == 'quick' and (c + seed) % 2:
                continue   # extension slice rotated by the seed
            out.append(F('comp', recs, comp=['bgzf', [c, c + w]], chunks=[0], eager=False, interval=False))
    return out


def fam_big(tier, seed):
    out = []
    small = R(pos=9, name='after', cigar=[['M', 2], ['D', 4]], seq='CG')
    for n in (BIG_CIGAR - 1, BIG_CIGAR, 32768, 65535):
        big = R(pos=5, name='big%d' % n, cigar=['rep', 'M', 1, n], seq=['rep', 'ACGTA', n])
        out.append(F('big', [big], chunks=[0, 1], writes=['whole']))
        out.append(F('big', [small, big, small], chunks=[0, 1, 'total'], writes=['whole', 'rev']))
    for ls in (255, 256, 65535, 65536, 70001):
        long_ = R(pos=5, name='long%d' % ls, cigar=[['M', ls]], seq=['rep', 'ACGTN=', ls])
        out.append(F('big', [small, long_, small], chunks=[0, 1, 'total'], writes=['whole', 'rev']))
    # many small records: > 1 BGZF block of whole records, > 65536 bytes in total
    many = [R(pos=i, name='m%05d' % i, cigar=[['M', 3]], seq='ACG', mapq=i % 256, flag=(i * 7) % 65536) for i in range(1500)]
    out.append(F('big', many, chunks=[0, 1, 1000, 65536, 'total'], writes=['whole', 'mask-alt']))
    return out


FAMILIES = {'singles': fam_singles, 'seq': fam_seq, 'cigar': fam_cigar, 'scalars': fam_scalars, 'qual': fam_qual,
            'tags': fam_tags, 'header': fam_header, 'multi': fam_multi, 'comp': fam_comp, 'big': fam_big}
# shard groups: families of similar kind; the number of shards per group follows the measured CPU seconds
# (reported per family in the evidence under extra/cpu_ms) so that shards cost about the same
GROUPS = {'multi': ['multi'], 'singles': ['singles'], 'misc': ['seq', 'cigar', 'scalars', 'qual', 'tags', 'header'],
          'comp': ['comp'], 'big': ['big']}
PARTS = {
    'quick': {'multi': 16, 'singles': 4, 'misc': 5, 'comp': 2, 'big': 2},
    'thorough': {'multi': 48, 'singles': 2, 'misc': 3, 'comp': 2, 'big': 1},
}


def bounds(tier, seed):
    b = {
        'singles': 'name length {1,2,254} x n_cigar 0..3 x l_seq 0..5 x qualities present/absent x tags none/6 tags x refID {0,-1}: 576 files, all clauses, every k',
        'seq': 'every sequence over {=,A,C,N} of length 0..5 alone (1365 files) and packed 32 per file; 16 single codes; all 256 code pairs'
               + ('; all 4096 code triples; every pair alone' if tier == 'thorough' else ''),
        'cigar': 'all 9 ops x length {0,1,2,2**28-1}; all 81 pairs x %d length patterns; all 729 triples (9 per file%s); end = 2**31-1; lists of 4..256 ops'
                 % (3 if tier == 'thorough' else 2, ' and alone with 2**28-1 lengths' if tier == 'thorough' else ''),
        'scalars': 'flag %r x mapq %r x position %r (250 records, alone per value and packed); mate refID/pos/tlen extremes' % (FLAGS, MAPQS, POSS),
        'qual': 'all quality strings over {0,1,93} of length 1..3, all-10 (newline byte), absent, 0..93',
        'tags': '6 tag blocks (none, int, string, array ending in 0x0A, six mixed types, 300-byte string) alone and all 36 ordered pairs',
        'header': 'reference tables of 0..3 names from 4 spellings x 3 header texts x {all mapped, plus one record without reference}; 0-record files'
                  + (' (3-name tables: slice (index+seed)%3==0)' if tier == 'quick' else ''),
        'multi': ('all 36 ordered pairs, all 216 ordered triples and all 1296 ordered 4-record files over 6 record variants, all 1024 '
                  'ordered 5-record files over 4 variants' if tier == 'thorough' else
                  'all 36 ordered pairs over 6 record variants, all 64 ordered triples over 4 core variants plus the other triples with (sum of variant indices+seed)%4==0') +
                 ' x EVERY chunk size largest record..total+2 x %d write selections; one 30-record file' % len(SELECTIONS),
        'comp': 'BGZF member boundary at every byte offset of a 3-record file (header included), two boundaries %s bytes apart at %s offset, '
                'one byte per member, stored blocks, no EOF block, single-member gzip' %
                (('1..4', 'every') if tier == 'thorough' else ('1 or 3', 'every second (rotated by seed)')),
        'big': 'n_cigar_op 16383/16384/32768/65535; l_seq 255/256/65535/65536/70001 (record spans BGZF blocks); 1500 records',
        'chunk_sizes': 'every k from the largest record to total+2 where stated, else largest+{0,1,..} and total',
        'selections': SELECTIONS, 'unjudged_write_paths': UNJUDGED_WRITES,
        'shards': PARTS[tier],
    }
    return b


_SELFTEST_DONE = []


def model_selftest():
    if _SELFTEST_DONE:
        return _SELFTEST_DONE[0]
    import bionumpy
    ex = os.path.join(os.path.dirname(os.path.dirname(os.path.abspath(bionumpy.__file__))), 'example_data')
    problems, n = S.selftest(ex)
    if problems:
        raise AssertionError('models/bam_spec.py disagrees with the SAM twins of the example BAMs: %r' % (problems[:3],))
    _SELFTEST_DONE.append(n)
    return n


def shards(tier, seed):
    model_selftest()
    out = []
    # simplest first (single-record files), so that the first exemplar of a failure group is a small file
    for grp in ['singles', 'misc', 'big', 'comp', 'multi']:
        n = PARTS[tier][grp]
        for i in range(n):
            out.append({'group': grp, 'part': i, 'of': n, 'tier': tier, 'seed': seed})
    return out


# ------------------------------------------------------------------------------------------------ building files
class Built:
    pass


def build(case):
    b = Built()
    b.refs = [(n, l) for n, l in case['refs']]
    b.recs = [expand(r) for r in case['recs']]
    b.data, b.hl, b.blobs = S.encode_bam(b.refs, b.recs, case['text'])
    comp = case['comp']
    if comp[0] == 'bgzf':
        b.file = S.bgzf_compress(b.data, cuts=comp[1] if len(comp) > 1 else ())
    elif comp[0] == 'bgzf-noeof':
        b.file = S.bgzf_compress(b.data, eof=False)
    elif comp[0] == 'bgzf-stored':
        b.file = S.bgzf_compress(b.data, level=0)
    elif comp[0] == 'gzip':
        b.file = S.gzip_single_member(b.data)
    else:
        raise ValueError(comp)
    # the encoder is checked by the independent decoder on every file (a model error must never look like a violation)
    back = S.decode_bam_file(b.file)
    assert back['blobs'] == b.blobs and back['refs'] == b.refs and back['header'] == b.data[:b.hl]
    for r0, r1 in zip(b.recs, back['recs']):
        for k in r0:
            assert r0[k] == r1[k], (k, r0[k], r1[k])
    b.n = len(b.recs)
    b.maxrec = max([len(x) for x in b.blobs] or [0])
    b.total = sum(len(x) for x in b.blobs)
    b.exp_rows = [S.expected_row(r, b.refs) for r in b.recs]
    b.exp_iv = [S.expected_interval(r, b.refs) for r in b.recs]
    return b


def comp_class(case):
    c = case['comp']
    if c[0] == 'bgzf' and len(c) > 1:
        return 'bgzf-cut'
    return c[0]


def file_facts(case, b):
    return {'n_ref0': len(b.refs) == 0, 'has_unmapped': any(r['ref_id'] < 0 for r in b.recs),
            'has_big_cigar': any(len(r['cigar']) >= BIG_CIGAR for r in b.recs), 'n_records0': b.n == 0,
            'comp': comp_class(case)}


def wrong_facts(b, rows):
    """facts about the records that decode wrongly"""
    rows = [i for i in rows if 0 <= i < b.n]
    if not rows:
        return {'wrong_records': 'none', 'big_cigar': False}
    um = [b.recs[i]['ref_id'] < 0 for i in rows]
    return {'wrong_records': 'unmapped' if all(um) else ('mapped' if not any(um) else 'mixed'),
            'big_cigar': all(len(b.recs[i]['cigar']) >= BIG_CIGAR for i in rows)}


def k_list(case, b):
    ch = case['chunks']
    if ch is None:
        return []
    base = max(b.maxrec, 1)
    if ch == 'all':
        return list(range(base, max(b.total, base) + 3))
    out = []
    for c in ch:
        k = max(b.total, base) if c == 'total' else base + c
        if k not in out:
            out.append(k)
    return out


# ------------------------------------------------------------------------------------------------ observation
def obs_fields(t, fields):
    """table -> {field: ('ok', [values]) | ('raises', exc name, traceback)}; observer errors propagate"""
    out = {}
    for f in fields:
        try:
            col = getattr(t, f)
        except Exception as e:
            out[f] = ('raises', exc_name(e), tb_string(e))
            continue
        try:
            shp = getattr(col, 'shape', None)
            if isinstance(shp, tuple) and len(shp) == 2 and shp[0] == 0:
                vals = []          # an n x 1 character column with n == 0 (engine.observe cannot reshape it)
            else:
                vals = observe.column(col)
        except observe.ObserverError:
            raise
        except observe.MalformedLibraryValue as e:
            out[f] = ('raises', 'MalformedLibraryValue', str(e))
            continue
        out[f] = ('ok', [_plain(v) for v in vals])
    return out


def _plain(v):
    if isinstance(v, (list, tuple)):
        return [_plain(x) for x in v]
    if isinstance(v, (bool, np.bool_)):
        return int(v)
    if isinstance(v, (np.integer,)):
        return int(v)
    if isinstance(v, float) and v == int(v):
        return int(v)
    return v


def concat_obs(obs_list, fields):
    out = {}
    for f in fields:
        bad = [o[f] for o in obs_list if o[f][0] != 'ok']
        if bad:
            out[f] = ('raises', bad[0][1], bad[0][2])
        else:
            out[f] = ('ok', [v for o in obs_list for v in o[f][1]])
    return out


def strip_tb(o):
    return {f: (v[0], v[1]) for f, v in o.items()}


def value_ok(field, exp, got):
    if field == 'chromosome' and exp is None:
        return got in NONE_NAMES
    if field == 'quality' and exp is None:
        return True            # absent qualities: value not judged
    return exp == got


def shape_class(b):
    if b.n == 0:
        return 'n0'
    par = ''.join(sorted({('0' if len(r['seq']) == 0 else 'EO'[len(r['seq']) % 2]) for r in b.recs}))
    cg = ''.join(sorted({str(min(len(r['cigar']), 4)) for r in b.recs}))
    return 'n%d/seq%s/cig%s/%s%s' % (min(b.n, 5), par, cg, 'T' if any(r['tags'] for r in b.recs) else 't',
                                       'U' if any(r['ref_id'] < 0 for r in b.recs) else 'm')


def variable_offsets_matter(b):
    return any(r['cigar'] or r['seq'] or r['tags'] for r in b.recs)


# ------------------------------------------------------------------------------------------------ clauses
class Ctx:
    def __init__(self, res, case, b, d):
        self.res, self.case, self.b, self.d = res, case, b, d
        self.path = os.path.join(d, 'in.bam')
        self.out = os.path.join(d, 'out.bam')
        self.facts = file_facts(case, b)
        self.lazy_obs = None

    def begin(self, n_calls):
        r = self.res
        r.evaluations += 1
        r.states += 1
        r.planned += 1
        r.traces += 1
        r.transitions += n_calls

    def fail(self, kind, clause, feats, expected=None, observed=None, tb=None):
        c = dict(self.case)
        c['clause'] = clause
        self.res.fail(kind, c, feats, expected=expected, observed=observed, tb=tb)


def clause_decode(cx, lazy):
    import bionumpy as bnp
    b = cx.b
    reader = 'lazy' if lazy else 'eager'
    clause = {'op': 'decode', 'lazy': lazy}
    cx.begin(1 + len(FIELDS))
    try:
        t = bnp.open(cx.path).read() if lazy else bnp.open(cx.path, lazy=False).read()
        n = len(t)
    except Exception as e:
        cx.fail('decode:read-raises', clause, dict(cx.facts, reader=reader), expected='%d records' % b.n,
                observed=exc_name(e) + ': ' + str(e)[:200], tb=tb_string(e))
        cx.res.outcome('decode:%s:read-raises:%s' % (reader, exc_name(e)))
        return None
    o = obs_fields(t, FIELDS)
    if lazy:
        cx.lazy_obs = o
    if b.n and variable_offsets_matter(b):
        cx.res.nontrivial += 1
    bad_fields = []
    if n != b.n:
        cx.fail('decode:row-count', clause, dict(cx.facts, reader=reader), expected=b.n, observed=n)
        bad_fields.append('row-count')
    for f in FIELDS:
        exp = [r[f] for r in b.exp_rows]
        st = o[f]
        if st[0] != 'ok':
            wrong = list(range(b.n))
            cx.fail('decode:' + f, clause, dict(wrong_facts(b, wrong), reader=reader, comp=cx.facts['comp']),
                    expected=exp[:6], observed='raises ' + st[1], tb=st[2])
            bad_fields.append(f)
            continue
        got = st[1]
        if len(got) != b.n:
            if n == b.n:
                cx.fail('decode:row-count', clause, dict(cx.facts, reader=reader), expected=b.n, observed={f: len(got)})
                bad_fields.append(f)
            continue
        wrong = [i for i in range(b.n) if not value_ok(f, exp[i], got[i])]
        if f == 'quality':
            nq = sum(1 for i in range(b.n) if exp[i] is None and len(b.recs[i]['seq']))
            if nq:
                cx.res.extra['records with absent qualities (0xFF fill): quality value not judged'] += nq
        if wrong:
            cx.fail('decode:' + f, clause, dict(wrong_facts(b, wrong), reader=reader, comp=cx.facts['comp']),
                    expected={'rows': wrong[:4], 'values': [exp[i] for i in wrong[:4]]},
                    observed=[_trim(got[i]) for i in wrong[:4]])
            bad_fields.append(f)
    cx.res.outcome('decode:%s:%s:%s' % (reader, 'ok' if not bad_fields else 'wrong-' + '+'.join(bad_fields), shape_class(b)))
    return o


def _trim(v):
    if isinstance(v, str) and len(v) > 80:
        return v[:80] + '...(%d)' % len(v)
    if isinstance(v, list) and len(v) > 40:
        return v[:40] + ['...(%d)' % len(v)]
    return v


def clause_interval(cx, via):
    import bionumpy as bnp
    from bionumpy.io.bam import BamIntervalBuffer
    b = cx.b
    clause = {'op': 'interval', 'via': via}
    cx.begin(2 + len(IV_ALL))
    src = None
    try:
        if via == 'BamIntervalBuffer':
            t = bnp.open(cx.path, buffer_type=BamIntervalBuffer).read()
        elif via == 'alignment_to_interval':
            src = bnp.open(cx.path).read()
            t = bnp.alignments.alignment_to_interval(src)
        else:
            src = bnp.open(cx.path, lazy=False).read()
            t = bnp.alignments.alignment_to_interval(src)
        n = len(t)
    except Exception as e:
        cx.fail('interval:raises', clause, dict(cx.facts, via=via), expected='%d intervals' % b.n,
                observed=exc_name(e) + ': ' + str(e)[:200], tb=tb_string(e))
        cx.res.outcome('interval:%s:raises:%s' % (via, exc_name(e)))
        return
    o = obs_fields(t, IV_ALL)
    if b.n and any(r['cigar'] for r in b.recs):
        cx.res.nontrivial += 1
    bad = []
    if n != b.n:
        cx.fail('interval:row-count', clause, dict(cx.facts, via=via), expected=b.n, observed=n)
        bad.append('row-count')
    for f in IV_ALL:
        exp = [r[f] for r in b.exp_iv]
        st = o[f]
        if f not in IV_JUDGED:
            if st[0] != 'ok' or st[1] != exp:
                cx.res.extra['interval %s column differs from read name / mapq (not judged)' % f] += 1
            continue
        if st[0] != 'ok':
            cx.fail('interval:' + f, clause, dict(wrong_facts(b, list(range(b.n))), via=via, comp=cx.facts['comp']),
                    expected=exp[:6], observed='raises ' + st[1], tb=st[2])
            bad.append(f)
            continue
        got = st[1]
        if len(got) != b.n:
            if n == b.n:
                cx.fail('interval:row-count', clause, dict(cx.facts, via=via), expected=b.n, observed={f: len(got)})
                bad.append(f)
            continue
        wrong = [i for i in range(b.n) if not value_ok(f, exp[i], got[i])]
        if wrong:
            cx.fail('interval:' + f, clause, dict(wrong_facts(b, wrong), via=via, comp=cx.facts['comp']),
                    expected={'rows': wrong[:4], 'values': [exp[i] for i in wrong[:4]]}, observed=[got[i] for i in wrong[:4]])
            bad.append(f)
    if src is not None and not bad:
        # the records handed to the conversion still decode to the same values afterwards (compared with a fresh read in
        # the same mode), and converting the same table a second time gives the same intervals
        try:
            fresh = strip_tb(obs_fields(bnp.open(cx.path, lazy=(via == 'alignment_to_interval')).read(), FIELDS))
            after = strip_tb(obs_fields(src, FIELDS))
            again = strip_tb(obs_fields(bnp.alignments.alignment_to_interval(src), IV_ALL))
            cx.res.transitions += 3
        except observe.ObserverError:
            raise
        except Exception as e:
            cx.fail('interval:records-after-conversion', clause, dict(cx.facts, via=via), expected='readable records',
                    observed=exc_name(e) + ': ' + str(e)[:200], tb=tb_string(e))
            bad.append('records-after-conversion')
        else:
            diff = [f for f in FIELDS if after[f] != fresh[f]]
            if diff:
                cx.fail('interval:records-after-conversion', clause, dict(cx.facts, via=via, fields='+'.join(diff)),
                        expected={f: _trim(fresh[f][1]) for f in diff[:3]}, observed={f: _trim(after[f][1]) for f in diff[:3]})
                bad.append('records-after-conversion')
            first = strip_tb(o)
            diff2 = [f for f in IV_JUDGED if again[f] != first[f]]
            if diff2:
                cx.fail('interval:second-conversion-differs', clause, dict(cx.facts, via=via, fields='+'.join(diff2)),
                        expected={f: _trim(first[f][1]) for f in diff2[:3]}, observed={f: _trim(again[f][1]) for f in diff2[:3]})
                bad.append('second-conversion')
    strands = ''.join(sorted({r['strand'] for r in b.exp_iv}))
    cx.res.outcome('interval:%s:%s:strands%s' % (via, 'ok' if not bad else 'wrong-' + '+'.join(bad), strands))


def whole_obs(cx):
    """observation of the default whole read (the statement's reference for chunked reads and re-reads);
    None if that read raises"""
    import bionumpy as bnp
    if cx.lazy_obs is None:
        try:
            t = bnp.open(cx.path).read()
        except Exception:
            return None
        cx.lazy_obs = obs_fields(t, FIELDS)
    return strip_tb(cx.lazy_obs)


def clause_chunked(cx, k):
    import bionumpy as bnp
    b = cx.b
    clause = {'op': 'chunked', 'k': k}
    whole = whole_obs(cx)
    if whole is None:
        cx.res.extra['chunked read not judged: whole read raises'] += 1
        return
    judged = [f for f in FIELDS if whole[f][0] == 'ok']
    if len(judged) != len(FIELDS):
        cx.res.extra['chunked read: field not compared because the whole read raises on it'] += len(FIELDS) - len(judged)
    feats = {'k_eq_largest': k == b.maxrec, 'k_ge_total': k >= b.total, 'n_records': min(b.n, 5),
             'has_tags': any(r['tags'] for r in b.recs), 'comp': cx.facts['comp']}
    obs = []
    try:
        for c in bnp.open(cx.path).read_chunks(k):
            obs.append(obs_fields(c, FIELDS))
            if len(obs) > b.n + 2:
                raise RuntimeError('harness guard: more chunks than records')
    except observe.ObserverError:
        raise
    except Exception as e:
        cx.begin(1 + len(obs))
        cx.fail('chunked:raises', clause, feats, expected='the records of the whole read', observed=exc_name(e) + ': ' + str(e)[:200],
                tb=tb_string(e))
        cx.res.outcome('chunked:raises:' + exc_name(e))
        return
    cx.begin(1 + len(obs) * (1 + len(FIELDS)))
    if len(obs) >= 2:
        cx.res.nontrivial += 1
    got = strip_tb(concat_obs(obs, FIELDS)) if obs else {f: ('ok', []) for f in FIELDS}
    diff = [f for f in judged if got[f] != whole[f]]
    if diff:
        cx.fail('chunked:differs', clause, feats, expected={f: _trim(whole[f][1]) for f in diff[:3]},
                observed={'fields': diff, 'chunks': [len(o['flag'][1]) if o['flag'][0] == 'ok' else '?' for o in obs],
                          'values': {f: _trim(got[f][1]) for f in diff[:3]}})
        cx.res.outcome('chunked:differs')
    else:
        cx.res.outcome('chunked:ok:%d-chunks' % min(len(obs), 9))


def sel_indices(sel, n):
    idx = list(range(n))
    if sel.startswith('after-write:'):
        _, first, second = sel.split(':')
        f = sel_indices(first, n)
        return {'same': f, 'rev': f[::-1], 'slice1': f[1:], 'mask-alt': f[::2], 'parent': idx}[second]
    if sel in ('whole', 'mask-all', 'stream', 'piecewise', 'eager-whole'):
        return idx
    if sel in ('mask-alt', 'step2', 'touch-then-mask'):
        return idx[::2]
    if sel == 'mask-none':
        return []
    if sel == 'rev':
        return idx[::-1]
    if sel == 'fancy-rep':
        return [n - 1, 0, 0] if n else []
    if sel == 'slice1':
        return idx[1:]
    if sel == 'sel-sel':
        return idx[1:][::-1]
    if sel == 'sel-sel-mask':
        return idx[::-1][::2]
    if sel == 'concat':
        return idx[:1] + idx
    if sel == 'row':
        return idx[:1]
    if sel == 'perm-inner':
        return idx[:1] + idx[1:-1][::-1] + idx[-1:] if n >= 2 else idx
    if sel == 'perm-inner-tail':
        t = idx[1:]
        return t[:1] + t[1:-1][::-1] + t[-1:] if len(t) >= 2 else t
    raise ValueError(sel)


def apply_sel(t, sel, n):
    if sel in ('whole', 'eager-whole'):
        return t
    if sel == 'mask-alt':
        return t[np.arange(n) % 2 == 0]
    if sel == 'mask-none':
        return t[np.zeros(n, dtype=bool)]
    if sel == 'mask-all':
        return t[np.ones(n, dtype=bool)]
    if sel == 'rev':
        return t[::-1]
    if sel == 'fancy-rep':
        return t[np.array([n - 1, 0, 0], dtype=int)] if n else t[np.zeros(0, dtype=int)]
    if sel == 'slice1':
        return t[1:]
    if sel == 'step2':
        return t[::2]
    if sel == 'sel-sel':
        return t[1:][::-1]
    if sel == 'sel-sel-mask':
        u = t[::-1]
        return u[np.arange(n) % 2 == 0]
    if sel == 'touch-then-mask':
        t.sequence
        t.chromosome
        t.cigar_length
        return t[np.arange(n) % 2 == 0]
    if sel == 'concat':
        return np.concatenate([t[:1], t])
    if sel == 'row':
        return t[0]
    if sel in ('perm-inner', 'perm-inner-tail'):
        return t[np.array(sel_indices(sel, n), dtype=int)]
    raise ValueError(sel)


def do_write(cx, sel):
    import bionumpy as bnp
    b = cx.b
    if os.path.exists(cx.out):
        os.remove(cx.out)
    if sel == 'stream':
        with bnp.open(cx.out, 'w') as f:
            f.write(bnp.open(cx.path).read_chunks(max(b.maxrec, 1)))
        return
    if sel == 'piecewise':
        t = bnp.open(cx.path).read()
        with bnp.open(cx.out, 'w') as f:
            f.write(t[:1])
            f.write(t[1:])
        return
    t = bnp.open(cx.path, lazy=False).read() if sel == 'eager-whole' else bnp.open(cx.path).read()
    if sel.startswith('after-write:'):
        _, first, second = sel.split(':')
        s1 = apply_sel(t, first, b.n)
        with bnp.open(cx.out + '.first.bam', 'w') as f:
            f.write(s1)
        m = len(sel_indices(first, b.n))
        s = {'same': lambda: s1, 'rev': lambda: s1[::-1], 'slice1': lambda: s1[1:],
             'mask-alt': lambda: s1[np.arange(m) % 2 == 0], 'parent': lambda: t}[second]()
    else:
        s = apply_sel(t, sel, b.n)
    with bnp.open(cx.out, 'w') as f:
        f.write(s)


def clause_write(cx, sel):
    import bionumpy as bnp
    b = cx.b
    clause = {'op': 'write', 'sel': sel}
    idx = sel_indices(sel, b.n)
    judged = sel not in UNJUDGED_WRITES and b.n > 0
    feats = {'selection': sel, 'selected0': len(idx) == 0, 'has_big_cigar': cx.facts['has_big_cigar'],
             'n_ref0': cx.facts['n_ref0'], 'comp': cx.facts['comp']}
    if not judged:
        try:
            do_write(cx, sel)
            d = S.decode_bam_file(open(cx.out, 'rb').read())
            ok = d['blobs'] == [b.blobs[i] for i in idx]
            cx.res.extra['unjudged write path %s: %s' % (sel if b.n else '0-record file', 'same records' if ok else 'DIFFERENT records')] += 1
        except observe.ObserverError:
            raise
        except S.SpecError:
            cx.res.extra['unjudged write path %s: output is not a valid BAM' % (sel if b.n else '0-record file')] += 1
        except Exception as e:
            cx.res.extra['unjudged write path %s: raises %s' % (sel if b.n else '0-record file', exc_name(e))] += 1
        return
    cx.begin(4)
    if idx:
        cx.res.nontrivial += 1
    try:
        do_write(cx, sel)
    except Exception as e:
        cx.fail('write:raises', clause, feats, expected='%d records written' % len(idx), observed=exc_name(e) + ': ' + str(e)[:200],
                tb=tb_string(e))
        cx.res.outcome('write:raises:%s:%s' % (sel, exc_name(e)))
        return
    blob = open(cx.out, 'rb').read()
    try:
        d = S.decode_bam_file(blob)
    except S.SpecError as e:
        cx.fail('write:not-a-valid-bam', clause, feats, expected='a BAM file', observed=str(e)[:200])
        cx.res.outcome('write:not-a-valid-bam:' + sel)
        return
    gz = d['gz']
    if gz['bgzf_members'] != gz['members']:
        cx.res.extra['written file has gzip members without the BGZF BC field / > 64 KiB (decodes; not judged)'] += 1
    if not gz['eof_block']:
        cx.res.extra['written file lacks the BGZF EOF block (not judged)'] += 1
    if d['header'] != b.data[:b.hl]:
        cx.res.extra['written header bytes differ from the source header (not judged beyond reference names)'] += 1
    exp_recs = [b.recs[i] for i in idx]
    exp_names = [S.ref_name(r, b.refs) for r in exp_recs]
    verdict = 'ok'
    try:
        got_names = [S.ref_name(r, d['refs']) for r in d['recs']]
    except IndexError:
        got_names = ['<refID out of table>']
    got_recs = [{k: v for k, v in r.items() if k != 'bin'} for r in d['recs']]
    if got_recs != exp_recs or got_names != exp_names:
        wrong = [i for i in range(min(len(got_recs), len(exp_recs))) if got_recs[i] != exp_recs[i]]
        cx.fail('write:records-differ', clause, feats,
                expected={'n': len(exp_recs), 'names': exp_names[:5], 'first_wrong': _rec_short(exp_recs[wrong[0]]) if wrong else None},
                observed={'n': len(got_recs), 'names': got_names[:5], 'first_wrong': _rec_short(got_recs[wrong[0]]) if wrong else None})
        verdict = 'records-differ'
    elif d['blobs'] != [b.blobs[i] for i in idx]:
        cx.fail('write:c04-record-bytes-differ', clause, feats, expected=[b.blobs[i].hex()[:200] for i in idx[:2]],
                observed=[x.hex()[:200] for x in d['blobs'][:2]])
        verdict = 'bytes-differ'
    # re-read by bionumpy: the same records as the selected rows of the first read
    whole = whole_obs(cx)
    if whole is None:
        cx.res.extra['re-read not judged: source whole read raises'] += 1
    elif any(whole[f][0] == 'ok' and len(whole[f][1]) != b.n for f in FIELDS):
        cx.res.extra['re-read not judged: source whole read has a wrong row count (reported by decode:row-count)'] += 1
    else:
        judged_f = [f for f in FIELDS if whole[f][0] == 'ok']
        exp = {f: ('ok', [whole[f][1][i] for i in idx]) for f in judged_f}
        try:
            t2 = bnp.open(cx.out).read()
            got = strip_tb(obs_fields(t2, judged_f))
            diff = [f for f in judged_f if got[f] != exp[f]]
            if diff:
                cx.fail('write:reread-differs', clause, feats, expected={f: _trim(exp[f][1]) for f in diff[:3]},
                        observed={f: _trim(got[f][1]) for f in diff[:3]})
                verdict = 'reread-differs'
        except observe.ObserverError:
            raise
        except Exception as e:
            cx.fail('write:reread-raises', clause, feats, expected='readable', observed=exc_name(e) + ': ' + str(e)[:200], tb=tb_string(e))
            verdict = 'reread-raises'
    cx.res.outcome('write:%s:%s:n=%d' % (sel, verdict, min(len(idx), 5)))


def _rec_short(r):
    r = dict(r)
    r['tags'] = r['tags'].hex()[:60]
    r['cigar'] = r['cigar'][:6]
    r['seq'] = r['seq'][:40]
    r['qual'] = None if r['qual'] is None else r['qual'][:20]
    r['name'] = r['name'][:40]
    return r


def clauses_of(case, b):
    out = [{'op': 'decode', 'lazy': True}]
    if case['eager']:
        out.append({'op': 'decode', 'lazy': False})
    if case['interval']:
        out.append({'op': 'interval', 'via': 'BamIntervalBuffer'})
        out.append({'op': 'interval', 'via': 'alignment_to_interval'})
        if case['eager']:
            out.append({'op': 'interval', 'via': 'alignment_to_interval(eager)'})
    for k in k_list(case, b):
        out.append({'op': 'chunked', 'k': k})
    for s in case['writes']:
        out.append({'op': 'write', 'sel': s})
    if case['writes'] and case['family'] in ('multi2', 'header', 'big', 'tags'):
        for s in UNJUDGED_WRITES:
            out.append({'op': 'write', 'sel': s})
    return out


def run_clause(cx, cl):
    if cl['op'] == 'decode':
        clause_decode(cx, cl['lazy'])
    elif cl['op'] == 'interval':
        clause_interval(cx, cl['via'])
    elif cl['op'] == 'chunked':
        clause_chunked(cx, cl['k'])
    elif cl['op'] == 'write':
        clause_write(cx, cl['sel'])
    else:
        raise ValueError(cl)


def check_file(res, case, d, only=None):
    b = build(case)
    with open(os.path.join(d, 'in.bam'), 'wb') as f:
        f.write(b.file)
    cx = Ctx(res, case, b, d)
    for cl in ([only] if only is not None else clauses_of(case, b)):
        run_clause(cx, cl)
    if len(res.samples) < 3 and only is None and len(set(b.blobs)) == b.n and any(r['tags'] for r in b.recs) and any(r['cigar'] for r in b.recs):
        res.sample({'family': case['family'], 'refs': case['refs'], 'records': [S.sam_line(r, b.refs) for r in b.recs[:3]],
                    'n_records': b.n, 'uncompressed_bytes': len(b.data), 'compression': case['comp'][0],
                    'record_sizes': [len(x) for x in b.blobs[:5]], 'chunk_sizes': (lambda ks: [ks[0], '...', ks[-1]] if len(ks) > 2 else ks)(k_list(case, b)),
                    'clauses': len(clauses_of(case, b))})


def run_shard(desc, deadline):
    res = Result()
    n_checked = model_selftest()
    cases = []
    for fam in GROUPS[desc['group']]:
        cases += FAMILIES[fam](desc['tier'], desc.get('seed', 0))
    mine = cases[desc['part']::desc['of']]
    d = tempfile.mkdtemp(dir='/dev/shm', prefix='c16_')
    try:
        for case in mine:
            if deadline.expired():
                res.capped = True
                break
            t0 = time.process_time()
            check_file(res, case, d)
            fam = case['family'].rstrip('0123456789').split('-')[0]
            res.extra['files:' + fam] += 1
            res.extra['cpu_ms:' + fam] += int((time.process_time() - t0) * 1000)
    finally:
        shutil.rmtree(d, ignore_errors=True)
    if desc['part'] == 0 and desc['group'] == 'singles':
        res.extra['model self-test: example BAM records equal to their SAM twins and re-encoded byte-identically'] += n_checked
    return res


def replay_case(case):
    res = Result()
    case = dict(case)
    only = case.pop('clause')
    d = tempfile.mkdtemp(dir='/dev/shm', prefix='c16r_')
    try:
        check_file(res, case, d, only=only)
    finally:
        shutil.rmtree(d, ignore_errors=True)
    return [{'kind': g['kind'], 'features': g['features'], 'observed': g['exemplars'][0]['observed'],
             'expected': g['exemplars'][0]['expected'], 'traceback': g['exemplars'][0]['traceback']}
            for g in res.fail_groups.values()]


def repro_py(case):
    case = dict(case)
    cl = case.pop('clause')
    b = build(case)
    if len(b.file) > 20000:
        return '# file too large to inline; rebuild with checks.c16_bam.build(case)'
    head = ('import base64, numpy as np, bionumpy as bnp\n'
            'from bionumpy.io.bam import BamIntervalBuffer\n'
            'open("/tmp/c16_repro.bam", "wb").write(base64.b64decode(%r))\n'
            '# records (SAM): %s\n' % (base64.b64encode(b.file).decode(), ' | '.join(S.sam_line(r, b.refs, False) for r in b.recs[:4])))
    if cl['op'] == 'decode':
        body = ('t = bnp.open("/tmp/c16_repro.bam"%s).read()\n'
                'for f in %r: print(f, getattr(t, f))\n' % ('' if cl['lazy'] else ', lazy=False', FIELDS))
    elif cl['op'] == 'interval':
        if cl['via'] == 'BamIntervalBuffer':
            body = 'print(bnp.open("/tmp/c16_repro.bam", buffer_type=BamIntervalBuffer).read())\n'
        else:
            body = 'print(bnp.alignments.alignment_to_interval(bnp.open("/tmp/c16_repro.bam"%s).read()))\n' % (
                ', lazy=False' if 'eager' in cl['via'] else '')
    elif cl['op'] == 'chunked':
        body = ('whole = bnp.open("/tmp/c16_repro.bam").read()\n'
                'chunks = list(bnp.open("/tmp/c16_repro.bam").read_chunks(%d))\n'
                'print(len(whole), [len(c) for c in chunks])\n' % cl['k'])
    else:
        body = ('t = bnp.open("/tmp/c16_repro.bam").read()\n'
                '# selection %r (see checks/c16_bam.py apply_sel)\n'
                'with bnp.open("/tmp/c16_out.bam", "w") as f: f.write(t)\n'
                'print(bnp.open("/tmp/c16_out.bam").read())\n' % cl['sel'])
    return head + body
