"""C10 -- genome-wide operations respect chromosome boundaries.

Shape A (product-space enumeration), differential + dense model.

A case = (genome: ordered names x sizes x '_'-filter mode) x (one interval set per chromosome from a boundary-biased
menu, every combination) x (strand pattern) x (input order).  Every case is pushed through every observation point
named by the property on the REAL whole-genome objects; for every included chromosome c the part of the result that
belongs to c is compared with

  (1) the same library operation on a one-chromosome genome that holds only c's entries (differential oracle), and
  (2) where the statement defines the value (mask, pileup, merge, clip, extension, sorting, values / sequence under
      intervals reversed / reverse-complemented on '-', binned counts, local<->global conversion) the single-contig
      definition evaluated by models/genome_multi.py from a dense per-base model.

Where a definition (2) exists, multi-chromosome cases compare the restricted result with (2), and the one-chromosome
cases (every name x size x set x strand pattern x order is itself a case) compare the one-chromosome genome with (2);
(1) then follows by transitivity and the one-chromosome run is only executed again when the whole-genome result
deviates (to attribute the failure).  Where no definition exists (get_location, get_windows(window_size=)) the
one-chromosome run is executed for every chromosome of every case.

Oracle clauses (= failure kinds):
  one-chromosome-genome-raises / -differs-from-definition   the operation is wrong without any neighbour
  whole-genome-raises                                       raises on the multi-chromosome genome although every
                                                            chromosome's own entries are handled on their own
  chromosome-result-differs                                 result restricted to c != single-contig result
  chromosome-order-or-foreign-rows                          rows not grouped/ordered as demanded, or rows on a
                                                            chromosome that is not part of the genome
  result-outside-chromosome                                 clip / windows / extension leave [0, size]
  offset-bijection, genome-layout                           local<->global conversion, '_' filtering (space 'offsets')
"""
import hashlib
import itertools
import json
import os
import shutil
import tempfile
import time

import numpy as np

from engine import observe
from engine.result import Result, tb_string
from models import genome_multi as M
from .common import exc_name

PROPERTY = 'C10'
LEVEL = 'model_checking'
TECHNIQUE = ('bounded exhaustive enumeration of multi-chromosome genomes x per-chromosome interval sets, differential '
             'against one-chromosome genomes and a dense per-base model')
RULE = ('a case = genome (ordered chromosome names from {chr1,chr10,chr1_alt,c}, every size tuple from 1..3, filter mode '
        'keep-all / ignore-underscore) x one interval set per chromosome from the boundary menu {none, first base, whole, '
        'last base, two touching, two nested} in EVERY combination x strand pattern x input order (genome order / '
        'reversed); itertools.product, never sampled. Non-trivial: at least two included chromosomes AND (an interval '
        'ends exactly at a chromosome end while the next chromosome has an interval starting at 0, OR an included '
        'chromosome has no entries)')
ASSUMPTIONS = [
    'the single-contig reference is (a) the same bionumpy operation on a one-chromosome genome holding only that '
    'chromosome\'s entries and (b) the dense per-base definitions of models/intervals.py (validated by C08); where (b) '
    'exists the multi-chromosome result is compared with (b) and the one-chromosome genome is compared with (b) in the '
    'one-chromosome cases (all names x sizes x sets x strand patterns), so (a) follows by transitivity',
    'merged() is only given entries in genome order, start-sorted inside each chromosome (merge_intervals documents '
    'sorted input); all other operations are also run on the reversed entry list',
    'intervals are non-empty, in bounds, half-open; clip() is given every interval grown by one base on both sides',
    'get_location / get_windows(window_size=) have no written definition: differential oracle only; '
    'get_windows(flank=) is also compared with [p-flank, p+flank+1) cut to the chromosome',
    'entries on a chromosome that the filter ignores must not change any included chromosome\'s result; whether an '
    'API that takes raw tables (Geometry, BinnedGenome) raises on such entries is not judged',
    'strand columns of results are not compared (the statement names coordinates, values and sequences)',
    'chromosome sizes 1..3 and at most 2 intervals per chromosome; GenomicArray[GenomicLocation] and stream=True '
    'pipelines are not observation points of this property (C11/C12)',
]
EXPLANATION = ('every combination of boundary-touching interval sets over every small genome is executed on the real '
               'global-offset implementation and compared chromosome by chromosome with one-chromosome runs and a dense model')
MANIFEST_TEXT = ('Coordinate columns of dtype int8..uint32 on three chromosomes of 0.45 x the dtype range (concatenated length beyond the dtype) through mask / pileup of Genome and Geometry. Exhaustive enumeration of genomes of 1..3 (quick) / 1..4 (thorough) chromosomes with sizes 1..3 and names '
                 'from {chr1, chr10, chr1_alt, c} (prefix pairs, a "_" name under keep-all and under the default '
                 'ignore-underscore filter) x every combination of per-chromosome interval sets from a boundary menu '
                 '(none / first base / whole / last base / two touching / two nested) x strand patterns x genome-order and '
                 'reversed input. Operations: get_mask, get_pileup, mask.get_data, merged(0,1,2), clip, extended_to_size('
                 '1..4), sorted, get_location(start/stop/center, +-strand), get_windows(flank 0..2 / window_size 1..3), '
                 'GenomicArray[intervals] (two tracks, +-strand), GenomicSequence[intervals] (dict and indexed FASTA, '
                 '+-strand), BinnedGenome.count, Geometry.get_mask/get_pileup/clip/extend_to_size/merge_intervals/sort/'
                 'jaccard, and GlobalOffset local<->global on every position and every interval of every genome up to 4 '
                 'chromosomes. Oracle: result restricted to chromosome c == same operation on a one-chromosome genome with '
                 'only c\'s entries == dense single-contig model. quick: all 1-chromosome genomes (every operation x argument); '
                 'all 12 ordered 2-chromosome name pairs (2 with the full menu and every operation, 10 with the 4-set menu and '
                 'the operations that work in concatenated coordinates); 2 name orders of 3 chromosomes (4-set menu) plus one '
                 'seed-rotated further order. thorough: all 2-chromosome pairs with the full menu, every operation x argument '
                 'and 4 strand patterns; all 24 orders of 3 chromosomes (2 with the full menu, 22 with none/whole/last base), '
                 'one order with every operation x argument; one 4-chromosome order (none/whole/last base), both filter modes.')
MANIFEST_NOTE = ('Trusted: NumPy, npstructures run-length arrays (observed via to_array / ravel / to_dict), CPython, '
                 'engine/observe.py, models/intervals.py + models/genome_multi.py (plain per-base Python). Sizes above 3 '
                 'and more than two intervals per chromosome are not explored.')

PAIRS_PRIMARY = [('chr1', 'chr10'), ('chr1_alt', 'c')]
TRIPLES_QUICK = [('chr1', 'chr10', 'c'), ('chr1', 'chr1_alt', 'c')]
TRIPLES_PRIMARY = [('chr1', 'chr10', 'c'), ('chr1', 'chr1_alt', 'c')]          # thorough: full menu
TRIPLES_FULLPLAN = [('c', 'chr1_alt', 'chr1')]                                   # thorough: every operation x argument
QUADS = [('chr1', 'chr10', 'chr1_alt', 'c')]
SIZES = (1, 2, 3)
# rough number of bionumpy calls per set-combination (all strand patterns and orders), only used to size shards
CALLS = {('quick', 'full'): 95, ('quick', 'std'): 70, ('quick', 'thin'): 30,
         ('thorough', 'full'): 140, ('thorough', 'std'): 100, ('thorough', 'thin'): 36}


# =====================================================================================================
# bounds and shards
# =====================================================================================================
def genome_list(tier, seed):
    """[(names, menu, plan, size filter)]"""
    out = []
    pairs = list(itertools.permutations(M.NAME_MENU, 2))
    triples = list(itertools.permutations(M.NAME_MENU, 3))
    for n in M.NAME_MENU:
        out.append(((n,), 'full', 'full', None))
    if tier == 'quick':
        for p in pairs:
            out.append((p, 'full', 'std', None) if p in PAIRS_PRIMARY else (p, 'small', 'thin', None))
        for t in TRIPLES_QUICK:
            out.append((t, 'small', 'thin', None))
        rest = [t for t in triples if t not in TRIPLES_QUICK]
        out.append((rest[seed % len(rest)], 'small', 'thin', seed % 3 + 1))       # extension slice, rotated by the seed
    else:
        for p in pairs:
            out.append((p, 'full', 'full', None))
        for t in triples:
            out.append((t, 'full' if t in TRIPLES_PRIMARY else 'tiny', 'thin', None))
        for t in TRIPLES_FULLPLAN:
            out.append((t, 'tiny', 'full', None))
        for q in QUADS:
            out.append((q, 'tiny', 'thin', None))
    return out


def bounds(tier, seed):
    common = {'names': list(M.NAME_MENU), 'sizes': list(SIZES),
              'filter_modes': 'keep-all always; ignore-underscore too when a "_" name is present',
              'menus': {'full': 'none / first base / whole / last base / two touching / two nested (3,6,6 sets for size 1,2,3)',
                        'small': 'none / first base / whole / last base', 'tiny': 'none / whole / last base'},
              'set_combinations': 'every combination over the chromosomes, every size tuple',
              'orders': ['genome', 'reversed (operations that do not need sorted input)',
                         'interleaved (round robin over the chromosomes, >= 3 entries on >= 2 chromosomes: merged, mask, pileup, sorted)'],
              'merge_distance': [0, 1, 2], 'extend_length': [1, 2, 3, 4], 'flank': [0, 1, 2], 'window_size': [1, 2, 3],
              'bin_size': [1, 2, 3],
              'plans': {'full': 'every operation x every argument', 'std': 'every operation, thinned arguments',
                        'thin': 'operations that work in concatenated coordinates / on genome-wide structures'},
              'offsets': 'every ordered choice of 1..4 names x every size tuple x both modes: every position, every interval',
              'genomes': [{'names': list(n), 'menu': m, 'plan': p, 'first_size_only': f} for n, m, p, f in genome_list(tier, seed)]}
    if tier == 'quick':
        common['strand_patterns'] = ['+-', '-+']
        common['extension_slice'] = 'one further 3-chromosome name order, index seed % 22, first size = seed % 3 + 1'
        common['seed'] = seed
    else:
        common['strand_patterns'] = list(M.STRAND_PATTERNS)
    return common


def _modes(names):
    """'default' (ignore-underscore) is a different genome only if a '_' name is present; a genome whose every
    chromosome is ignored has no chromosome at all and is outside the quantifier (1..4 chromosomes)"""
    if any('_' in n for n in names) and any('_' not in n for n in names):
        return ['keepall', 'default']
    return ['keepall']


def _n_cases(names, menu, first_size):
    f = M.MENUS[menu]
    per = sum(len(f(s)) for s in SIZES)
    first = per if first_size is None else len(f(first_size))
    return first * (per ** (len(names) - 1)) * len(_modes(names))


def shards(tier, seed):
    out = []
    target = 14000 if tier == 'quick' else 110000          # estimated bionumpy calls per shard
    for names, menu, pl, first_size in genome_list(tier, seed):
        n = _n_cases(names, menu, first_size) * CALLS[(tier, pl)]
        parts = max(1, int(round(n / target)))
        for j in range(parts):
            out.append({'space': 'ops', 'names': list(names), 'menu': menu, 'plan': pl, 'first_size': first_size,
                        'part': j, 'of': parts, 'tier': tier, 'seed': seed})
    for k in (1, 2, 3, 4):
        parts = {1: 1, 2: 1, 3: 2, 4: 6}[k]
        for j in range(parts):
            out.append({'space': 'offsets', 'k': k, 'part': j, 'of': parts, 'tier': tier, 'seed': seed})
    # deterministic; many-chromosome shards first so that the pool's tail is short
    out.sort(key=lambda d: (-len(d.get('names', [])) if d['space'] == 'ops' else 0, json.dumps(d, sort_keys=True)))
    for dt in NARROW_DTYPES:
        out.append({'space': 'dtype', 'dtype': dt, 'tier': tier, 'seed': seed})
    return out


# Coordinate columns keep the integer dtype they are given (int32 in BAM, uint8 / int16 from user arrays).  Genomes whose
# every chromosome fits the dtype but whose CONCATENATED length does not: three chromosomes of 0.45 x (dtype range), an
# interval at the first base, the middle and the last base of each; the concatenated-coordinate operations are compared
# with the same intervals in int64 and with the per-chromosome definition (run-length observation, nothing dense).
NARROW_DTYPES = ['int8', 'uint8', 'int16', 'uint16', 'int32', 'uint32', 'int64']


def check_dtype(res, dtname):
    import bionumpy as bnp
    from bionumpy.datatypes import Interval
    from bionumpy.genomic_data.geometry import Geometry
    dt = np.dtype(dtname)
    top = int(np.iinfo(dt).max) if dtname != 'int64' else 2 ** 40
    S = int(0.45 * (top + 1))
    names = ['chr1', 'chr2', 'chr3']
    sizes = {n: S for n in names}
    mid = S // 2
    rows = []
    for n in names:
        rows += [(n, 0, 1), (n, mid, mid + 2), (n, S - 1, S)]
    feats0 = {'space': 'dtype', 'coordinate_dtype': dtname, 'concatenated_length_exceeds_dtype': dtname != 'int64'}
    g = bnp.Genome.from_dict(sizes)
    geo = Geometry(sizes)

    def table(dtype):
        return Interval([r[0] for r in rows], np.array([r[1] for r in rows], dtype=dtype), np.array([r[2] for r in rows], dtype=dtype))

    def data_rows(t, with_value=False):
        ch = chrom_names(t.chromosome)
        out = [(ch[i], int(t.start[i]), int(t.stop[i])) + ((observe.norm(np.asarray(t.value)[i]),) if with_value else ()) for i in range(len(t))]
        return out

    exp_mask = [r for r in rows]
    ops = [('g.mask_data', lambda t: data_rows(g.get_intervals(t).get_mask().get_data()), exp_mask),
           ('g.pileup_data', lambda t: [r for r in data_rows(g.get_intervals(t).get_pileup().get_data(), True) if r[3] != 0],
            [r + (1,) for r in rows]),
           ('geo.mask_data', lambda t: data_rows(geo.get_mask(t).get_data()), exp_mask),
           ('geo.pileup_sum', lambda t: int(np.sum(geo.get_pileup(t))), sum(b - a for _, a, b in rows)),
           ('g.mask_sum', lambda t: int(g.get_intervals(t).get_mask().sum()), sum(b - a for _, a, b in rows))]
    for op, call, want in ops:
        case = {'space': 'dtype', 'dtype': dtname, 'op': op}
        res.evaluations += 1
        res.states += 1
        res.planned += 1
        res.traces += 1
        res.transitions += 1
        res.nontrivial += 1
        try:
            got = call(table(dt))
        except observe.ObserverError:
            raise
        except Exception as e:
            res.fail('narrow-coordinate-dtype:raises', case, dict(feats0, op=op), expected=want if not isinstance(want, list) else want[:4],
                     observed=exc_name(e) + ': ' + str(e)[:200], tb=tb_string(e))
            res.outcome('dtype:%s:raises' % dtname)
            continue
        if got != want:
            res.fail('narrow-coordinate-dtype:differs-from-per-chromosome-definition', case, dict(feats0, op=op),
                     expected=want if not isinstance(want, list) else want[:9], observed=got if not isinstance(got, list) else got[:9])
            res.outcome('dtype:%s:differs' % dtname)
        else:
            res.outcome('dtype:%s:ok' % dtname)


# =====================================================================================================
# observers (library value -> plain Python); an exception in here is a harness error
# =====================================================================================================
def chrom_names(col):
    """chromosome column of any representation -> list of str"""
    from bionumpy.encoded_array import EncodedArray
    from bionumpy.encodings.string_encodings import StringEncoding
    if isinstance(col, EncodedArray) and isinstance(col.encoding, StringEncoding):
        labels = observe.column(getattr(col.encoding, '_seqeunces')) if hasattr(col.encoding, '_seqeunces') \
            else list(col.encoding.get_labels())
        codes = np.atleast_1d(np.asarray(col.raw())).ravel().tolist()
        return [labels[i] if 0 <= i < len(labels) else '<code %d>' % i for i in codes]
    v = observe.column(col)
    if isinstance(v, str):
        return [v]
    return [x if isinstance(x, str) else repr(x) for x in v]


def ints(col):
    return [int(v) for v in np.atleast_1d(np.asarray(col)).ravel().tolist()]


def obs_interval_rows(t):
    return list(zip(chrom_names(t.chromosome), ints(t.start), ints(t.stop)))


def obs_location_rows(loc):
    return list(zip(chrom_names(loc.chromosome), ints(loc.position)))


def obs_track_dict(d):
    return {str(k): [observe.norm(x) for x in observe.column(np.asarray(v))] for k, v in d.items()}


def obs_ragged_values(r):
    """RunLengthRaggedArray / RaggedArray / 2-d array -> list of lists"""
    shape = r.shape
    if len(shape) < 2:
        raise observe.ObserverError('no row lengths on %r' % (type(r),))
    if isinstance(shape[1], (int, np.integer)):
        lengths = [int(shape[1])] * int(shape[0])
    else:
        lengths = [int(x) for x in np.atleast_1d(np.asarray(shape[1])).tolist()]
    flat = r.ravel()
    flat = flat.to_array() if hasattr(flat, 'to_array') else np.asarray(flat)
    flat = [observe.norm(x) for x in np.asarray(flat).tolist()]
    out, pos = [], 0
    for l in lengths:
        out.append(flat[pos:pos + l])
        pos += l
    if pos != len(flat):
        raise observe.MalformedLibraryValue('ragged flat size %d != sum(lengths) %d' % (len(flat), pos))
    return out


def obs_seq_rows(r):
    v = observe.column(r)
    return [v] if isinstance(v, str) else list(v)


# =====================================================================================================
# fixtures: the real library objects of one genome
# =====================================================================================================
class Fixture:
    def __init__(self, names, sizes, mode, paired, scratch):
        self.names, self.sizes, self.mode = tuple(names), tuple(sizes), mode
        self.size = dict(zip(names, sizes))
        self.included = M.included(names, mode)
        self.values = {'distinct': {n: M.distinct_values(n, s) for n, s in zip(names, sizes)}, 'paired': dict(paired)}
        self.seqs = {n: M.chrom_seq(n, s) for n, s in zip(names, sizes)}
        self.scratch = scratch
        self._c = {}
        self.gi_cache = {}

    def chrom_sizes(self):
        return {n: s for n, s in zip(self.names, self.sizes)}

    def _get(self, key, make):
        if key not in self._c:
            self._c[key] = make()
        return self._c[key]

    def genome(self):
        def make():
            import bionumpy as bnp
            from bionumpy.genomic_data.genome_context import ignore_underscores
            if self.mode == 'keepall':
                return bnp.Genome.from_dict(self.chrom_sizes())
            return bnp.Genome.from_dict(self.chrom_sizes(), filter_function=ignore_underscores)
        return self._get('genome', make)

    def geometry(self):
        def make():
            from bionumpy.genomic_data.geometry import Geometry
            return Geometry(self.chrom_sizes())
        return self._get('geometry', make)

    def track(self, kind):
        def make():
            from bionumpy.datatypes import BedGraph
            ch, st, en, va = [], [], [], []
            for n in self.names:
                for p, v in enumerate(self.values[kind][n]):
                    ch.append(n), st.append(p), en.append(p + 1), va.append(v)
            return self.genome().get_track(BedGraph(ch, np.array(st, dtype=int), np.array(en, dtype=int),
                                                    np.array(va, dtype=int)))
        return self._get(('track', kind), make)

    def seq(self, backend):
        def make():
            from bionumpy.genomic_data.genomic_sequence import GenomicSequence
            if backend == 'dict':
                return GenomicSequence.from_dict(dict(self.seqs))
            text = ''.join('>%s\n%s\n' % (n, self.seqs[n]) for n in self.names)
            path = os.path.join(self.scratch, hashlib.sha1(text.encode()).hexdigest()[:20] + '.fa')
            if not os.path.exists(path):
                with open(path, 'w') as f:
                    f.write(text)
            return self.genome().read_sequence(path)
        return self._get(('seq', backend), make)


def interval_table(rows, stranded):
    from bionumpy.datatypes import Interval, StrandedInterval
    ch = [r[0] for r in rows]
    st = np.array([r[1] for r in rows], dtype=int)
    en = np.array([r[2] for r in rows], dtype=int)
    if stranded:
        return StrandedInterval(ch, st, en, [r[3] for r in rows])
    return Interval(ch, st, en)


def location_table(rows):
    """two unstranded locations per entry: its first and its last base"""
    from bionumpy.datatypes import LocationEntry
    ch, pos = [], []
    for c, a, b, _ in rows:
        ch.extend([c, c])
        pos.extend([a, b - 1])
    return LocationEntry(ch, np.array(pos, dtype=int))


def location_rows(rows):
    out = []
    for c, a, b, s in rows:
        out.append((c, a, a + 1, s))
        out.append((c, b - 1, b, s))
    return out


# =====================================================================================================
# operations.  call(fx, rows, arg) -> library value (inside the judged try);  form says how it is observed
# =====================================================================================================
def _gi(fx, rows, stranded=False):
    """GenomicIntervals of the entries; one object per (case, strandedness) is shared by the operations of a case,
    as a user would (the replay gate re-runs a failing operation alone in a fresh process)"""
    key = (tuple(rows), stranded)
    gi = fx.gi_cache.get(key)
    if gi is None:
        if len(fx.gi_cache) > 64:
            fx.gi_cache.clear()
        gi = fx.gi_cache[key] = fx.genome().get_intervals(interval_table(rows, stranded), stranded=stranded)
    return gi


def _locs(fx, rows, stranded):
    if stranded:
        return _gi(fx, rows, True).get_location('start')
    return fx.genome().get_locations(location_table(rows))


def _windows(fx, rows, arg):
    kind, n, stranded = arg
    loc = _locs(fx, rows, stranded)
    return (loc.get_windows(flank=n) if kind == 'flank' else loc.get_windows(window_size=n)).get_data()


def _binned(fx, rows, arg):
    from bionumpy.genomic_data.binned_genome import BinnedGenome
    b = BinnedGenome(fx.genome().get_genome_context(), bin_size=arg)
    b.count(location_table(rows))
    return b.count_dict


def _offset_roundtrip(fx, rows, arg):
    go = fx.genome().get_genome_context().global_offset
    t = fx.genome().get_genome_context().mask_data(interval_table(rows, False))
    g = go.from_local_interval(t)
    back = go.to_local_interval(g)
    return (g, back)


OPS = {
    # name: (api, form, call, stranded?, needs genome-ordered input?)
    'g.mask': ('genome', 'track', lambda fx, rows, arg: _gi(fx, rows).get_mask().to_dict(), False, False),
    'g.pileup': ('genome', 'track', lambda fx, rows, arg: _gi(fx, rows).get_pileup().to_dict(), False, False),
    'g.mask_data': ('genome', 'rows', lambda fx, rows, arg: _gi(fx, rows).get_mask().get_data(), False, False),
    'g.merged': ('genome', 'rows', lambda fx, rows, arg: _gi(fx, rows).merged(arg).get_data(), False, True),
    'g.clip': ('genome', 'rows', lambda fx, rows, arg: _gi(fx, M.overhang(rows)).clip().get_data(), False, False),
    'g.clip_right': ('genome', 'rows', lambda fx, rows, arg: _gi(fx, M.overhang_right(rows)).clip().get_data(), False, False),
    'g.extend': ('genome', 'rows', lambda fx, rows, arg: _gi(fx, rows, True).extended_to_size(arg).get_data(), True, False),
    'g.sorted': ('genome', 'rows', lambda fx, rows, arg: _gi(fx, rows).sorted().get_data(), False, False),
    'g.location': ('genome', 'locs', lambda fx, rows, arg: _gi(fx, rows, arg[1]).get_location(arg[0]), None, False),
    'g.windows': ('genome', 'rows', _windows, None, False),
    'g.loc_sorted': ('genome', 'locs', lambda fx, rows, arg: _locs(fx, rows, False).sorted(), False, False),
    'g.array': ('genome', 'aligned', lambda fx, rows, arg: fx.track(arg[0])[_gi(fx, rows, arg[1])], None, False),
    'g.seq': ('genome', 'aligned_seq', lambda fx, rows, arg: fx.seq(arg[0])[_gi(fx, rows, arg[1])], None, False),
    'g.binned': ('raw', 'track', _binned, False, False),
    'g.offsets': ('genome', 'offsets', _offset_roundtrip, False, False),
    'geo.mask': ('geometry', 'track', lambda fx, rows, arg: fx.geometry().get_mask(interval_table(rows, False)).to_dict(),
                 False, False),
    'geo.pileup': ('geometry', 'track',
                   lambda fx, rows, arg: fx.geometry().get_pileup(interval_table(rows, False)).to_dict(), False, False),
    'geo.clip': ('geometry', 'rows', lambda fx, rows, arg: fx.geometry().clip(interval_table(M.overhang(rows), False)),
                 False, False),
    'geo.extend': ('geometry', 'rows',
                   lambda fx, rows, arg: fx.geometry().extend_to_size(interval_table(rows, True), arg), True, False),
    'geo.merge': ('geometry', 'rows', lambda fx, rows, arg: fx.geometry().merge_intervals(interval_table(rows, False), arg),
                  False, True),
    'geo.sort': ('geometry', 'rows', lambda fx, rows, arg: fx.geometry().sort(interval_table(rows, False)), False, False),
    'geo.jaccard': ('geometry', 'scalar',
                    lambda fx, rows, arg: fx.geometry().jaccard(
                        interval_table(rows, False),
                        interval_table(M.sort_key_rows(M.mirrored(rows, fx.names, fx.sizes), fx.names), False)),
                    False, True),
}
ALIGNED_OPS = {'g.clip', 'g.clip_right', 'g.extend', 'g.location', 'g.windows', 'g.array', 'g.seq', 'geo.clip', 'geo.extend'}
INSIDE_OPS = {'g.clip', 'g.clip_right', 'g.extend', 'g.windows', 'geo.clip', 'geo.extend'}
LOC_INPUT_OPS = {'g.loc_sorted', 'g.binned'}      # the input table is location_rows(rows); g.windows: if unstranded


def op_is_stranded(op, arg):
    s = OPS[op][3]
    if s is None:
        return bool(arg[-1])
    return s


def plan(level, order, first_pattern, geometry_too):
    """(op, arg) list of one case.  Unstranded operations run only with the first strand pattern of a case group.
    level 'full': every operation x every argument; 'std': the same operations with thinned arguments;
    'thin': the operations that work in concatenated coordinates or on genome-wide structures."""
    out = []

    def add(op, arg=None):
        if OPS[op][0] == 'geometry' and not geometry_too:
            return
        if OPS[op][4] and order != 'genome' and not (order == 'interleaved' and op == 'g.merged'):
            return
        if not op_is_stranded(op, arg) and not first_pattern:
            return
        out.append((op, arg))

    full, std = level == 'full', level == 'std'
    if order == 'genome':
        add('g.mask'), add('g.pileup'), add('g.mask_data')
        for d in (0, 1, 2):
            add('g.merged', d)
        add('g.clip'), add('g.clip_right'), add('g.sorted'), add('g.offsets')
        add('geo.mask'), add('geo.pileup'), add('geo.sort'), add('geo.jaccard')
        for d in (0, 1, 2):
            add('geo.merge', d)
        if full or std:
            add('g.loc_sorted'), add('geo.clip')
            for L in (1, 2, 3, 4):
                add('g.extend', L)
            for L in ((1, 2, 3, 4) if full else (1, 3)):
                add('geo.extend', L)
            for where in ('start', 'stop', 'center'):
                add('g.location', (where, False)), add('g.location', (where, True))
            for f in (0, 1, 2):
                add('g.windows', ('flank', f, False))
            for w in (1, 2, 3):
                add('g.windows', ('size', w, False))
            for f in ((0, 1, 2) if full else (1,)):
                add('g.windows', ('flank', f, True))
            for w in ((1, 2, 3) if full else (2,)):
                add('g.windows', ('size', w, True))
            add('g.array', ('distinct', False)), add('g.array', ('distinct', True)), add('g.array', ('paired', True))
            add('g.seq', ('dict', True)), add('g.seq', ('fasta', False)), add('g.seq', ('fasta', True))
            if full:
                add('g.array', ('paired', False)), add('g.seq', ('dict', False))
            for b in ((1, 2, 3) if full else (1, 2)):
                add('g.binned', b)
        else:
            add('g.extend', 2), add('g.windows', ('flank', 1, True))
            add('g.array', ('distinct', True)), add('g.array', ('paired', False)), add('g.seq', ('fasta', True))
            add('g.binned', 2)
    elif order == 'interleaved':
        # rows not grouped by chromosome (each chromosome's own rows still start-sorted): merged() needs no more than that
        for d in (0, 1, 2):
            add('g.merged', d)
        add('g.mask'), add('g.pileup'), add('g.mask_data'), add('g.sorted')
    else:
        add('g.mask'), add('g.sorted'), add('g.array', ('distinct', True)), add('geo.sort')
        if full or std:
            add('g.loc_sorted'), add('g.clip'), add('g.clip_right'), add('g.seq', ('fasta', True))
        if full:
            add('g.pileup'), add('g.extend', 2), add('g.location', ('stop', True)), add('g.windows', ('flank', 1, True))
            add('g.seq', ('dict', True)), add('geo.mask')
    return out


# ---------------------------------------------------------------- execution + observation
def execute(fx, rows, op, arg):
    """-> ('ok', observation) | ('raises', exception).  Observation forms:
         track   {chromosome: [values]}
         rows    [(chromosome, ...)]
         aligned [value per input row]
         scalar  float
         offsets (global starts, global stops, [(chromosome, start, stop)] after the round trip)"""
    api, form, call = OPS[op][0], OPS[op][1], OPS[op][2]
    try:
        v = call(fx, rows, arg)
    except observe.ObserverError:
        raise
    except Exception as e:
        return ('raises', e)
    try:
        if form == 'track':
            return ('ok', obs_track_dict(v))
        if form == 'rows':
            return ('ok', obs_interval_rows(v))
        if form == 'locs':
            return ('ok', obs_location_rows(v))
        if form == 'aligned':
            return ('ok', obs_ragged_values(v))
        if form == 'aligned_seq':
            return ('ok', obs_seq_rows(v))
        if form == 'scalar':
            return ('ok', float(v))
        if form == 'offsets':
            return ('ok', (ints(v[0].start), ints(v[0].stop), obs_interval_rows(v[1])))
    except (observe.MalformedLibraryValue, observe.ColumnLengthMismatch) as e:
        return ('raises', e)
    raise observe.ObserverError('unknown form %r' % (form,))


def input_rows(op, arg, rows):
    """the rows the operation's input table is made of (for row-aligned results)"""
    if op in LOC_INPUT_OPS or (op == 'g.windows' and not arg[2]):
        return location_rows(rows)
    return rows


def split(fx, mode, op, arg, rows, value):
    """observation -> (per-chromosome value dict, chromosome sequence or None, problems list)"""
    form = OPS[op][1]
    inc = M.included(fx.names, mode)
    problems = []
    if form == 'track':
        if list(value.keys()) != inc:
            problems.append('chromosomes of the result are %r, genome has %r' % (list(value.keys()), inc))
        return {c: value.get(c) for c in inc}, None, problems
    if form in ('rows', 'locs'):
        per = {c: [] for c in inc}
        seq = []
        for r in value:
            if r[0] in per:
                per[r[0]].append(tuple(r[1:]))
                seq.append(r[0])
            elif r[0] in fx.names:
                pass                      # row kept on an ignored chromosome: not judged
            else:
                problems.append('row on unknown chromosome %r' % (r[0],))
        return per, seq, problems
    if form in ('aligned', 'aligned_seq'):
        inp = [r for r in input_rows(op, arg, rows) if r[0] in inc]
        per = {c: [] for c in inc}
        if len(value) != len(inp):
            problems.append('%d result rows for %d entries on included chromosomes' % (len(value), len(inp)))
            return per, None, problems
        for r, v in zip(inp, value):
            per[r[0]].append(v)
        return per, None, problems
    raise observe.ObserverError('split: form %r' % (form,))


# ---------------------------------------------------------------- the model's answer per chromosome
def model(fx, mode, op, arg, rows):
    """{chromosome: expected} for the included chromosomes, or None where only the differential oracle applies"""
    inc = M.included(fx.names, mode)
    out = {}
    for c in inc:
        S = fx.size[c]
        rc = M.of_chrom(rows, c)
        ivs = [(a, b) for _, a, b, _ in rc]
        if op in ('g.mask', 'geo.mask'):
            out[c] = M.mask(ivs, S)
        elif op in ('g.pileup', 'geo.pileup'):
            out[c] = M.pileup(ivs, S)
        elif op == 'g.mask_data':
            out[c] = M.mask_runs(ivs, S)
        elif op in ('g.merged', 'geo.merge'):
            out[c] = M.merged(ivs, S, arg)
        elif op in ('g.clip', 'geo.clip'):
            out[c] = M.clip([(a - 1, b + 1) for a, b in ivs], S)
        elif op == 'g.clip_right':
            out[c] = M.clip([(a, b + 1) for a, b in ivs], S)
        elif op in ('g.extend', 'geo.extend'):
            out[c] = M.extend([(a, b, s) for _, a, b, s in rc], arg, S)
        elif op == 'g.sorted':
            out[c] = sorted(ivs)
        elif op == 'geo.sort':
            return None           # only (chromosome, start) order is promised: judged in judge_sort
        elif op == 'g.loc_sorted':
            out[c] = sorted((p,) for _, p, _, _ in location_rows(rc))
        elif op == 'g.windows':
            kind, n, stranded = arg
            if kind != 'flank':
                return None
            pos = [(a if s == '+' else b - 1) for _, a, b, s in rc] if stranded else [p for _, p, _, _ in location_rows(rc)]
            out[c] = [M.window_flank(p, n, S) for p in pos]
        elif op == 'g.array':
            out[c] = [M.values_under(fx.values[arg[0]][c], a, b, s, arg[1]) for _, a, b, s in rc]
        elif op == 'g.seq':
            out[c] = [M.seq_under(fx.seqs[c], a, b, s, arg[1]) for _, a, b, s in rc]
        elif op == 'g.binned':
            out[c] = M.binned([p for _, p, _, _ in location_rows(rc)], S, arg)
        else:
            return None
    return out


def norm_value(v):
    return observe.norm(v) if not isinstance(v, str) else v


def same(a, b):
    return json.dumps(a, default=list) == json.dumps(b, default=list)


# =====================================================================================================
# one case
# =====================================================================================================
class Ctx:
    """per-shard state: scratch directory, fixture caches, single-contig reference cache"""

    def __init__(self, scratch):
        self.scratch = scratch
        self.fixtures = {}
        self.single = {}

    def fixture(self, names, sizes, mode, paired=None):
        if paired is None:
            paired = M.paired_values(names, sizes)
        key = (tuple(names), tuple(sizes), mode, json.dumps(paired, sort_keys=True))
        fx = self.fixtures.get(key)
        if fx is None:
            if len(self.fixtures) > 400:
                self.fixtures.clear()
            fx = self.fixtures[key] = Fixture(names, sizes, mode, paired, self.scratch)
        return fx


def features_of(fx, mode, op, arg, rows):
    gap = M.cross_gap(fx.names, fx.sizes, mode, rows)
    f = {'op': op, 'underscore': M.underscore_status(fx.names, mode, rows),
         'empty_chrom': M.has_empty_chrom(fx.names, mode, rows),
         'all_empty': not any(r[0] in M.included(fx.names, mode) for r in rows)}
    if op in ('g.merged', 'geo.merge'):
        f['d'] = '0' if arg == 0 else '>0'
        f['cross_gap_le_d'] = gap is not None and gap <= arg
    else:
        f['boundary_touch'] = gap == 0
        if op in ('g.array', 'g.seq', 'g.location', 'g.windows'):
            f['stranded'] = bool(arg[-1])
    return f


def case_dict(fx, mode, rows, op, arg, paired=None):
    return {'names': list(fx.names), 'sizes': list(fx.sizes), 'mode': mode, 'rows': [list(r) for r in rows],
            'op': op, 'arg': list(arg) if isinstance(arg, tuple) else arg,
            'paired': fx.values['paired']}


def single_reference(ctx, res, fx, mode, op, arg, rows, c):
    """the same operation on a one-chromosome genome holding only c's entries -> ('ok', value) | ('raises', name);
    judged against the definition when first computed (clause 'one-chromosome-genome-...')."""
    rc = M.of_chrom(rows, c)
    pv = fx.values['paired'][c]
    key = (op, json.dumps(arg), c, fx.size[c], mode, json.dumps(rc), json.dumps(pv) if op == 'g.array' else None)
    hit = ctx.single.get(key)
    if hit is not None:
        return hit
    fx1 = ctx.fixture([c], [fx.size[c]], mode, {c: pv})
    st, v = execute(fx1, rc, op, arg)
    res.transitions += 1
    mdl = model(fx1, mode, op, arg, rc)
    if st == 'raises':
        out = ('raises', exc_name(v))
        res.fail('one-chromosome-genome-raises', case_dict(fx1, mode, rc, op, arg),
                 {'op': op, 'arg': _argclass(op, arg), 'name_has_underscore': '_' in c, 'chromosome_has_entries': bool(rc)},
                 expected=(mdl or {}).get(c, 'a result'), observed='%s: %s' % (exc_name(v), str(v)[:200]), tb=tb_string(v))
    else:
        per, seq, problems = split(fx1, mode, op, arg, rc, v)
        out = ('ok', per[c])
        bad = None
        if problems:
            bad = problems
        elif mdl is not None and not same(per[c], mdl[c]):
            bad = per[c]
        elif op in INSIDE_OPS and not all(0 <= r[0] <= r[1] <= fx.size[c] for r in per[c]):
            bad = per[c]
        if bad is not None:
            out = ('wrong', per[c])
            res.fail('one-chromosome-genome-differs-from-definition', case_dict(fx1, mode, rc, op, arg),
                     {'op': op, 'arg': _argclass(op, arg), 'name_has_underscore': '_' in c,
                      'chromosome_has_entries': bool(rc)},
                     expected=(mdl or {}).get(c), observed=bad)
    ctx.single[key] = out
    return out


def _argclass(op, arg):
    if op in ('g.merged', 'geo.merge'):
        return '0' if arg == 0 else '>0'
    if isinstance(arg, tuple):
        return '/'.join(str(a) for a in arg if not isinstance(a, int) or isinstance(a, bool))
    return None if arg is None else 'n'


class _Singles:
    """one-chromosome reference runs, computed on demand"""

    def __init__(self, *a):
        self.a = a
        self.got = {}

    def __getitem__(self, c):
        if c not in self.got:
            ctx, res, fx, mode, op, arg, rows = self.a
            self.got[c] = single_reference(ctx, res, fx, mode, op, arg, rows, c)
        return self.got[c]


def judge(ctx, res, fx, mode, rows, op, arg):
    """run one operation on the whole genome and judge it; returns a short outcome string"""
    api = OPS[op][0]
    eff_mode = 'default' if api == 'geometry' else mode          # Geometry always applies the default filter
    inc = M.included(fx.names, eff_mode)
    ignored_entries = any(r[0] not in inc for r in rows)
    if len(fx.names) == 1 and inc and OPS[op][1] not in ('scalar', 'offsets') and op != 'geo.sort':
        # a one-chromosome genome: the case IS the single-contig run (clauses 'one-chromosome-genome-...')
        s = single_reference(ctx, res, fx, eff_mode, op, arg, rows, inc[0])
        return '%s:%s' % (op, s[0] if s[0] != 'raises' else 'raises:' + s[1])
    st, v = execute(fx, rows, op, arg)
    res.transitions += 1
    if OPS[op][1] == 'scalar':
        return judge_scalar(res, fx, eff_mode, rows, op, arg, st, v)
    if OPS[op][1] == 'offsets':
        return judge_offsets(res, fx, eff_mode, rows, op, arg, st, v)
    if api in ('geometry', 'raw') and ignored_entries and st == 'raises':
        res.raising += 1
        res.extra['raw-table API raises on entries of an ignored chromosome (not judged)'] += 1
        return op + ':raises-on-ignored-entries'
    singles = _Singles(ctx, res, fx, eff_mode, op, arg, rows)
    mdl = model(fx, eff_mode, op, arg, rows)
    if st == 'raises':
        name = exc_name(v)
        if any(singles[c] == ('raises', name) for c in inc):
            res.extra['whole-genome failure already explained by a one-chromosome failure'] += 1
            return '%s:raises:%s(as on one chromosome)' % (op, name)
        res.fail('whole-genome-raises', case_dict(fx, mode, rows, op, arg), features_of(fx, eff_mode, op, arg, rows),
                 expected={c: (mdl[c] if mdl is not None else singles[c][1]) for c in inc},
                 observed='%s: %s' % (name, str(v)[:200]), tb=tb_string(v))
        return '%s:raises:%s' % (op, name)
    per, seq, problems = split(fx, eff_mode, op, arg, rows, v)
    if problems:
        res.fail('chromosome-order-or-foreign-rows', case_dict(fx, mode, rows, op, arg),
                 features_of(fx, eff_mode, op, arg, rows), expected='rows / tracks for exactly %r' % (inc,), observed=problems)
        return op + ':foreign'
    if op == 'geo.sort':
        return judge_sort(res, fx, eff_mode, rows, op, arg, per, seq)
    bad = []
    explained = 0
    for c in inc:
        if mdl is not None and same(per[c], mdl[c]):
            continue          # equals the single-contig definition; one-chromosome genomes are judged against the
            #                   same definition in the one-chromosome cases, so the differential clause follows
        s = singles[c]
        ref = mdl[c] if mdl is not None else (s[1] if s[0] == 'ok' else None)
        if ref is None:
            res.extra['chromosome not judged: no definition and the one-chromosome run failed'] += 1
            continue
        if same(per[c], ref) and (s[0] != 'ok' or same(per[c], s[1])):
            continue
        if s[0] == 'wrong' and same(per[c], s[1]):
            explained += 1
            continue
        if s[0] == 'raises' and mdl is not None and same(per[c], mdl[c]):
            continue                      # whole genome right where the one-chromosome run raised (reported there)
        bad.append((c, per[c], ref, s))
    if bad:
        c, got, ref, s = bad[0]
        res.fail('chromosome-result-differs', case_dict(fx, mode, rows, op, arg), features_of(fx, eff_mode, op, arg, rows),
                 expected={'chromosome': c, 'single_contig_definition': ref, 'one_chromosome_genome': list(s)},
                 observed={'chromosome': c, 'restricted_result': got})
        return op + ':differs'
    if explained:
        res.extra['whole-genome difference already explained by a one-chromosome failure'] += 1
    # grouping / order of the rows
    if seq is not None:
        if op in ALIGNED_OPS:
            want = [r[0] for r in input_rows(op, arg, rows) if r[0] in inc]
        else:
            want = [c for c in inc for _ in per[c]]
        if seq != want:
            res.fail('chromosome-order-or-foreign-rows', case_dict(fx, mode, rows, op, arg),
                     features_of(fx, eff_mode, op, arg, rows), expected=want, observed=seq)
            return op + ':order'
    if op in INSIDE_OPS:
        for c in inc:
            if not all(0 <= r[0] <= r[1] <= fx.size[c] for r in per[c]):
                if singles[c][0] == 'wrong':
                    continue
                res.fail('result-outside-chromosome', case_dict(fx, mode, rows, op, arg),
                         features_of(fx, eff_mode, op, arg, rows), expected='0 <= start <= stop <= %d' % fx.size[c],
                         observed={c: per[c]})
                return op + ':outside'
    return op + ':ok'


def judge_sort(res, fx, mode, rows, op, arg, per, seq):
    inc = M.included(fx.names, mode)
    want_seq = [c for c in inc for _ in per[c]]
    ok = seq == want_seq
    for c in inc:
        exp = sorted((a, b) for _, a, b, _ in M.of_chrom(rows, c))
        if sorted(per[c]) != exp or [r[0] for r in per[c]] != sorted(r[0] for r in per[c]):
            ok = False
    if not ok:
        res.fail('chromosome-result-differs', case_dict(fx, mode, rows, op, arg), features_of(fx, mode, op, arg, rows),
                 expected='a permutation grouped in genome order, starts ascending inside each chromosome',
                 observed={'order': seq, 'per_chromosome': per})
        return op + ':differs'
    return op + ':ok'


def judge_scalar(res, fx, mode, rows, op, arg, st, v):
    inc = M.included(fx.names, mode)
    if any(r[0] not in inc for r in rows):
        if st == 'raises':
            res.raising += 1
            return op + ':raises-on-ignored-entries'
    exp = M.jaccard(fx.names, fx.sizes, mode, rows, M.mirrored(rows, fx.names, fx.sizes))
    if exp is None:
        res.extra['jaccard of an empty union (undefined, not judged)'] += 1
        return op + ':undefined'
    if st == 'raises':
        res.fail('whole-genome-raises', case_dict(fx, mode, rows, op, arg), features_of(fx, mode, op, arg, rows),
                 expected=exp, observed='%s: %s' % (exc_name(v), str(v)[:200]), tb=tb_string(v))
        return op + ':raises:' + exc_name(v)
    if abs(v - exp) > 1e-12:
        res.fail('chromosome-result-differs', case_dict(fx, mode, rows, op, arg), features_of(fx, mode, op, arg, rows),
                 expected=exp, observed=v)
        return op + ':differs'
    return op + ':ok'


def judge_offsets(res, fx, mode, rows, op, arg, st, v):
    inc = M.included(fx.names, mode)
    feats = features_of(fx, mode, op, arg, rows)
    rin = [r for r in rows if r[0] in inc]
    if st == 'raises':
        res.fail('whole-genome-raises', case_dict(fx, mode, rows, op, arg), feats, expected='global intervals',
                 observed='%s: %s' % (exc_name(v), str(v)[:200]), tb=tb_string(v))
        return op + ':raises:' + exc_name(v)
    gs, ge, back = v
    off, total = M.offsets(fx.names, fx.sizes, mode)
    exp = ([off[c] + a for c, a, b, _ in rin], [off[c] + b for c, a, b, _ in rin], [(c, a, b) for c, a, b, _ in rin])
    if not same([gs, ge, back], list(exp)):
        res.fail('offset-bijection', case_dict(fx, mode, rows, op, arg), feats, expected=exp, observed=[gs, ge, back])
        return op + ':differs'
    return op + ':ok'


def run_case(ctx, res, fx, mode, sets, pattern, order, first_pattern, level='full'):
    rows = M.make_rows(fx.names, sets, pattern, order)
    geometry_too = (mode == 'default') or not any('_' in n for n in fx.names)
    ops = plan(level, order, first_pattern, geometry_too)
    if not ops:
        return
    res.evaluations += 1
    res.states += 1
    res.planned += 1
    res.traces += 1
    inc = M.included(fx.names, mode)
    gap = M.cross_gap(fx.names, fx.sizes, mode, rows)
    if len(inc) >= 2 and (gap == 0 or M.has_empty_chrom(fx.names, mode, rows)):
        res.nontrivial += 1
    for op, arg in ops:
        o = judge(ctx, res, fx, mode, rows, op, arg)
        res.outcome(o)
    res.outcome('case:k%d:%s:gap%s:%s' % (len(inc), M.underscore_status(fx.names, mode, rows),
                                          'none' if gap is None else min(gap, 3),
                                          'empty-chrom' if M.has_empty_chrom(fx.names, mode, rows) else 'all-populated'))
    if len(res.samples) < 3 and len(inc) >= 2 and gap == 0:
        res.sample({'genome': dict(zip(fx.names, fx.sizes)), 'mode': mode, 'entries': [list(r) for r in rows],
                    'operations': len(ops)})


# =====================================================================================================
# space 'offsets': GlobalOffset on every position and interval of every genome; genome layout / filtering
# =====================================================================================================
def check_offsets(res, names, sizes, mode, scratch, with_file):
    import bionumpy as bnp
    from bionumpy.datatypes import Interval
    from bionumpy.genomic_data.genome_context import GenomeContext, ignore_underscores
    res.evaluations += 1
    res.states += 1
    res.planned += 1
    res.traces += 1
    d = dict(zip(names, sizes))
    inc = M.included(names, mode)
    off, total = M.offsets(names, sizes, mode)
    case = {'space': 'offsets', 'names': list(names), 'sizes': list(sizes), 'mode': mode}
    feats = {'op': 'offsets', 'underscore': M.underscore_status(names, mode, [(n, 0, 1, '+') for n in names]),
             'n_included': min(len(inc), 2)}
    if len(inc) >= 2:
        res.nontrivial += 1
    try:
        ctxs = {}
        if mode == 'keepall':
            ctxs['Genome.from_dict'] = bnp.Genome.from_dict(d).get_genome_context()
            ctxs['GenomeContext.from_dict(keep_all)'] = GenomeContext.from_dict(d, None)
        else:
            ctxs['Genome.from_dict(ignore_underscores)'] = bnp.Genome.from_dict(
                d, filter_function=ignore_underscores).get_genome_context()
            ctxs['GenomeContext.from_dict'] = GenomeContext.from_dict(d)
            if with_file:
                path = os.path.join(scratch, 'g%s.chrom.sizes' % hashlib.sha1(json.dumps([names, sizes]).encode()).hexdigest()[:16])
                with open(path, 'w') as f:
                    f.write(''.join('%s\t%d\n' % (n, s) for n, s in zip(names, sizes)))
                ctxs['Genome.from_file'] = bnp.Genome.from_file(path).get_genome_context()
        res.transitions += len(ctxs)
        for how, gc in ctxs.items():
            layout = [(str(k), int(v)) for k, v in gc.chrom_sizes.items()]
            if layout != [(n, d[n]) for n in inc] or int(gc.size) != total:
                res.fail('genome-layout', dict(case, how=how), dict(feats, how=how),
                         expected=[[n, d[n]] for n in inc], observed=layout)
                res.outcome('layout:differs')
                return
        if not inc:
            res.outcome('offsets:no-included-chromosome')
            return
        # per-chromosome extraction by NAME (prefix names must not be confused): track[name] == that chromosome's values
        from bionumpy.datatypes import BedGraph
        genome = bnp.Genome.from_dict(d) if mode == 'keepall' else bnp.Genome.from_dict(d, filter_function=ignore_underscores)
        vals = {n: M.distinct_values(n, s) for n, s in zip(names, sizes)}
        rows = [(n, p, v) for n in inc for p, v in enumerate(vals[n])]
        track = genome.get_track(BedGraph([r[0] for r in rows], np.array([r[1] for r in rows], dtype=int),
                                          np.array([r[1] + 1 for r in rows], dtype=int),
                                          np.array([r[2] for r in rows], dtype=int)))
        got = {n: [int(x) for x in np.asarray(track[n].to_array()).tolist()] for n in inc}
        whole = obs_track_dict(track.to_dict())
        res.transitions += 2 + len(inc)
        if got != {n: vals[n] for n in inc} or whole != got:
            res.fail('genome-layout', dict(case, what='track-by-name'), dict(feats, what='track-by-name'),
                     expected={n: vals[n] for n in inc}, observed={'by_name': got, 'to_dict': whole})
            res.outcome('layout:track-by-name-differs')
            return
        gc = list(ctxs.values())[0]
        go = gc.global_offset
        # every valid position, local -> global -> local
        ch = [c for c in inc for _ in range(d[c])]
        xs = [x for c in inc for x in range(d[c])]
        g = ints(go.from_local_coordinates(ch, np.array(xs, dtype=int)))
        exp_g = [off[c] + x for c, x in zip(ch, xs)]
        back_c, back_x = go.to_local_coordinates(np.array(exp_g, dtype=int))
        back = list(zip(chrom_names(back_c), ints(back_x)))
        # every global position, global -> local -> global
        lc, lx = go.to_local_coordinates(np.arange(total))
        loc = list(zip(chrom_names(lc), ints(lx)))
        exp_loc = [M.to_local(names, sizes, mode, x) for x in range(total)]
        again = ints(go.from_local_coordinates([c for c, _ in exp_loc], np.array([x for _, x in exp_loc], dtype=int)))
        res.transitions += 4
        if g != exp_g or sorted(g) != list(range(total)) or back != list(zip(ch, xs)) or loc != exp_loc \
                or again != list(range(total)):
            res.fail('offset-bijection', dict(case, what='positions'), dict(feats, what='positions'),
                     expected={'global': exp_g, 'local': exp_loc},
                     observed={'global': g, 'back': back, 'local': loc, 'again': again})
            res.outcome('offsets:positions-differ')
            return
        # every valid interval
        rows = [(c, a, b) for c in inc for a in range(d[c]) for b in range(a + 1, d[c] + 1)]
        t = gc.mask_data(Interval([r[0] for r in rows], np.array([r[1] for r in rows], dtype=int),
                                  np.array([r[2] for r in rows], dtype=int)))
        gi = go.from_local_interval(t)
        gs, ge = ints(gi.start), ints(gi.stop)
        back = obs_interval_rows(go.to_local_interval(gi))
        res.transitions += 2
        if gs != [off[c] + a for c, a, b in rows] or ge != [off[c] + b for c, a, b in rows] or back != rows:
            res.fail('offset-bijection', dict(case, what='intervals'), dict(feats, what='intervals'),
                     expected=rows, observed={'global_start': gs, 'global_stop': ge, 'back': back})
            res.outcome('offsets:intervals-differ')
            return
        # the bounds check: a position == size must not be mapped into the next chromosome silently
        leaked = []
        for c in inc:
            try:
                v = ints(go.from_local_coordinates([c], np.array([d[c]], dtype=int)))
                leaked.append((c, v))
            except Exception:
                pass
        res.transitions += len(inc)
        if leaked:
            res.extra['from_local_coordinates accepts position == size (not judged: outside the valid positions)'] += 1
        res.outcome('offsets:ok:k%d' % len(inc))
    except observe.ObserverError:
        raise
    except Exception as e:
        res.fail('whole-genome-raises', case, feats, expected='conversion succeeds on valid positions',
                 observed='%s: %s' % (exc_name(e), str(e)[:200]), tb=tb_string(e))
        res.outcome('offsets:raises:' + exc_name(e))


# =====================================================================================================
# shard runner
# =====================================================================================================
def _case_iter(names, menu, first_size=None):
    f = M.MENUS[menu]
    for mode in _modes(names):
        for sizes in itertools.product(SIZES, repeat=len(names)):
            if first_size is not None and sizes[0] != first_size:
                continue
            for sets in itertools.product(*[f(s) for s in sizes]):
                yield mode, sizes, sets


def _patterns(tier, n_rows):
    pats = ['+-', '-+'] if tier == 'quick' else list(M.STRAND_PATTERNS)
    if n_rows == 0:
        return pats[:1]
    out, seen = [], set()
    for p in pats:
        eff = ''.join(M.strand_of(p, i) for i in range(n_rows))
        if eff not in seen:
            seen.add(eff)
            out.append(p)
    return out


def run_shard(desc, deadline):
    res = Result()
    scratch = tempfile.mkdtemp(prefix='c10_', dir='/dev/shm')
    t0 = time.process_time()
    try:
        if desc['space'] == 'dtype':
            check_dtype(res, desc['dtype'])
        elif desc['space'] == 'offsets':
            _run_offsets(res, desc, deadline, scratch)
        else:
            _run_ops(res, desc, deadline, scratch)
    finally:
        shutil.rmtree(scratch, ignore_errors=True)
    res.extra['cpu_seconds(all shards)'] += round(time.process_time() - t0, 2)
    return res


def _run_offsets(res, desc, deadline, scratch):
    i = 0
    for names in itertools.permutations(M.NAME_MENU, desc['k']):
        for sizes in itertools.product(SIZES, repeat=desc['k']):
            i += 1
            if i % desc['of'] != desc['part']:
                continue
            if deadline.expired():
                res.capped = True
                return
            for mode in M.MODES:
                if mode == 'default' and not any('_' in n for n in names) and desc['k'] > 2:
                    continue
                check_offsets(res, names, sizes, mode, scratch, with_file=(desc['k'] <= 2 or desc['tier'] != 'quick'))


def _run_ops(res, desc, deadline, scratch):
    ctx = Ctx(scratch)
    names = tuple(desc['names'])
    tier = desc['tier']
    for i, (mode, sizes, sets) in enumerate(_case_iter(names, desc['menu'], desc.get('first_size'))):
        if i % desc['of'] != desc['part']:
            continue
        if deadline.expired():
            res.capped = True
            return
        fx = ctx.fixture(names, sizes, mode)
        n_rows = sum(len(s) for s in sets)
        n_pop = sum(1 for s_ in sets if s_)
        orders = ('genome', 'reversed') if n_rows >= 2 else ('genome',)
        if n_rows >= 3 and n_pop >= 2:
            orders += ('interleaved',)
        for order in orders:
            for pi, pattern in enumerate(_patterns(tier, n_rows)):
                run_case(ctx, res, fx, mode, sets, pattern, order, first_pattern=(pi == 0), level=desc['plan'])


# =====================================================================================================
# replay
# =====================================================================================================
def replay_case(case):
    res = Result()
    scratch = tempfile.mkdtemp(prefix='c10_', dir='/dev/shm')
    try:
        if case.get('space') == 'dtype':
            check_dtype(res, case['dtype'])
            return [{'kind': g['kind'], 'features': g['features'], 'observed': g['exemplars'][0]['observed'],
                     'expected': g['exemplars'][0]['expected'], 'traceback': g['exemplars'][0]['traceback']}
                    for g in res.fail_groups.values() if g['exemplars'][0]['case'].get('op') == case.get('op')]
        if case.get('space') == 'offsets':
            check_offsets(res, tuple(case['names']), tuple(case['sizes']), case['mode'], scratch, with_file=True)
        else:
            ctx = Ctx(scratch)
            fx = ctx.fixture(tuple(case['names']), tuple(case['sizes']), case['mode'], case.get('paired'))
            rows = [tuple(r) for r in case['rows']]
            arg = tuple(case['arg']) if isinstance(case['arg'], list) else case['arg']
            judge(ctx, res, fx, case['mode'], rows, case['op'], arg)
    finally:
        shutil.rmtree(scratch, ignore_errors=True)
    return [{'kind': g['kind'], 'features': g['features'], 'observed': g['exemplars'][0]['observed'],
             'expected': g['exemplars'][0]['expected'], 'traceback': g['exemplars'][0]['traceback']}
            for g in res.fail_groups.values()]


REPRO_CALL = {
    'g.mask': 'print(gi.get_mask().to_dict())',
    'g.pileup': 'print(gi.get_pileup().to_dict())',
    'g.mask_data': 'print(gi.get_mask().get_data())',
    'g.merged': 'print(gi.merged(ARG).get_data())',
    'g.clip': 'print(genome.get_intervals(bnp.Interval(chrom, start - 1, stop + 1)).clip().get_data())',
    'g.clip_right': 'print(genome.get_intervals(bnp.Interval(chrom, start, stop + 1)).clip().get_data())',
    'g.extend': 'print(gs.extended_to_size(ARG).get_data())',
    'g.sorted': 'print(gi.sorted().get_data())',
    'g.location': 'print((gs if ARG[1] else gi).get_location(ARG[0]).data)',
    'g.windows': ('loc = gs.get_location("start") if ARG[2] else genome.get_locations(bnp.datatypes.LocationEntry('
                  'np.repeat(chrom, 2).tolist(), np.ravel(np.column_stack([start, stop - 1]))))\n'
                  'print((loc.get_windows(flank=ARG[1]) if ARG[0] == "flank" else loc.get_windows(window_size=ARG[1])).get_data())'),
    'g.loc_sorted': ('print(genome.get_locations(bnp.datatypes.LocationEntry(np.repeat(chrom, 2).tolist(), '
                     'np.ravel(np.column_stack([start, stop - 1])))).sorted().data)'),
    'g.array': ('bg = bnp.datatypes.BedGraph([c for c in sizes for _ in range(sizes[c])], [p for c in sizes for p in range(sizes[c])], '
                '[p + 1 for c in sizes for p in range(sizes[c])], list(range(10, 10 + sum(sizes.values()))))\n'
                'print(genome.get_track(bg)[gs if ARG[1] else gi])'),
    'g.seq': ('from bionumpy.genomic_data.genomic_sequence import GenomicSequence\n'
              'print(GenomicSequence.from_dict({c: ("ACGTGACTCATG" * 2)[:sizes[c]] for c in sizes})[gs if ARG[1] else gi])'),
    'g.binned': ('from bionumpy.genomic_data.binned_genome import BinnedGenome\n'
                 'b = BinnedGenome(genome.get_genome_context(), bin_size=ARG)\n'
                 'b.count(bnp.datatypes.LocationEntry(np.repeat(chrom, 2).tolist(), np.ravel(np.column_stack([start, stop - 1]))))\n'
                 'print(b.count_dict)'),
    'g.offsets': ('go = genome.get_genome_context().global_offset\n'
                  'g = go.from_local_interval(genome.get_genome_context().mask_data(bnp.Interval(chrom, start, stop)))\n'
                  'print(g, go.to_local_interval(g))'),
    'geo.mask': 'print(geo.get_mask(bnp.Interval(chrom, start, stop)).to_dict())',
    'geo.pileup': 'print(geo.get_pileup(bnp.Interval(chrom, start, stop)).to_dict())',
    'geo.clip': 'print(geo.clip(bnp.Interval(chrom, start - 1, stop + 1)))',
    'geo.extend': 'print(geo.extend_to_size(bnp.datatypes.StrandedInterval(chrom, start, stop, strand), ARG))',
    'geo.merge': 'print(geo.merge_intervals(bnp.Interval(chrom, start, stop), ARG))',
    'geo.sort': 'print(geo.sort(bnp.Interval(chrom, start, stop)))',
    'geo.jaccard': 'print(geo.jaccard(bnp.Interval(chrom, start, stop), bnp.Interval(chrom, start, stop)))',
}


def repro_py(case):
    if case.get('space') == 'dtype':
        return ('import numpy as np, bionumpy as bnp\n# coordinates of dtype %s on three chromosomes of 0.45 x its range: see check_dtype() in '
                'checks/c10_genome_boundaries.py (operation %s)\n' % (case['dtype'], case.get('op')))
    if case.get('space') == 'offsets':
        return ('import numpy as np, bionumpy as bnp\n'
                'from bionumpy.genomic_data.genome_context import GenomeContext\n'
                'sizes = %r\n'
                'gc = GenomeContext.from_dict(sizes%s)\n'
                'go = gc.global_offset\n'
                'print(gc.chrom_sizes, go.to_local_coordinates(np.arange(gc.size)))\n'
                % (dict(zip(case['names'], case['sizes'])), ', None' if case['mode'] == 'keepall' else ''))
    rows = case['rows']
    return ('import numpy as np, bionumpy as bnp\n'
            'from bionumpy.genomic_data.genome_context import ignore_underscores\n'
            'from bionumpy.genomic_data.geometry import Geometry\n'
            'sizes = %r\n'
            'genome = bnp.Genome.from_dict(sizes%s)\n'
            'geo = Geometry(sizes)\n'
            'chrom, start, stop, strand = %r, np.array(%r, dtype=int), np.array(%r, dtype=int), %r\n'
            'gi = genome.get_intervals(bnp.Interval(chrom, start, stop))\n'
            'gs = genome.get_intervals(bnp.datatypes.StrandedInterval(chrom, start, stop, strand), stranded=True)\n'
            'ARG = %r\n'
            '# expected: for every chromosome the result of the same call on a genome with only that chromosome\n'
            '%s\n'
            % (dict(zip(case['names'], case['sizes'])),
               '' if case['mode'] == 'keepall' else ', filter_function=ignore_underscores',
               [r[0] for r in rows], [r[1] for r in rows], [r[2] for r in rows], [r[3] for r in rows],
               case['arg'], REPRO_CALL.get(case['op'], '# %s' % case['op'])))
