"""C03 — write then read returns the same table; writing is canonical and composable.

Space: table type x every sequence of 0..N rows from a row menu x EVERY
composition of the rows into successive pieces (with an empty piece inserted at
each position) x writer kind {NpBufferedWriter(BytesIO), bnp.open(path,'w'),
gzip target, 'w' then 'a' re-open, one write of a stream of the pieces}.
Oracles: (1) content of every composition/kind == content of one write;
(2) output is canonical (N records, F tab-separated columns / FASTA / FASTQ
layout, ints exactly str(v), VCF POS = v+1, strings verbatim, floats by value,
header at most once); (3) reading the bytes back (eager and lazy) gives the rows.
"""
import gzip
import io
import itertools
import os
import shutil
import tempfile

import numpy as np

from engine import observe
from engine.result import Result, tb_string
from models.formats import FORMATS
from models import tables as T
from .common import make_reader, exc_name

PROPERTY = 'C03'
LEVEL = 'model_checking'
RULE = ('every table = sequence of 0..N rows from a per-type menu; every composition of the rows into pieces; every writer '
        'kind; a case = (type, rows, composition, writer kind); non-trivial = >= 2 rows split into >= 2 non-empty pieces')
ASSUMPTIONS = [
    'tables are built with the public constructors from plain Python lists (VCF: VCFWithInfoAsStringEntry, and tables as '
    'yielded by the VCF reader); in addition, for every type, the canonical single-write bytes are read back LAZILY and the '
    'pieces are selections of that table, whole tables read from per-piece files, or a mix of both',
    'float text is not pinned: floats are compared by value to printing precision (rel 1e-6)',
    'FASTA wrap width is read from the writer at run time only to choose sequence lengths near its multiples; the output '
    'is judged by parsing it',
    'row menus are small (3-6 rows per type); values outside them (other than the int64 boundary rows) are not explored',
]
EXPLANATION = 'bounded exhaustive enumeration of write histories against a canonical serialisation model'
MANIFEST_TEXT = ('Every table of 0..3 (quick) / 0..4 (thorough) rows drawn from per-type menus (Interval, Bed6, Bed12, BedGraph, '
                 'NarrowPeak, SequenceEntry at lengths around multiples of the FASTA line width, SequenceEntryWithQuality, '
                 'VCF entries, SAMEntry, GTFEntry; incl. int64-range coordinates) x every composition of the rows into '
                 'successive writes incl. empty pieces x {NpBufferedWriter, bnp.open w, gzip target, w-then-append, stream of '
                 'pieces, ONE write of np.concatenate(pieces)}: piecewise content == single write; pieces are constructed tables, selections '
                 'table[a:b] of one constructed table (and the reversed table) and, '
                 'for every type, lazily re-read tables (selections of one table / whole tables of their own / mixed, with an empty '
                 'selection at every position); output canonical (ints exactly str(v), VCF POS+1, header once); '
                 'read-back (lazy and eager) equals the table.')
MANIFEST_NOTE = ('Trusted: NumPy, CPython str/int/float, gzip module, models/tables.py. Row menus bound the value space.')
TECHNIQUE = 'bounded exhaustive enumeration of write histories (all compositions) against a canonical-serialisation model'

KINDS = ['buffered', 'open_w', 'gz', 'append', 'gz_append', 'stream', 'concat']
# 'concat' = ONE write of np.concatenate(pieces): the statement's "one write of the concatenated table" taken literally
REREAD_KINDS = ['buffered', 'stream', 'concat']     # writer kinds used when the pieces are lazily read tables
PIECE_SOURCES = ['slice', 'own', 'mixed']
# slice: every piece is a selection src[a:b] of ONE table read from a file holding all rows;  own: every non-empty piece
# is a whole table read from a file of its own (an empty piece is an empty selection of the big table);  mixed: the
# first non-empty piece is a selection of the big table, the others are whole tables of their own
TYPE_NAMES = ['bed3', 'bed6', 'bedgraph', 'narrowpeak', 'bed12', 'fasta', 'fastq', 'sam', 'gtf', 'vcf', 'vcf_read',
              'vcf_typed', 'vcf_entry']
SUFFIX = {'bed3': '.bed', 'bed6': '.bed', 'bedgraph': '.bdg', 'narrowpeak': '.narrowPeak', 'bed12': '.bed', 'fasta': '.fa',
          'fastq': '.fq', 'sam': '.sam', 'gtf': '.gtf', 'vcf': '.vcf', 'vcf_read': '.vcf', 'vcf_typed': '.vcf', 'vcf_entry': '.vcf'}


def bounds(tier, seed):
    return {'max_rows': 3 if tier == 'quick' else 4, 'menu_rows': 3 if tier == 'quick' else 4, 'kinds': KINDS,
            'types': TYPE_NAMES, 'menu_rotation': seed % 3 if tier == 'quick' else None}


def fasta_width():
    from bionumpy.io.multiline_buffer import MultiLineFastaBuffer
    return int(getattr(MultiLineFastaBuffer, 'n_characters_per_line', 80))


def menu(tname, tier, seed):
    if tname == 'fasta':
        rows = T.fasta_rows(fasta_width())
        k = 4 if tier == 'quick' else 6
        r = (seed % 3) if tier == 'quick' else 0
        return [rows[(i + 2 * r) % len(rows)] for i in range(k)]
    spec = T.TYPES['vcf' if tname in ('vcf_read', 'vcf_typed') else tname]
    rows = TYPED_ROWS if tname == 'vcf_typed' else spec['rows']
    k = 3 if tier == 'quick' else 4
    return rows[:k] if len(rows) >= k else rows


def shards(tier, seed):
    out = []
    for t in TYPE_NAMES:
        for first in range(len(menu(t, tier, seed))):
            out.append({'type': t, 'first': first, 'tier': tier, 'seed': seed})
        out.append({'type': t, 'first': None, 'tier': tier, 'seed': seed})   # the empty table
    return out


# ---------------------------------------------------------------- model-level output parsing
def buffer_type_for(tname):
    if tname == 'bed12':
        from bionumpy.io.delimited_buffers import Bed12Buffer
        return Bed12Buffer
    if tname == 'bed6':
        from bionumpy.io.delimited_buffers import Bed6Buffer
        return Bed6Buffer
    if tname == 'vcf':
        from bionumpy.io.vcf_buffers import VCFWithInfoAsStringBuffer
        return VCFWithInfoAsStringBuffer
    if tname in ('vcf_read', 'vcf_typed', 'vcf_entry'):
        from bionumpy.io.vcf_buffers import VCFBuffer
        return VCFBuffer
    if tname == 'fasta':
        return FORMATS['fasta_wrapped'].buffer_type()
    return FORMATS[T.TYPES[tname]['fmt']].buffer_type()


def parse_output(tname, data):
    """-> (header_lines, list of rows of texts) or raises ValueError('layout: ...')"""
    text = data.decode('latin1')
    if text and not text.endswith('\n'):
        raise ValueError('layout: output does not end with a newline')
    lines = text.split('\n')[:-1] if text else []
    if tname == 'fasta':
        rows = []
        for ln in lines:
            if ln.startswith('>'):
                rows.append([ln[1:], ''])
            else:
                if not rows:
                    raise ValueError('layout: sequence line before first header')
                if ln == '':
                    raise ValueError('layout: empty line')
                rows[-1][1] += ln
        return [], rows
    if tname == 'fastq':
        if len(lines) % 4:
            raise ValueError('layout: %d lines is not a multiple of 4' % len(lines))
        rows = []
        for i in range(0, len(lines), 4):
            a, s, p, q = lines[i:i + 4]
            if not a.startswith('@') or not p.startswith('+'):
                raise ValueError('layout: record markers')
            rows.append([a[1:], s, q])
        return [], rows
    comment = {'vcf': '#', 'vcf_read': '#', 'vcf_typed': '#', 'vcf_entry': '#', 'sam': '@'}.get(tname)
    header = [l for l in lines if comment and l.startswith(comment)]
    body = [l for l in lines if not (comment and l.startswith(comment))]
    if comment and lines[:len(header)] != header:
        raise ValueError('layout: header lines not at the top')
    rows = []
    for l in body:
        cells = l.split('\t')
        if tname == 'sam':
            cells = cells[:11] + ['\t'.join(cells[11:])]
        rows.append(cells)
    return header, rows


def canonical_problem(tname, data, rows):
    """None if `data` canonically serialises `rows`, else a short description."""
    spec = T.TYPES['vcf' if tname in ('vcf_read', 'vcf_typed') else tname]
    try:
        header, out = parse_output(tname, data)
    except ValueError as e:
        return str(e)
    if len(out) != len(rows):
        return 'record count %d != %d' % (len(out), len(rows))
    if tname in ('vcf', 'vcf_read', 'vcf_typed', 'vcf_entry'):
        n_chrom = sum(1 for h in header if h.startswith('#CHROM'))
        if n_chrom > 1 or (rows and n_chrom != 1):
            return 'header emitted %d times' % n_chrom
    for i, (cells, row) in enumerate(zip(out, rows)):
        kinds = [k for _, k in spec['fields']]
        if tname in ('vcf', 'vcf_read', 'vcf_typed', 'vcf_entry'):
            cells = cells[:8]
        if len(cells) != len(kinds):
            return 'row %d has %d columns, expected %d' % (i, len(cells), len(kinds))
        flds = spec['fields'][:7] if tname == 'vcf_typed' else spec['fields']   # typed INFO text is not pinned
        for (fname, kind), cell, v in zip(flds, cells, row):
            if kind == 'qual':
                ok = tuple(ord(c) - 33 for c in cell) == tuple(v)
            else:
                ok = T.cell_text_ok(kind, cell, v)
            if not ok:
                return 'row %d field %s: text %r does not serialise %r' % (i, fname, cell, v)
    return None


# ---------------------------------------------------------------- writers
def pieces_of(rows, comp, empty_at):
    """comp: tuple of piece sizes summing to len(rows); empty_at: index where an empty piece is inserted or None"""
    out = []
    pos = 0
    for s in comp:
        out.append(rows[pos:pos + s])
        pos += s
    if empty_at is not None:
        out.insert(empty_at, [])
    return out


def compositions(n):
    if n == 0:
        yield ()
        return
    for cuts in itertools.product((0, 1), repeat=n - 1):
        sizes = []
        cur = 1
        for c in cuts:
            if c:
                sizes.append(cur)
                cur = 1
            else:
                cur += 1
        sizes.append(cur)
        yield tuple(sizes)


def make_piece(tname, rows, src_table=None, idx=None):
    if tname in ('vcf_read', 'vcf_typed'):
        return src_table[idx]
    return T.build_table('vcf' if tname == 'vcf' else tname, rows)


def write_with(kind, tname, piece_tables, scratch):
    import bionumpy as bnp
    from bionumpy.io.parser import NpBufferedWriter
    from bionumpy.streams import NpDataclassStream
    B = buffer_type_for(tname)
    if kind == 'buffered':
        b = io.BytesIO()
        w = NpBufferedWriter(b, B)
        for p in piece_tables:
            w.write(p)
        return b.getvalue()
    if kind == 'concat':
        import numpy as np
        b = io.BytesIO()
        NpBufferedWriter(b, B).write(np.concatenate(piece_tables))
        return b.getvalue()
    path = os.path.join(scratch, 'out' + SUFFIX[tname] + ('.gz' if kind in ('gz', 'gz_append') else ''))
    if os.path.exists(path):
        os.unlink(path)
    bt = B if tname in ('bed6', 'bed12', 'vcf', 'vcf_entry') else None
    if kind in ('open_w', 'gz'):
        w = bnp.open(path, 'w', buffer_type=bt)
        for p in piece_tables:
            w.write(p)
        w.close()
    elif kind in ('append', 'gz_append'):
        w = bnp.open(path, 'w', buffer_type=bt)
        if piece_tables:
            w.write(piece_tables[0])
        w.close()
        for p in piece_tables[1:]:
            w = bnp.open(path, 'a', buffer_type=bt)
            w.write(p)
            w.close()
    elif kind == 'stream':
        w = bnp.open(path, 'w', buffer_type=bt)
        w.write(NpDataclassStream(iter(piece_tables)))
        w.close()
    with open(path, 'rb') as f:
        data = f.read()
    if kind in ('gz', 'gz_append'):
        data = gzip.decompress(data) if data else b''
    return data


TYPED_HEADER = (b'##fileformat=VCFv4.2', b'##INFO=<ID=DP,Number=1,Type=Integer,Description="d">',
                b'##INFO=<ID=AF,Number=A,Type=Float,Description="d">', b'##INFO=<ID=DB,Number=0,Type=Flag,Description="d">',
                b'#CHROM\tPOS\tID\tREF\tALT\tQUAL\tFILTER\tINFO')
TYPED_ROWS = [('c', 0, '.', 'A', 'T', '.', 'PASS', 'DP=5;AF=0.5;DB'), ('chr10', 12344, 'rs1', 'AC', 'G,GT', '40', '.', 'DP=12;AF=0.25,0.75'),
              ('2', 9, 'x', 'G', 'ACGT', '29.5', 'q10', 'DP=1;AF=0.125'), ('c', 99, '.', 'T', 'C', '.', 'PASS', 'DP=7;AF=0.5;DB')]


def vcf_source(rows, lazy, typed=False):
    """table as yielded by the VCF reader for a canonical file holding `rows`"""
    f = FORMATS['vcf_header']
    if typed:
        class _F:
            header = TYPED_HEADER
        f = _F
    lines = ['\t'.join([r[0], str(r[1] + 1)] + list(r[2:])) for r in rows]
    data = b'\n'.join(f.header) + b'\n' + ('\n'.join(lines) + '\n').encode() if rows else b'\n'.join(f.header) + b'\n'
    return make_reader(data, buffer_type_for('vcf_read'), lazy).read()


def _pieces(tname, piece_rows, piece_src, src, own):
    out = []
    pos = 0
    seen_nonempty = False
    for pr in piece_rows:
        idx = slice(pos, pos + len(pr))
        pos += len(pr)
        if src is None:
            out.append(T.build_table('vcf' if tname == 'vcf' else tname, pr))
        elif piece_src == 'slice' or not pr or (piece_src == 'mixed' and not seen_nonempty):
            out.append(src[idx])
        else:
            out.append(own(pr))
        seen_nonempty = seen_nonempty or bool(pr)
    return out


def check_table(res, tname, row_ids, tier, seed, scratch, deadline):
    m = menu(tname, tier, seed)
    rows = [m[i] for i in row_ids]
    spec = T.TYPES['vcf' if tname in ('vcf_read', 'vcf_typed') else tname]
    kinds = [k for _, k in spec['fields']]
    fields = [n for n, _ in spec['fields']]
    if tname == 'vcf_typed':
        fields = fields[:7]     # typed INFO is compared by value in C02; here the seven fixed columns
        kinds = kinds[:7]
    n = len(rows)
    base_feats = {'type': tname}
    reader_type = tname in ('vcf_read', 'vcf_typed')
    if reader_type and n == 0:
        return
    # source modes: (src_lazy, piece_src).  Constructed tables: (None, None).  Tables as yielded by the reader: for the VCF
    # reader kinds eager and lazy; for every other type the canonical single-write bytes are read back LAZILY ('reread')
    # and the pieces are taken from that table / from tables read from per-piece files.
    if reader_type:
        modes = [(lz, ps) for lz in (False, True) for ps in PIECE_SOURCES]
    else:
        modes = [(None, None)] + ([('sliced', 'slice')] if n >= 1 else []) + ([('reread', ps) for ps in PIECE_SOURCES] if n >= 1 else [])
    reference = None
    own_cache = {}
    for src_lazy, piece_src in modes:
        src = None
        own = None
        mode_kinds = KINDS
        if reader_type:
            if piece_src == 'slice':
                reference = None        # each reading mode is compared with its own single write (lazy vs eager is C05)
            src = vcf_source(rows, src_lazy, typed=tname == 'vcf_typed')
            own = lambda pr, lz=src_lazy: vcf_source(pr, lz, typed=tname == 'vcf_typed')
            if piece_src != 'slice':
                mode_kinds = REREAD_KINDS
        elif src_lazy == 'sliced':
            # the pieces are SELECTIONS table[a:b] of one constructed table (how a user splits a table into writes): the
            # columns handed to the writer are views into the whole table's arrays
            if reference is None:
                continue
            mode_kinds = REREAD_KINDS
            src = T.build_table('vcf' if tname == 'vcf' else tname, rows)
            if n >= 2:
                res.transitions += 1
                try:
                    rev = write_with('buffered', tname, [src[::-1]], scratch)
                    rev_ref = write_with('buffered', tname, [T.build_table('vcf' if tname == 'vcf' else tname, rows[::-1])], scratch)
                except observe.ObserverError:
                    raise
                except Exception as e:
                    res.fail('write-raises', {'type': tname, 'row_ids': list(row_ids), 'comp': [n], 'empty_at': None, 'kind': 'buffered',
                                              'tier': tier, 'seed': seed, 'src_lazy': 'sliced', 'piece_src': 'reversed'},
                             dict(base_feats, kind='buffered', pieces='single', src_lazy='sliced', piece_src='reversed', exc=exc_name(e)),
                             expected='bytes', observed=repr(e)[:300], tb=tb_string(e))
                else:
                    if rev != rev_ref:
                        res.fail('piecewise-differs-from-single-write', {'type': tname, 'row_ids': list(row_ids), 'comp': [n], 'empty_at': None,
                                 'kind': 'buffered', 'tier': tier, 'seed': seed, 'src_lazy': 'sliced', 'piece_src': 'reversed'},
                                 dict(base_feats, kind='buffered', pieces='single', src_lazy='sliced', piece_src='reversed', differs_in='records'),
                                 expected=rev_ref.decode('latin1')[:600], observed=rev.decode('latin1')[:600])
        elif src_lazy == 'reread':
            if reference is None or not reference:
                continue            # the constructed single write failed or is not judged: nothing canonical to read back
            mode_kinds = REREAD_KINDS
            try:
                src = make_reader(reference, buffer_type_for(tname), True).read()

                def own(pr):
                    key = tuple(map(repr, pr))
                    if key not in own_cache:
                        own_cache[key] = write_with('buffered', tname, [T.build_table('vcf' if tname == 'vcf' else tname, pr)], scratch)
                    return make_reader(own_cache[key], buffer_type_for(tname), True).read()
            except observe.ObserverError:
                raise
            except Exception as e:
                res.extra['reread source unavailable (read-back failure is reported by the constructed mode): %s' % exc_name(e)] += 1
                continue
        for comp in compositions(n):
            for empty_at in [None] + list(range(len(comp) + 1)):
                if deadline.expired():
                    res.capped = True
                    return
                piece_rows = pieces_of(rows, comp, empty_at)
                if piece_src in ('own', 'mixed') and len([c for c in comp if c]) < 2 and empty_at is None:
                    continue        # a single piece: identical to 'slice'
                for kind in mode_kinds:
                    if kind == 'concat' and len(piece_rows) < 2:
                        continue
                    case = {'type': tname, 'row_ids': list(row_ids), 'comp': list(comp), 'empty_at': empty_at, 'kind': kind,
                            'tier': tier, 'seed': seed, 'src_lazy': src_lazy, 'piece_src': piece_src}
                    feats = dict(base_feats, kind=kind, pieces='single' if len(comp) <= 1 and empty_at is None else 'multi',
                                 src_lazy=src_lazy, piece_src=piece_src)
                    res.evaluations += 1
                    res.states += 1
                    res.planned += 1
                    res.traces += 1
                    try:
                        piece_tables = _pieces(tname, piece_rows, piece_src, src, own)
                        data = write_with(kind, tname, piece_tables, scratch)
                        res.transitions += len(piece_tables)
                    except observe.ObserverError:
                        raise
                    except Exception as e:
                        res.outcome('write-raises:' + exc_name(e))
                        res.fail('write-raises', case, dict(feats, exc=exc_name(e)), expected='bytes', observed=repr(e)[:300],
                                 tb=tb_string(e))
                        continue
                    if len([c for c in comp if c]) >= 2 and n >= 2:
                        res.nontrivial += 1
                    if reference is None and kind == 'buffered' and len(comp) <= 1 and empty_at is None:
                        reference = data
                        prob = canonical_problem(tname, data, rows)
                        if prob:
                            res.fail('not-canonical', case, dict(feats, problem=prob.split(':')[0].split(' ')[0]),
                                     expected=[list(map(str, r)) for r in rows], observed=data.decode('latin1')[:600], note=prob)
                        else:
                            for lazy in (False, True):
                                try:
                                    t = make_reader(data, buffer_type_for(tname), lazy).read() if data else None
                                    back = observe.table_rows(t, fields) if t is not None else []
                                    res.transitions += 1
                                except observe.ObserverError:
                                    raise
                                except Exception as e:
                                    res.fail('read-back-raises', case, dict(feats, lazy=lazy, exc=exc_name(e)), expected=rows,
                                             observed=repr(e)[:300], tb=tb_string(e))
                                    continue
                                exp = [tuple(observe.norm(v) for v in r[:len(fields)]) for r in rows]
                                if not T.rows_close(kinds, back, exp):
                                    res.fail('read-back-differs', case, dict(feats, lazy=lazy), expected=exp, observed=back)
                    if n == 0 and tname in ('vcf', 'vcf_read', 'vcf_typed', 'vcf_entry'):
                        # an empty total: whether a header-only file or an empty file results is not stated
                        res.outcome('ok:empty-total')
                        continue
                    if reference is not None and data != reference:
                        body = lambda d: [ln for ln in d.split(b'\n') if not ln.startswith(b'#')]
                        feats = dict(feats, differs_in='header-lines-only' if body(data) == body(reference) else 'records')
                        res.fail('piecewise-differs-from-single-write', case, feats,
                                 expected=reference.decode('latin1')[:600], observed=data.decode('latin1')[:600])
                        res.outcome('differs')
                    else:
                        res.outcome('ok:%s' % kind)
    if len(res.samples) < 2 and n >= 2:
        res.sample({'type': tname, 'rows': [list(map(str, r)) for r in rows], 'single_write': (reference or b'').decode('latin1')[:300]})


def run_shard(desc, deadline):
    res = Result()
    tname, first, tier, seed = desc['type'], desc['first'], desc['tier'], desc['seed']
    b = bounds(tier, seed)
    m = menu(tname, tier, seed)
    scratch = tempfile.mkdtemp(dir='/dev/shm', prefix='c03_')
    try:
        if first is None:
            check_table(res, tname, (), tier, seed, scratch, deadline)
        else:
            for n in range(1, b['max_rows'] + 1):
                for rest in itertools.product(range(len(m)), repeat=n - 1):
                    check_table(res, tname, (first,) + rest, tier, seed, scratch, deadline)
                    if res.capped:
                        return res
    finally:
        shutil.rmtree(scratch, ignore_errors=True)
    return res


def replay_case(case):
    res = Result()
    from engine.result import Deadline
    import time
    scratch = tempfile.mkdtemp(dir='/dev/shm', prefix='c03_')
    try:
        check_table(res, case['type'], tuple(case['row_ids']), case['tier'], case['seed'], scratch, Deadline(time.time() + 600))
    finally:
        shutil.rmtree(scratch, ignore_errors=True)
    out = []
    for g in res.fail_groups.values():
        out.append({'kind': g['kind'], 'features': g['features'], 'observed': g['exemplars'][0]['observed'],
                    'expected': g['exemplars'][0]['expected'], 'traceback': g['exemplars'][0]['traceback']})
    return out
