"""C15 — malformed input is reported, with the right line number, not mis-parsed.

Exactly one deviation: every well-formed file (C01 profiles) x one injected
violation of each class at EVERY record position x every chunk size x
{lazy, eager} x {plain, gzip}.  Oracle: processing the affected data raises
and no chunk containing the bad record is delivered as a table; when the
exception carries a line_number it lies inside the first offending record's
line span and is the same for every configuration of that file.
"""
import base64
import itertools

from engine import observe
from engine.result import Result, tb_string
from models.formats import FORMATS, LF
from .common import make_reader, exc_name

PROPERTY = 'C15'
LEVEL = 'model_checking'
RULE = ('well-formed file of 2..N records + exactly one injected violation (class x record position); every chunk size '
        '1..size+2 x lazy/eager x plain/gzip; a case = (file, violation, configuration, k); non-trivial = the bad record is '
        'not the first record (earlier chunks may be delivered) or the read needs >= 2 chunks')
ASSUMPTIONS = [
    'exactly one violation per file (0 violations is C01/C02)',
    'line numbers: accepted iff inside the offending record\'s line span (counted with or without header lines) and identical '
    'across chunk sizes, lazy/eager and plain/gzip for the same file',
    'lazy reading: the affected data is "read" when tolist() is called and every column of the entry type is accessed',
    'wrapped FASTA is excluded from the missing-marker class (a missing ">" is not a violation there: the line joins the previous sequence)',
]
EXPLANATION = 'deviation-bounded (exactly one injected format violation) exhaustive exploration of the real readers'
MANIFEST_TEXT = ('Every file of 2..3 (quick) / 2..4 (thorough) records for BED3/BED6/bedGraph/narrowPeak/VCF/SAM/FASTQ/two-line FASTA '
                 'with exactly one injected violation (missing record marker, missing "+", non-numeric text in a numeric column '
                 '(letter, digit+32, punctuation, a sign inside the number), out-of-alphabet character in an encoded column, one column more / fewer) at '
                 'every record position x every chunk size x lazy/eager x plain/gzip: the read must raise and never deliver a '
                 'table containing the bad record; a reported line_number must lie in the offending record and be identical '
                 'across all configurations.')
MANIFEST_NOTE = 'Trusted: NumPy, the harness file objects, models/formats.py. One violation per file; files above the bound not explored.'
TECHNIQUE = 'deviation-bounded exhaustive fault injection into input grammars, all chunk sizes and configurations'

FMTS = ['bed3', 'bed6', 'bedgraph', 'narrowpeak', 'vcf_header', 'sam', 'fastq', 'fasta2']
NUMERIC_COLS = {'bed3': [1, 2], 'bed6': [1, 2, 4], 'bedgraph': [1, 3], 'narrowpeak': [2, 6, 9], 'vcf_header': [1],
                'sam': [1, 3, 8]}
ENCODED_COLS = {'bed6': [5], 'narrowpeak': [5]}
BAD_NUMERIC = {'letter': 'x', 'digit+32': '1P', 'punct': '1;2', 'inner-sign': '1-2'}
SIGNED_COLS = {'bed6': [4], 'narrowpeak': [9], 'sam': [8]}      # columns whose well-formed values carry signs in the menu
BAD_ENCODED = {'foreign-letter': 'x', 'letter+32-of-symbol': 'K'}


def bounds(tier, seed):
    return {'max_records': 3 if tier == 'quick' else 4, 'variants': [0, 1] if tier == 'quick' else [0, 1, 2],
            'four_record_files(thorough)': 'variants 0 and 1 only; every k on plain+eager, boundary-adjacent k elsewhere', 'k': 'thorough (<= 3 records): all 1..size+2 on all 4 configurations; quick: all k on plain+eager, boundary-adjacent and small k on gzip/lazy', 'formats': FMTS}


def violations_for(fmt, n, tier='thorough', seed=0):
    """yield (class, subclass, position, column).  Thorough: every numeric column x every bad-text class.  Quick: every
    numeric column gets the 'letter' class, and the other two classes rotate over the columns (seed-rotated slice)."""
    for p in range(n):
        if fmt in ('fastq', 'fasta2'):
            yield ('missing-marker', '', p, None)
            if fmt == 'fastq':
                yield ('missing-plus', '', p, None)
                yield ('out-of-alphabet', 'quality-below-!', p, None)
        else:
            subs = list(BAD_NUMERIC)
            for ci, c in enumerate(NUMERIC_COLS[fmt]):
                for si, sub in enumerate(subs):
                    if tier == 'thorough' or sub == 'letter' or (ci + si + seed + p) % len(NUMERIC_COLS[fmt]) == 0 or \
                            (sub == 'inner-sign' and c in SIGNED_COLS.get(fmt, [])):
                        yield ('non-numeric', sub, p, c)
            for c in ENCODED_COLS.get(fmt, []):
                for sub in BAD_ENCODED:
                    yield ('out-of-alphabet', sub, p, c)
            yield ('column-count', 'extra', p, None)
            yield ('column-count', 'missing', p, None)


def inject(f, recs, viol):
    """returns list of line-lists (one per record) with the violation applied"""
    cls, sub, p, c = viol
    out = [list(r.lines) for r in recs]
    if cls == 'missing-marker':
        out[p][0] = b'X' + out[p][0][1:]
    elif cls == 'missing-plus':
        out[p][2] = b'X' + out[p][2][1:]
    elif cls == 'out-of-alphabet' and sub == 'quality-below-!':
        q = out[p][3]
        out[p][3] = b' ' + q[1:]
    elif cls in ('non-numeric', 'out-of-alphabet'):
        cells = out[p][0].split(b'\t')
        cells[c] = (BAD_NUMERIC if cls == 'non-numeric' else BAD_ENCODED)[sub].encode()
        out[p][0] = b'\t'.join(cells)
    elif cls == 'column-count':
        cells = out[p][0].split(b'\t')
        if sub == 'extra':
            cells.insert(2, b'7')
        else:
            del cells[2]
        out[p][0] = b'\t'.join(cells)
    return out


def shards(tier, seed):
    b = bounds(tier, seed)
    out = []
    for fmt in FMTS:
        for n in range(2, b['max_records'] + 1):
            for vs in itertools.product(b['variants'] if (n <= 3 or tier == 'quick') else b['variants'][:2], repeat=n):
                if tier == 'quick' and n == 3 and (sum(vs) + seed) % 2:
                    continue      # quick: half of the 3-record files (seed-rotated extension slice)
                out.append({'fmt': fmt, 'variants': list(vs), 'tier': tier, 'seed': seed})
    out.sort(key=lambda d: (len(d['variants']), FMTS.index(d['fmt']), d['variants']))
    return out


def consume(f, data, gz, lazy, k, fields, n_good_before):
    """-> ('raised', exc, rows_delivered) | ('accepted', None, rows_delivered)"""
    reader = make_reader(data, f.buffer_type(), lazy, gz)
    delivered = 0
    current = None
    try:
        if k is None:
            chunks = [reader.read()]
        else:
            chunks = reader.read_chunks(k)
        for c in chunks:
            current = c
            if lazy:
                c.tolist()
            rows = observe.table_rows(c, fields)
            delivered += len(rows)
            current = None
    except observe.ObserverError:
        raise
    except Exception as e:
        if lazy and current is not None:
            # "never yields a table": the error is not a one-off. The same lazily read chunk, asked again after the error was
            # caught, must not hand out the data it refused a moment ago.
            try:
                current.tolist()
                again = observe.table_rows(current, fields)
            except observe.ObserverError:
                raise
            except Exception:
                again = None
            if again is not None:
                return ('accepted-on-second-attempt', e, delivered + len(again))
        return ('raised', e, delivered)
    return ('accepted', None, delivered)


def check_file(res, fmt, variants, deadline, tier='thorough', seed=0, only_viol=None):
    f = FORMATS[fmt]
    recs = [f.record(v, i) for i, v in enumerate(variants)]
    n = len(recs)
    fields = list(f.fields)
    nh = len(f.header)
    for viol in violations_for(fmt, n, tier, seed):
        if only_viol is not None and list(viol) != list(only_viol):
            continue
        cls, sub, p, c = viol
        line_lists = inject(f, recs, viol)
        lines = list(f.header) + [l for ll in line_lists for l in ll]
        data = LF.join(lines) + LF
        first_line = sum(len(ll) for ll in line_lists[:p])
        span = range(first_line, first_line + len(line_lists[p]))
        span_h = range(first_line + nh, first_line + nh + len(line_lists[p]))
        line_numbers = set()
        feats = {'format': fmt, 'class': cls, 'sub': sub}
        base_case = {'fmt': fmt, 'variants': list(variants), 'viol': [cls, sub, p, c]}
        feats['bad_record_is_last'] = (p == n - 1)
        all_k = list(range(1, len(data) + 3))
        # quick tier: every k on the plain eager reader; on the other three configurations the k's around every line
        # boundary plus a few small ones (thorough: every k everywhere)
        bounds_ = set()
        pos = 0
        for ln in lines:
            pos += len(ln) + 1
            bounds_.update((pos - 1, pos, pos + 1))
        sub_k = sorted(k for k in ({1, 2, 3, 5, 8, 13, len(data) - 1, len(data), len(data) + 1, len(data) + 2} | bounds_)
                       if 1 <= k <= len(data) + 2)
        for gz in (False, True):
            for lazy in (False, True):
                ks = all_k if ((tier == 'thorough' and n <= 3) or (not gz and not lazy)) else sub_k
                for k in [None] + ks:
                    if deadline.expired():
                        res.capped = True
                        return
                    res.evaluations += 1
                    res.states += 1
                    res.planned += 1
                    res.traces += 1
                    res.transitions += 1
                    status, exc, delivered = consume(f, data, gz, lazy, k, fields, p)
                    case = dict(base_case, gz=gz, lazy=lazy, k=k)
                    if p > 0 or (k is not None and k < len(data)):
                        res.nontrivial += 1
                    if status == 'accepted-on-second-attempt':
                        res.outcome('ACCEPTED-ON-SECOND-ATTEMPT')
                        res.fail('malformed-file-yields-a-table', case, dict(feats, attempt='second, after the first raised ' + exc_name(exc)),
                                 expected='an error on every attempt', observed='%d rows delivered on the second attempt' % delivered,
                                 note=data.decode('latin1'))
                        continue
                    if status == 'accepted':
                        res.outcome('ACCEPTED')
                        res.fail('malformed-file-yields-a-table', case, feats, expected='an error', observed='%d rows delivered' % delivered,
                                 note=data.decode('latin1'))
                        continue
                    if delivered > p:
                        res.outcome('bad-record-delivered')
                        res.fail('chunk-containing-bad-record-delivered-before-error', case, feats, expected='<= %d rows' % p,
                                 observed='%d rows delivered, then %s' % (delivered, exc_name(exc)))
                        continue
                    ln = getattr(exc, 'line_number', None)
                    res.outcome('raises:%s:%s' % (exc_name(exc), 'line' if ln is not None else 'noline'))
                    if ln is not None:
                        ln = int(ln)
                        line_numbers.add(ln)
                        if ln not in span and ln not in span_h:
                            res.fail('line-number-outside-offending-record', case, feats, expected=[list(span), list(span_h)], observed=ln,
                                     note=data.decode('latin1'))
        if len(line_numbers) > 1:
            res.fail('line-number-depends-on-configuration', dict(base_case, gz=None, lazy=None, k='all'), feats,
                     expected='one line number', observed=sorted(line_numbers), note=data.decode('latin1'))
        if len(res.samples) < 3:
            res.sample({'format': fmt, 'violation': [cls, sub, p, c], 'file': data.decode('latin1'), 'line_numbers_reported': sorted(line_numbers)})


def run_shard(desc, deadline):
    res = Result()
    check_file(res, desc['fmt'], desc['variants'], deadline, desc['tier'], desc.get('seed', 0))
    return res


def replay_case(case):
    from engine.result import Deadline
    import time
    res = Result()
    fmt, variants = case['fmt'], case['variants']
    f = FORMATS[fmt]
    recs = [f.record(v, i) for i, v in enumerate(variants)]
    viol = tuple(case['viol'])
    # re-run the whole violation (all configurations): cheap, and needed for the cross-configuration clause
    full = Result()
    check_file(full, fmt, variants, Deadline(time.time() + 900), 'thorough', 0, only_viol=viol)
    out = []
    for g in full.fail_groups.values():
        for e in g['exemplars']:
            if e['case']['viol'] == list(viol):
                out.append({'kind': g['kind'], 'features': g['features'], 'observed': e['observed'], 'expected': e['expected'],
                            'traceback': None})
                break
    return out
