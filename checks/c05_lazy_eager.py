"""C05 — lazy and eager reading are observationally equivalent.

Explicit-state exploration of the register machine of checks/tableprog.py
with TWO implementations in lock-step (table read with lazy=True and with
lazy=False from the same bytes).  After every history: len, write, all
columns, write again, tolist are compared; each step must give equal values
and equal written bytes in both modes, or fail in both.
"""
import itertools

import numpy as np

from engine import observe
from engine.result import Result, tb_string, raising_frame
from models.formats import FORMATS, LF
from . import tableprog as tp
from .common import make_reader, exc_name

PROPERTY = 'C05'
LEVEL = 'model_checking'
RULE = ('roots = canonical files per lazily-read format x {whole read, first chunk, concatenation of all chunks}; histories = '
        'every sequence of operations {index (slice/step/reverse/mask/fancy), save, concatenate both orders, replace field, '
        'get field} up to the depth bound, deduplicated on (model rows, lazy representation signature); after every history '
        'len/write/columns/write/tolist are compared between the two modes; non-trivial = history of length >= 2 reaching a '
        'non-empty table')
ASSUMPTIONS = [
    'canonical spellings only (non-canonical text is C04, lazy only)',
    'observations are value-level (n x 1 ragged strand column == flat strand column)',
    'replacement values are arrays of the column\'s declared type',
    'state merging uses the lazy table\'s cached/set field names and buffer contiguity, read best-effort via getattr; '
    'if unavailable the full history is the key',
]
EXPLANATION = 'explicit-state search over operation histories with lazy and eager implementations stepped together'
MANIFEST_TEXT = ('Explicit-state exploration of every operation history up to depth 3 (quick) / 4 (thorough) over {slice, step, '
                 'reverse, boolean mask, integer list with repeats, empty selection, save, concatenate in both orders, replace '
                 'field by array, get field} on lazily and eagerly read tables of the same bytes (BED3/6, bedGraph, narrowPeak, '
                 'VCF +/- header, SAM +/- tags, FASTQ, two-line FASTA, GFF3, chrom.sizes, pairs, GFA; whole read, first chunk, '
                 'concatenation of chunks): after every history len, written bytes, every column and tolist() must be equal '
                 'in both modes, or both must fail. States are merged on (model rows, lazy cache signature).')
MANIFEST_NOTE = 'Trusted: NumPy, engine/observe.py, models/formats.py. Depth and root files bound the space.'
TECHNIQUE = 'explicit-state BFS over operation histories, two implementations in lock-step, replay on fresh objects'

ROOT_FORMATS = ['bed3', 'bed6', 'bed12', 'bedgraph', 'narrowpeak', 'vcf', 'vcf_header', 'sam', 'sam_notags', 'fastq', 'fasta2', 'gff3',
                'chromsizes', 'pairs', 'gfa', 'bam']
ROOT_FILES = [(0, 1, 2), (1, 0), (2,)]
MODES = ['whole', 'first_chunk', 'concat_chunks']


def bounds(tier, seed):
    return {'depth': 3 if tier == 'quick' else 4, 'formats': ROOT_FORMATS, 'files': ROOT_FILES, 'modes': MODES,
            'quick_depth3_roots': 'file (0,1,2) in mode (seed %% 3), other roots depth 2' if tier == 'quick' else None}


def shards(tier, seed):
    out = []
    for fmt in ROOT_FORMATS:
        for fi, vs in enumerate(ROOT_FILES):
            for mi, mode in enumerate(MODES):
                if tier == 'quick':
                    depth = 3 if (fi == 0 and mi == seed % 3) else 2
                else:
                    depth = 4 if fi == 0 else 3
                out.append({'fmt': fmt, 'variants': list(vs), 'mode': mode, 'depth': depth})
    out.sort(key=lambda d: -d['depth'])
    return out


def canonical_records(f, variants):
    """records in canonical spelling: float texts are repr(float(text)) (C05 compares written bytes only for canonical
    files, where C03's canonical form and C04's pass-through coincide)"""
    recs = []
    for i, v in enumerate(variants):
        if hasattr(f, 'texts'):
            texts = f.texts(v, i)
            for j, (name, kind, _) in enumerate(f.cols):
                if kind == 'float':
                    texts[j] = repr(float(texts[j]))
            recs.append(f.record_from_texts(texts))
        else:
            recs.append(f.record(v, i))
    return recs


def split_header(fmt, data):
    """(header bytes, record bytes) of written output"""
    marks = {'vcf': b'#', 'vcf_header': b'#', 'sam': b'@', 'sam_notags': b'@', 'pairs': b'#', 'gff3': b'#'}
    m = marks.get(fmt)
    if m is None:
        return b'', data
    lines = data.split(b'\n')
    i = 0
    while i < len(lines) and lines[i].startswith(m):
        i += 1
    return b'\n'.join(lines[:i]), b'\n'.join(lines[i:])


def read_root(f, data, lazy, mode):
    r = make_reader(data, f.buffer_type(), lazy, gz=getattr(f, 'gzip_container', False))
    if mode == 'whole':
        return r.read()
    k = max(1, len(data) // 2)
    if getattr(f, 'gzip_container', False):
        k = max(k, 160)        # BAM: the chunk size must hold the header and the largest record (C16 precondition)
    if mode == 'first_chunk':
        return r.read_chunk(k)
    chunks = list(r.read_chunks(k))
    return np.concatenate(chunks) if len(chunks) > 1 else chunks[0]


def root_rows(f, recs, data, mode):
    """model rows of the root: what the mode delivers according to the eager reader's count (the split point of
    a first chunk is not part of this property; C01 decides chunk contents)"""
    exp = f.expected(recs)
    if mode == 'first_chunk':
        n = len(read_root(f, data, False, mode))
        return exp[:n]
    return exp


def op_alphabet(fields, kinds):
    ops = list(tp.transform_ops(0))
    rep_fields = []
    seen_kinds = set()
    for fn, k in zip(fields, kinds):
        if tp.replacement_values(k, 1) is not None and k not in seen_kinds:
            seen_kinds.add(k)
            rep_fields.append(fn)
    ops += [('replace', fn) for fn in rep_fields[:3]]
    gets = [fields[0], fields[-1]]
    if len(fields) > 2:
        gets.append(fields[1])
    ops += [('get', fn) for fn in gets]
    return ops


OBS_SEQ = [('len',), ('write',), ('rows',), ('write',), ('tolist',)]


def run_history(f, data, mode, hist, fields, kinds, model_rows):
    """Replay `hist` on fresh lazy and eager tables.  Returns dict with:
       status: 'ok' | 'both-raise' | 'disagree'
       detail: ..."""
    impls = {}
    for name, lazy in (('lazy', True), ('eager', False)):
        impls[name] = [read_root(f, data, lazy, mode), None]
    model = tp.Model(model_rows, fields, kinds)
    for step, op in enumerate(hist):
        if op[0] != 'get' and not model.enabled(op):
            return {'status': 'disabled'}
        outcomes = {}
        for name in ('lazy', 'eager'):
            t, u = impls[name]
            try:
                if op[0] == 'get':
                    observe.column(getattr(t, op[1]))
                else:
                    impls[name] = list(tp.apply_impl(t, u, op, fields, kinds, f.buffer_type()))
                outcomes[name] = ('ok',)
            except observe.ObserverError:
                raise
            except Exception as e:
                outcomes[name] = ('raises', exc_name(e), tb_string(e), '%s:%s' % raising_frame(e))
        if outcomes['lazy'][0] != outcomes['eager'][0]:
            return {'status': 'disagree', 'where': 'transform', 'step': step, 'op': op, 'lazy': outcomes['lazy'][:2],
                    'eager': outcomes['eager'][:2], 'tb': (outcomes['lazy'] if outcomes['lazy'][0] == 'raises' else outcomes['eager'])[2],
                    'frame': (outcomes['lazy'] if outcomes['lazy'][0] == 'raises' else outcomes['eager'])[3], 'model': model}
        if outcomes['lazy'][0] == 'raises':
            return {'status': 'both-raise', 'op': op, 'model': model}
        if op[0] != 'get':
            model.apply(op)
    # observations
    regs = [(0, o) for o in OBS_SEQ]
    if impls['lazy'][1] is not None:
        regs += [(1, ('rows',)), (1, ('write',))]      # the saved register must be unaffected by what happened to t
    for reg, obs in regs:
        vals = {}
        for name in ('lazy', 'eager'):
            try:
                vals[name] = ('ok', tp.observe_impl(impls[name][reg], obs, fields, f.buffer_type()))
            except observe.ObserverError:
                raise
            except (observe.MalformedLibraryValue, observe.ColumnLengthMismatch) as e:
                vals[name] = ('raises', 'Malformed:' + str(e)[:60], '', 'observe')
            except Exception as e:
                vals[name] = ('raises', exc_name(e), tb_string(e), '%s:%s' % raising_frame(e))
        if vals['lazy'][0] != vals['eager'][0]:
            r = vals['lazy'] if vals['lazy'][0] == 'raises' else vals['eager']
            return {'status': 'disagree', 'where': 'observe:' + obs[0] + (':saved-register' if reg else ''), 'step': len(hist), 'op': obs,
                    'lazy': _short(vals['lazy'][:2]), 'eager': _short(vals['eager'][:2]), 'tb': r[2], 'frame': r[3], 'model': model, 'impls': impls}
        if vals['lazy'][0] == 'ok' and obs[0] == 'write' and vals['lazy'][1] != vals['eager'][1]:
            hl, bl = split_header(f.name, vals['lazy'][1])
            he, be = split_header(f.name, vals['eager'][1])
            if bl == be:
                where = 'observe:write-header-only'
            elif be.replace(b'\t\n', b'\n') == bl:
                where = 'observe:write-eager-trailing-tab-only'
            else:
                where = 'observe:write'
            return {'status': 'disagree', 'where': where + (':saved-register' if reg else ''), 'step': len(hist), 'op': obs,
                    'lazy': _short(vals['lazy'][1]), 'eager': _short(vals['eager'][1]), 'tb': None, 'frame': None, 'model': model, 'impls': impls}
        if vals['lazy'][0] == 'ok' and vals['lazy'][1] != vals['eager'][1]:
            return {'status': 'disagree', 'where': 'observe:' + obs[0] + (':saved-register' if reg else ''), 'step': len(hist), 'op': obs,
                    'lazy': _short(vals['lazy'][1]), 'eager': _short(vals['eager'][1]), 'tb': None, 'frame': None, 'model': model, 'impls': impls}
        if obs[0] == 'rows' and vals['eager'][0] == 'ok':
            common = vals['eager'][1] != model.values('u' if reg else 't')
        else:
            common = False
        if common:
            return {'status': 'ok', 'common_mode_differs_from_model': True, 'model': model, 'impls': impls}
    return {'status': 'ok', 'model': model, 'impls': impls}


def _short(v):
    if isinstance(v, bytes):
        return v.decode('latin1')[:400]
    if isinstance(v, tuple):
        return tuple(_short(x) for x in v)
    return v


def explore(res, fmt, variants, mode, depth, deadline):
    f = FORMATS[fmt]
    recs = canonical_records(f, variants)
    data = f.render(recs, LF, True)
    fields, kinds = list(f.fields), list(f.kinds)
    model_rows = root_rows(f, recs, data, mode)
    ops = op_alphabet(fields, kinds)
    seen = set()
    frontier = [()]
    for d in range(depth + 1):
        nxt = []
        for hist in frontier:
            if deadline.expired():
                res.capped = True
                return
            r = run_history(f, data, mode, list(hist), fields, kinds, model_rows)
            if r['status'] == 'disabled':
                continue
            res.evaluations += 1
            res.traces += 1
            res.planned += 1
            res.transitions += 2 * (len(hist) + len(OBS_SEQ))
            case = {'fmt': fmt, 'variants': list(variants), 'mode': mode, 'hist': [list(o) for o in hist]}
            if r['status'] == 'disagree':
                opkinds = sorted({o[0] for o in hist})
                feats = {'format': fmt, 'where': r['where'], 'failing_op': r['op'][0], 'lazy': r['lazy'][0] if isinstance(r['lazy'], tuple) and r['lazy'] and r['lazy'][0] in ('ok', 'raises') else 'value',
                         'eager': r['eager'][0] if isinstance(r['eager'], tuple) and r['eager'] and r['eager'][0] in ('ok', 'raises') else 'value',
                         'empty_table': len(r['model'].t) == 0, 'has_replace': 'replace' in opkinds,
                         'has_concat': bool({'cat_tu', 'cat_ut'} & set(opkinds)), 'frame': r.get('frame')}
                res.fail('lazy-eager-disagree', case, feats, expected={'eager': r['eager']}, observed={'lazy': r['lazy']}, tb=r.get('tb'))
                res.outcome('disagree:' + r['where'])
                if not (r['where'].startswith('observe') and 'impls' in r):
                    continue
                # a disagreement in one OBSERVATION does not invalidate the state: keep exploring from it (otherwise a
                # known finding at a root would hide everything reachable from that root)
            if r['status'] == 'both-raise':
                res.raising += 1
                res.outcome('both-raise:' + r['op'][0])
                continue
            if r.get('common_mode_differs_from_model'):
                res.extra['common_mode_differs_from_model(C19 semantics, not judged here)'] += 1
            model = r['model']
            key = (model.key(), tp.lazy_signature(r['impls']['lazy'][0]), tp.lazy_signature(r['impls']['lazy'][1]) if r['impls']['lazy'][1] is not None else None)
            if key in seen:
                res.outcome('ok:merged')
                continue
            seen.add(key)
            res.states += 1
            if len(hist) >= 2 and len(model.t) > 0:
                res.nontrivial += 1
            res.outcome('ok:new-state')
            if d < depth:
                for op in ops:
                    nxt.append(hist + (op,))
        frontier = nxt
    res.sample({'format': fmt, 'mode': mode, 'file': data.decode('latin1'), 'depth': depth, 'states': len(seen),
                'example_history': [list(o) for o in (frontier[0] if frontier else ())]})


def run_shard(desc, deadline):
    res = Result()
    explore(res, desc['fmt'], desc['variants'], desc['mode'], desc['depth'], deadline)
    return res


def replay_case(case):
    f = FORMATS[case['fmt']]
    recs = canonical_records(f, case['variants'])
    data = f.render(recs, LF, True)
    fields, kinds = list(f.fields), list(f.kinds)
    model_rows = root_rows(f, recs, data, case['mode'])
    r = run_history(f, data, case['mode'], [tuple(o) for o in case['hist']], fields, kinds, model_rows)
    if r['status'] == 'disagree':
        return [{'kind': 'lazy-eager-disagree', 'features': {'format': case['fmt'], 'where': r['where']},
                 'expected': {'eager': r['eager']}, 'observed': {'lazy': r['lazy']}, 'traceback': r.get('tb')}]
    return []
