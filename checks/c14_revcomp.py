"""C14 - reverse complement, stranded extraction and translation are biologically exact.

Shape A (product-space enumeration).  Seven finite spaces, each enumerated completely (units() lists the
sub-spaces, shards() packs them into 32 / 48 shards of equal estimated cost):

  flat      every string over {A,C,G,T,N,a,c,g,t,n} up to a length bound, as a Python str and as a
            1-D EncodedArray in the ASCII, ACGT (N-free strings) and ACGTN encodings
  ragged    every list of 1..3 such strings with at most `total` letters (empty rows included), as a
            Python list, an EncodedRaggedArray, two non-contiguous ragged views, a SequenceEntry table and
            (equal row lengths) a 2-D EncodedArray, in the three encodings
  profiles  longer rows: every list of 0..R rows with lengths from a small set, three letter fills
  st_small  every short reference x every single stranded interval on it (and the list of all of them)
  st_sets   fixed 6-base references x EVERY ordered list of <= K stranded intervals ('+'/'-', empty
            intervals, duplicates and the empty list included) through get_strand_specific_sequences,
            GenomicSequence (dict backend) and GenomicSequence (indexed-FASTA backend)
  tr_single all 64 codons in all 8 case spellings, every concatenation of 2 (thorough: 3) codons, one row
  tr_batch  every list of 2..3 rows of codons with at most 2 (thorough: 3) codons in total

Oracle: the table-driven model in models/seqs.py (itself compared with Biopython on every case);
letters are compared case-insensitively (DESIGN 4.3).
"""
import itertools
import os
import shutil
import tempfile
import types

import numpy as np

from engine import observe
from engine.result import Result, tb_string, sig_key, MAX_EXEMPLARS
from models import seqs as M

PROPERTY = 'C14'
LEVEL = 'model_checking'
TECHNIQUE = ('bounded exhaustive enumeration of DNA strings, ragged lists, stranded interval lists and codon '
             'concatenations against a table-driven reference model')
RULE = ('a case is one call of the real function on one completely specified input (sequence(s) x encoding x '
        'container form | reference x interval list x API | codon rows x input form); all cases of each stated space '
        'are enumerated, none sampled.  Non-trivial: reverse complement - the expected result differs from the input '
        '(a no-op or a reverse-only/complement-only implementation would be caught); stranded extraction - at least '
        'one \'-\' interval whose expected result differs from the forward subsequence; translation - at least one codon')
ASSUMPTIONS = [
    'letters are compared case-insensitively: the statement does not say whether lower-case input stays lower-case '
    '(alphabet encodings upper-case by construction)',
    'only \'+\' and \'-\' strands are generated (the statement defines nothing for \'.\')',
    'translation: judged input forms are a Python list of str, an ASCII EncodedRaggedArray and a SequenceEntry table '
    '(what the function documents); a flat 1-D sequence and ACGT/ACGTN-encoded arrays are explicitly rejected by the '
    'library today - those calls are executed, counted as unsupported and judged only if they return a value',
    'codons containing N have no standard amino acid and are not generated',
    'input construction (as_encoded_array, SequenceEntry, Bed6, GenomicIntervals.from_fields, open_indexed) is trusted '
    'to the extent that the constructed input is read back and must equal the intended sequences, otherwise the case '
    'is counted as unsupported and not judged (that is C06/C07/C17 territory)',
    'sequences longer than the stated bounds are not explored; get_transcript_sequences (genes.py) is not an observation '
    'point of the property and is not driven',
    'Biopython (Bio.Seq, Bio.Data.CodonTable) is a cross-check of the model on every case, never the oracle',
]
EXPLANATION = ('every input of the stated finite spaces is executed on the real functions and compared with a '
               'hand-written complement table / genetic code; representation variants (flat, ragged, ragged views, '
               'matrix, table column) are part of the space because reversal is done by slicing the (ragged) array')
MANIFEST_TEXT = ('Exhaustive enumeration against a table-driven model: every DNA string over {A,C,G,T,N,a,c,g,t,n} of '
                 'length <= 4 (quick; plus a seed-rotated tenth of length 5) / <= 6 (thorough) as str and as 1-D array in the '
                 'ASCII, ACGT (N-free) and ACGTN encodings; every list of 1..3 strings with <= 3 / <= 4 letters in total '
                 '(empty rows included; below the top total also as ragged views, 2-D matrix and SequenceEntry column); longer '
                 'row-length profiles (0..3 / 0..4 rows, lengths up to 8 / 13) with three letter fills; every short reference '
                 'x every single stranded interval; every ordered list of <= 2 / <= 3 stranded intervals (56 intervals incl. '
                 'empty ones, + and -) on 6-base references through get_strand_specific_sequences and GenomicSequence[...] '
                 '(dict and indexed-FASTA backends); all 64 codons in all 8 case spellings and every concatenation of '
                 '2 / 3 codons as single rows and split over ragged batches.  Clauses: the call returns; row lengths are '
                 'preserved; value equals the reverse complement (A<->T, C<->G, N fixed); applying it twice gives the input; '
                 '\'+\' gives the forward subsequence and \'-\' its reverse complement; each codon gives its standard amino acid '
                 'with stops as \'*\'.  A size ladder (one array of N letters and one collection of N rows for N = 2^k-1/2^k/2^k+1 up to '
                 '2^18 (thorough 2^20) and 10^k+-1, three encodings) repeats the reverse-complement and translation clauses on long inputs.')
MANIFEST_NOTE = ('Trusted: NumPy, CPython, the hand-written tables in models/seqs.py (cross-checked against Biopython '
                 'on every case), input constructors (read back before judging).  Case-insensitive comparison; '
                 'strands limited to + and -; bounds as stated.')

L10 = M.DNA_LETTERS             # 'ACGTNacgtn'
L5 = M.UPPER                    # 'ACGTN'
ENC_NAMES = ('ASCII', 'ACGTN', 'ACGT')

# fixed references for the interval-list space: no non-empty substring equals its own reverse complement,
# so '+' and '-' are distinguishable on every non-empty interval
GSS_REFS = [('ASCII', 'ACCTNG'), ('ASCII', 'acCtnG'), ('ACGT', 'ACCTGG'), ('ACGTN', 'ACCTNG')]
GS_DICT_REFS = ['ACCTNG', 'acctng']
GS_FASTA_REFS = ['ACCTNG', 'acCtng']
PAD_CONTIG = 'GGATC'            # contig c1 in front of the reference contig c2 (GenomicSequence cases)
FASTA_WIDTH = 4                 # the 6-base reference spans two lines
STRANDED6 = M.all_stranded_intervals(6)     # 56 = 28 intervals (7 empty) x 2 strands
VIEW_SENTINEL = 'GATTACA'


# ---------------------------------------------------------------------------- library handle
_LIB = None


def lib():
    global _LIB
    if _LIB is None:
        import logging
        logging.disable(logging.WARNING)
        import bionumpy as bnp
        from bionumpy.encodings import BaseEncoding, DNAEncoding, ACGTnEncoding
        from bionumpy.encoded_array import as_encoded_array, EncodedArray, EncodedRaggedArray
        from bionumpy.sequence import (get_reverse_complement, get_strand_specific_sequences,
                                       translate_dna_to_protein)
        from bionumpy.datatypes import Bed6, StrandedInterval, SequenceEntry
        from bionumpy.bnpdataclass import BNPDataClass
        from bionumpy.genomic_data.genomic_sequence import GenomicSequence
        from bionumpy.genomic_data import GenomicIntervals
        from bionumpy.genomic_data.genome_context import GenomeContext
        from Bio.Seq import reverse_complement as bio_rc, translate as bio_tr
        _LIB = types.SimpleNamespace(
            bnp=bnp, enc={'ASCII': BaseEncoding, 'ACGT': DNAEncoding, 'ACGTN': ACGTnEncoding},
            as_encoded_array=as_encoded_array, EncodedArray=EncodedArray, EncodedRaggedArray=EncodedRaggedArray,
            rc=get_reverse_complement, gss=get_strand_specific_sequences, tr=translate_dna_to_protein,
            Bed6=Bed6, StrandedInterval=StrandedInterval, SequenceEntry=SequenceEntry, BNPDataClass=BNPDataClass,
            GenomicSequence=GenomicSequence, GenomicIntervals=GenomicIntervals, GenomeContext=GenomeContext,
            bio_rc=bio_rc, bio_tr=bio_tr)
    return _LIB


# ---------------------------------------------------------------------------- observation
def _decode(enc_array):
    """EncodedArray -> text using only raw(); None if the encoding is not a character encoding."""
    enc = enc_array.encoding
    codes = np.asarray(enc_array.raw()).ravel().tolist()
    if enc.is_base_encoding():
        return ''.join(chr(c) if 0 <= c < 0x110000 else '?' for c in codes)
    get = getattr(enc, 'get_alphabet', None)
    if get is None:
        return None
    alphabet = list(get())
    n = len(alphabet)
    return ''.join(alphabet[c] if 0 <= c < n else '?' for c in codes)


def observe_seq(v):
    """library value -> ('flat', str) | ('rows', [str]) | ('other', description)"""
    L = lib()
    if isinstance(v, L.BNPDataClass):
        if not hasattr(v, 'sequence'):
            return ('other', 'table without sequence column: %s' % type(v).__name__)
        v = v.sequence
    if isinstance(v, L.EncodedRaggedArray):
        text = _decode(v.ravel())
        if text is None:
            return ('other', 'ragged array with encoding %r' % (v.encoding,))
        lengths = [int(x) for x in np.asarray(v._shape.lengths).ravel()]
        if sum(lengths) != len(text):
            return ('other', 'ragged array: %d letters but row lengths %r' % (len(text), lengths))
        return ('rows', M.split_by_profile(text, lengths))
    if isinstance(v, L.EncodedArray):
        text = _decode(v)
        if text is None:
            return ('other', 'array with encoding %r' % (v.encoding,))
        shape = np.asarray(v.raw()).shape
        if len(shape) <= 1:
            return ('flat', text)
        if len(shape) == 2:
            return ('rows', M.split_by_profile(text, [shape[1]] * shape[0]))
        return ('other', 'array of shape %r' % (shape,))
    return ('other', 'result of type %s' % type(v).__name__)


def _lens(obs):
    if obs[0] == 'flat':
        return ('flat', len(obs[1]))
    return ('rows', [len(r) for r in obs[1]])


def _fold(obs):
    if obs[0] == 'flat':
        return ('flat', obs[1].upper())
    return ('rows', [r.upper() for r in obs[1]])


def judge(obs, expected, clause_prefix):
    """obs/expected: ('flat', str) | ('rows', [str]).  -> None | (kind, expected, observed)"""
    if obs[0] == 'other':
        return (clause_prefix + '-result-not-a-sequence', list(expected), list(obs))
    if _lens(obs) != _lens(expected):
        return (clause_prefix + '-row-lengths', list(_lens(expected)), list(_lens(obs)))
    if _fold(obs) != _fold(expected):
        return (clause_prefix + '-value', list(expected), list(obs))
    return None


def exc_name(e):
    return type(e).__name__


def record_failure(res, kind, case, features, expected, observed, exc):
    """res.fail, formatting the traceback only while the group still collects exemplars (formatting an
    AttributeError traceback costs milliseconds in CPython 3.12)"""
    g = res.fail_groups.get(sig_key(kind, features))
    tb = None
    if exc is not None and (g is None or len(g['exemplars']) < MAX_EXEMPLARS):
        tb = tb_string(exc)
    res.fail(kind, case, features, expected=expected, observed=observed, tb=tb)


class Unsupported(Exception):
    """input could not be constructed as intended: case not judged"""


# ---------------------------------------------------------------------------- reverse complement
def rc_shape(form):
    if form in ('str', 'flat'):
        return 'flat'
    if form in ('list', 'ragged'):
        return 'ragged'
    if form.startswith('view'):
        return 'ragged-view'
    return form       # matrix, dataclass


def rc_features(case):
    text = case['seq'] if 'seq' in case else ''.join(case['rows'])
    return {'func': 'get_reverse_complement', 'encoding': case['enc'], 'shape': rc_shape(case['form']),
            'ascii_lower_case': case['enc'] == 'ASCII' and any(ch.islower() for ch in text)}


def build_rc_input(case):
    """-> (library input, intended observation)"""
    L = lib()
    enc = L.enc[case['enc']]
    form = case['form']
    if form == 'str':
        return case['seq'], ('flat', case['seq'])
    if form == 'flat':
        return L.as_encoded_array(case['seq'], enc), ('flat', case['seq'])
    rows = list(case['rows'])
    want = ('rows', rows)
    if form == 'list':
        return rows, want
    if form == 'ragged':
        return L.as_encoded_array(rows, enc), want
    if form == 'view-tail':          # row slice of a longer ragged array
        return L.as_encoded_array([VIEW_SENTINEL] + rows, enc)[1:], want
    if form == 'view-rowrev':        # rows of the backing buffer are in the opposite order
        return L.as_encoded_array(rows[::-1], enc)[::-1], want
    if form == 'matrix':
        return L.as_encoded_array(''.join(rows), enc).reshape(len(rows), len(rows[0])), want
    if form == 'dataclass':
        return L.SequenceEntry(['s%d' % i for i in range(len(rows))], rows), want
    raise ValueError(form)


def construct(res, builder, case):
    """Build the library input and read it back.  Raises Unsupported (after counting) if that is not possible."""
    try:
        x, want = builder(case)
    except Exception as e:
        res.unsupported += 1
        res.extra['input-construction-raises:%s' % exc_name(e)] += 1
        raise Unsupported()
    if not isinstance(x, (str, list)):
        got = observe_seq(x)
        if got[0] == 'other' or _fold(got) != _fold(want):
            res.unsupported += 1
            res.extra['input-not-as-intended'] += 1
            raise Unsupported()
    return x, want


def check_rc(res, case, ctx):
    L = lib()
    res.evaluations += 1
    res.states += 1
    res.planned += 1
    try:
        x, want = construct(res, build_rc_input, case)
    except Unsupported:
        res.outcome('rc|%s|%s|input-unsupported' % (case['enc'], case['form']))
        return
    if want[0] == 'flat':
        expected = ('flat', M.reverse_complement(want[1]))
        assert L.bio_rc(want[1]) == expected[1], want
    else:
        expected = ('rows', M.reverse_complement_rows(want[1]))
        for r, e in zip(want[1], expected[1]):
            assert L.bio_rc(r) == e, r
    n_letters = len(want[1]) if want[0] == 'flat' else sum(len(r) for r in want[1])
    nontrivial = _fold(expected) != _fold(want)
    if nontrivial:
        res.nontrivial += 1
    tag = 'rc|%s|%s|' % (case['enc'], case['form'])
    verdict = None
    tb = None
    obs = None
    res.transitions += 1
    try:
        y = L.rc(x)
    except Exception as e:
        verdict = ('revcomp-raises', list(expected), 'raises %s: %s' % (exc_name(e), str(e)[:200]))
        tb = e
        res.outcome(tag + 'raises:' + exc_name(e))
    if verdict is None:
        obs = observe_seq(y)
        verdict = judge(obs, expected, 'revcomp')
        if verdict is None:
            # involution: the library's own output (a reversed view) is fed back
            res.transitions += 1
            try:
                z = L.rc(y)
            except Exception as e:
                verdict = ('revcomp-involution', list(want), 'second application raises %s: %s' % (exc_name(e), str(e)[:200]))
                tb = e
            else:
                v2 = judge(observe_seq(z), want, 'x')
                if v2 is not None:
                    verdict = ('revcomp-involution', v2[1], v2[2])
        if n_letters <= 2:
            detail = repr(_fold(obs)[1]) if obs[0] != 'other' else 'other'
        else:
            detail = 'lens=%r' % (_lens(obs)[1],) if obs[0] != 'other' else 'other'
        res.outcome(tag + detail + ('' if verdict is None else '|' + verdict[0]))
    res.traces += 1
    if verdict is not None:
        record_failure(res, verdict[0], case, rc_features(case), verdict[1], verdict[2], tb)
    # deferred observation: a result that was correct when returned must still be correct after a LATER call on other
    # data (a scratch buffer shared between calls shows only then).  The object kept is a fresh, never observed
    # result (observing a ragged result flattens it and would detach it from shared memory).
    prev = getattr(ctx, 'prev_rc', None)
    if verdict is None:
        try:
            keep = L.rc(x)
            res.transitions += 1
        except Exception:
            keep = None
        if prev is not None:
            y0, exp0, case0 = prev
            v0 = judge(observe_seq(y0), exp0, 'revcomp')
            if v0 is not None:
                f = rc_features(case0)
                record_failure(res, 'revcomp-earlier-result-changed-by-later-call', {'op': 'rc_pair', 'first': case0, 'second': case},
                               {'func': 'get_reverse_complement', 'encoding': f['encoding'], 'shape': f['shape']},
                               list(exp0), v0[2], None)
        ctx.prev_rc = (keep, expected, case) if keep is not None else None
    else:
        ctx.prev_rc = None
    if nontrivial and case['op'] not in ctx.sampled:
        ctx.sampled.add(case['op'])
        res.sample({'case': case, 'expected': list(expected), 'observed': list(obs) if obs else None,
                    'verdict': 'ok' if verdict is None else verdict[0]})


# ---------------------------------------------------------------------------- stranded extraction
class Ctx:
    """per-shard scratch: GenomicSequence objects (deliberately reused between cases) and the FASTA scratch dir"""

    def __init__(self):
        self.tmp = None
        self.cache = {}
        self.open_files = []
        self.sampled = set()

    def genome_context(self, ref):
        L = lib()
        key = ('gc', len(ref))
        if key not in self.cache:
            self.cache[key] = L.GenomeContext.from_dict({'c1': len(PAD_CONTIG), 'c2': len(ref)})
        return self.cache[key]

    def gs_dict(self, ref):
        L = lib()
        key = ('dict', ref)
        if key not in self.cache:
            self.cache[key] = L.GenomicSequence.from_dict({'c1': PAD_CONTIG, 'c2': ref})
        return self.cache[key]

    def gs_fasta(self, ref):
        L = lib()
        key = ('fasta', ref)
        if key not in self.cache:
            if self.tmp is None:
                self.tmp = tempfile.mkdtemp(prefix='c14_', dir='/dev/shm')
            path = os.path.join(self.tmp, 'g%d.fa' % len(self.cache))
            with open(path, 'w') as f:
                for name, seq in (('c1', PAD_CONTIG), ('c2', ref)):
                    f.write('>%s\n' % name)
                    for i in range(0, len(seq), FASTA_WIDTH):
                        f.write(seq[i:i + FASTA_WIDTH] + '\n')
            idx = L.bnp.open_indexed(path)
            self.open_files.append(idx)
            self.cache[key] = L.GenomicSequence.from_indexed_fasta(idx)
        return self.cache[key]

    def close(self):
        for idx in self.open_files:
            f = getattr(idx, '_f_obj', None)
            try:
                if f is not None:
                    f.close()
            except Exception:
                pass
        if self.tmp is not None:
            shutil.rmtree(self.tmp, ignore_errors=True)
        self.cache = {}
        self.open_files = []
        self.tmp = None


def st_features(case):
    ivs = case['intervals']
    ref = case['ref']
    n = len(ivs)
    bases = sum(e - s for s, e, _ in ivs)
    if n == 0:
        size_class = 'no-intervals'
    elif bases <= n:
        size_class = 'bases<=intervals'      # total extracted letters do not exceed the number of intervals
    else:
        size_class = 'bases>intervals'
    return {'func': {'gss': 'get_strand_specific_sequences', 'gs_dict': 'GenomicSequence[dict]',
                     'gs_fasta': 'GenomicSequence[indexed fasta]'}[case['api']],
            'ref_encoding': case['enc'],
            'interval_sizes': size_class,
            'ascii_lower_on_minus': case['enc'] == 'ASCII' and case['api'] == 'gss' and any(
                st == '-' and any(ch.islower() for ch in ref[s:e]) for s, e, st in ivs)}


def build_st_call(case, ctx):
    """-> zero-argument callable making the real call"""
    L = lib()
    ivs = case['intervals']
    n = len(ivs)
    starts = np.array([i[0] for i in ivs], dtype=int)
    stops = np.array([i[1] for i in ivs], dtype=int)
    strands = [i[2] for i in ivs]
    chroms = ['c2'] * n
    ref = case['ref']
    if case['api'] == 'gss':
        ref_arr = L.as_encoded_array(ref, L.enc[case['enc']])
        got = observe_seq(ref_arr)
        if got[0] != 'flat' or got[1].upper() != ref.upper():
            raise Unsupported()
        if case['table'] == 'Bed6':
            table = L.Bed6(chroms, starts, stops, ['.'] * n, np.zeros(n, dtype=int), strands)
        else:
            table = L.StrandedInterval(chroms, starts, stops, strands)
        return lambda: L.gss(ref_arr, table)
    gc = ctx.genome_context(ref)
    gi = L.GenomicIntervals.from_fields(gc, chroms, starts, stops, strands)
    gs = ctx.gs_dict(ref) if case['api'] == 'gs_dict' else ctx.gs_fasta(ref)
    return lambda: gs[gi]


def check_st(res, case, ctx):
    res.evaluations += 1
    res.states += 1
    res.planned += 1
    ivs = [tuple(i) for i in case['intervals']]
    expected_rows = M.stranded_extract(case['ref'], ivs)
    forward_rows = [case['ref'][s:e] for s, e, _ in ivs]
    L = lib()
    for (s, e, st), row in zip(ivs, expected_rows):
        sub = case['ref'][s:e]
        assert row == (sub if st == '+' else L.bio_rc(sub)), (case, row)
    expected = ('rows', expected_rows)
    nontrivial = any(st == '-' and a.upper() != b.upper() for (_, _, st), a, b in zip(ivs, expected_rows, forward_rows))
    if nontrivial:
        res.nontrivial += 1
    tag = 'st|%s|%s|' % (case['api'], case['enc'])
    try:
        call = build_st_call(case, ctx)
    except Unsupported:
        res.unsupported += 1
        res.extra['input-not-as-intended'] += 1
        res.outcome(tag + 'input-unsupported')
        return
    except Exception as e:
        res.unsupported += 1
        res.extra['input-construction-raises:%s' % exc_name(e)] += 1
        res.outcome(tag + 'input-unsupported')
        return
    verdict = None
    tb = None
    obs = None
    res.transitions += 1
    try:
        y = call()
    except Exception as e:
        verdict = ('stranded-raises', list(expected), 'raises %s: %s' % (exc_name(e), str(e)[:200]))
        tb = e
        res.outcome(tag + 'raises:' + exc_name(e))
    else:
        obs = observe_seq(y)
        verdict = judge(obs, expected, 'stranded')
        strands = ''.join(sorted({st for _, _, st in ivs}))
        res.outcome(tag + 'n=%d|%s|%s' % (len(ivs), strands, 'ok' if verdict is None else verdict[0]))
    res.traces += 1
    if verdict is not None:
        record_failure(res, verdict[0], case, st_features(case), verdict[1], verdict[2], tb)
    if nontrivial and case['op'] not in ctx.sampled:
        ctx.sampled.add(case['op'])
        res.sample({'case': case, 'expected': list(expected), 'observed': list(obs) if obs else None,
                    'verdict': 'ok' if verdict is None else verdict[0]})


# ---------------------------------------------------------------------------- translation
TR_JUDGED = ('list', 'ragged-ASCII', 'dataclass')
TR_UNSUPPORTED_OK = ('ragged-ACGT', 'ragged-ACGTN', 'flat-str', 'flat-ASCII')


def tr_features(case):
    rows = case['rows']
    text = ''.join(rows)
    prot = ''.join(M.translate_rows(rows))
    return {'func': 'translate_dna_to_protein', 'input': case['form'],
            'has_lower': any(ch.islower() for ch in text),
            'only_letter_A': bool(text) and set(text.upper()) == {'A'},
            'has_stop': '*' in prot}


def build_tr_input(case):
    L = lib()
    rows = list(case['rows'])
    form = case['form']
    if form == 'list':
        return rows, ('rows', rows)
    if form == 'ragged-ASCII':
        return L.as_encoded_array(rows, L.enc['ASCII']), ('rows', rows)
    if form == 'ragged-ACGT':
        return L.as_encoded_array(rows, L.enc['ACGT']), ('rows', rows)
    if form == 'ragged-ACGTN':
        return L.as_encoded_array(rows, L.enc['ACGTN']), ('rows', rows)
    if form == 'dataclass':
        return L.SequenceEntry(['s%d' % i for i in range(len(rows))], rows), ('rows', rows)
    if form == 'flat-str':
        return rows[0], ('flat', rows[0])
    if form == 'flat-ASCII':
        return L.as_encoded_array(rows[0], L.enc['ASCII']), ('flat', rows[0])
    raise ValueError(form)


def check_tr(res, case, ctx):
    L = lib()
    res.evaluations += 1
    res.states += 1
    res.planned += 1
    form = case['form']
    tag = 'tr|%s|' % form
    try:
        x, want = construct(res, build_tr_input, case)
    except Unsupported:
        res.outcome(tag + 'input-unsupported')
        return
    if want[0] == 'flat':
        expected = ('flat', M.translate(want[1]))
        assert L.bio_tr(want[1].upper()) == expected[1] or not want[1]
    else:
        expected = ('rows', M.translate_rows(want[1]))
        for r, e in zip(want[1], expected[1]):
            assert (L.bio_tr(r.upper()) if r else '') == e, r
    n_codons = sum(len(r) for r in case['rows']) // 3
    nontrivial = n_codons >= 1
    if nontrivial:
        res.nontrivial += 1
    verdict = None
    tb = None
    obs = None
    res.transitions += 1
    try:
        y = L.tr(x)
    except Exception as e:
        if form in TR_UNSUPPORTED_OK:
            # the library rejects this input form explicitly today; the statement does not promise it
            res.unsupported += 1
            res.extra['translate-%s-raises:%s(not judged)' % (form, exc_name(e))] += 1
            res.outcome(tag + 'unsupported:' + exc_name(e))
            res.traces += 1
            return
        verdict = ('translate-raises', list(expected), 'raises %s: %s' % (exc_name(e), str(e)[:200]))
        tb = e
        res.outcome(tag + 'raises:' + exc_name(e))
    else:
        obs = observe_seq(y)
        verdict = judge(obs, expected, 'translate')
        if n_codons <= 2:
            detail = repr(obs[1]) if obs[0] != 'other' else 'other'
        else:
            detail = 'lens=%r' % (_lens(obs)[1],) if obs[0] != 'other' else 'other'
        res.outcome(tag + detail + ('' if verdict is None else '|' + verdict[0]))
    res.traces += 1
    if verdict is not None:
        record_failure(res, verdict[0], case, tr_features(case), verdict[1], verdict[2], tb)
    if nontrivial and case['op'] not in ctx.sampled:
        ctx.sampled.add(case['op'])
        res.sample({'case': case, 'expected': list(expected), 'observed': list(obs) if obs else None,
                    'verdict': 'ok' if verdict is None else verdict[0]})


CHECKERS = {'rc': check_rc, 'st': check_st, 'tr': check_tr, 'ladder': lambda res, case, ctx: check_ladder(res, case, ctx)}


def check_rc_pair(res, case, ctx):
    """replay of a deferred-observation failure: first call, second call, then look at the first result"""
    L = lib()
    x1, want1 = construct(res, build_rc_input, case['first'])
    y1 = L.rc(x1)
    x2, _ = construct(res, build_rc_input, case['second'])
    L.rc(x2)
    L.rc(x2)
    exp1 = ('flat', M.reverse_complement(want1[1])) if want1[0] == 'flat' else ('rows', M.reverse_complement_rows(want1[1]))
    v = judge(observe_seq(y1), exp1, 'revcomp')
    if v is not None:
        f = rc_features(case['first'])
        record_failure(res, 'revcomp-earlier-result-changed-by-later-call', case,
                       {'func': 'get_reverse_complement', 'encoding': f['encoding'], 'shape': f['shape']}, list(exp1), v[2], None)


def check_case(res, case, ctx):
    if case['op'] == 'rc_pair':
        return check_rc_pair(res, case, ctx)
    CHECKERS[case['op']](res, case, ctx)


# ---------------------------------------------------------------------------- the spaces
def _no_n(text):
    return 'N' not in text and 'n' not in text


def cases_flat(desc):
    prefix = desc['prefix']
    for n in desc['lengths']:
        if n < len(prefix):
            continue
        for suffix in M.strings_of_length(L10, n - len(prefix)):
            s = prefix + suffix
            if n <= 5:          # a Python str becomes the ASCII array of the next case; not repeated at length 6
                yield {'op': 'rc', 'enc': 'ASCII', 'form': 'str', 'seq': s}
            yield {'op': 'rc', 'enc': 'ASCII', 'form': 'flat', 'seq': s}
            yield {'op': 'rc', 'enc': 'ACGTN', 'form': 'flat', 'seq': s}
            if _no_n(s):
                yield {'op': 'rc', 'enc': 'ACGT', 'form': 'flat', 'seq': s}


def rc_forms_for_rows(rows, which='all'):
    text = ''.join(rows)
    matrix = len(rows) >= 1 and len({len(r) for r in rows}) == 1
    for enc in ENC_NAMES:
        if enc == 'ACGT' and not _no_n(text):
            continue
        if which == 'base':
            forms = ['ragged']
        else:
            forms = ['ragged', 'view-tail', 'view-rowrev']
            if enc == 'ASCII':
                forms = ['list'] + forms + ['dataclass']
            if matrix:
                forms.append('matrix')
        for form in forms:
            yield {'op': 'rc', 'enc': enc, 'form': form, 'rows': list(rows)}


def cases_ragged(desc):
    prefix = desc['prefix']
    for profile in desc['profiles']:
        total = sum(profile)
        if total < len(prefix):
            continue
        for suffix in M.strings_of_length(L10, total - len(prefix)):
            rows = M.split_by_profile(prefix + suffix, profile)
            for c in rc_forms_for_rows(rows, desc['forms']):
                yield c


PROFILE_LENGTHS = {'quick': (0, 1, 2, 3, 5, 8), 'thorough': (0, 1, 2, 3, 4, 5, 8, 13)}
FILLS = ('cyclic-upper', 'cyclic-mixed', 'all-N')


def fill_rows(profile, fill, enc):
    if fill == 'cyclic-upper':
        letters = 'ACGT' if enc == 'ACGT' else 'ACGTN'
    elif fill == 'cyclic-mixed':
        letters = 'AcGtaCgT' if enc == 'ACGT' else 'AcGtNaCgTn'
    else:
        letters = 'T' if enc == 'ACGT' else 'N'
    text = ''.join(letters[i % len(letters)] for i in range(sum(profile)))
    return M.split_by_profile(text, profile)


def cases_profiles(desc):
    lens = PROFILE_LENGTHS[desc['tier']]
    n_rows = desc['n_rows']
    for profile in itertools.product(lens, repeat=n_rows):
        if desc.get('first') is not None and (not profile or profile[0] != desc['first']):
            continue
        for fill in FILLS:
            for enc in ENC_NAMES:
                rows = fill_rows(profile, fill, enc)
                for c in rc_forms_for_rows(rows):
                    if c['enc'] == enc:
                        yield c


def cases_st_small(desc):
    alphabet = L10 if desc['alphabet'] == 'full' else L5
    n = desc['ref_len']
    prefix = desc['prefix']
    stranded = M.all_stranded_intervals(n)
    for suffix in M.strings_of_length(alphabet, n - len(prefix)):
        ref = prefix + suffix
        for enc in ENC_NAMES:
            if enc == 'ACGT' and not _no_n(ref):
                continue
            for iv in stranded:
                yield {'op': 'st', 'api': 'gss', 'enc': enc, 'ref': ref, 'table': 'Bed6', 'intervals': [list(iv)]}
            yield {'op': 'st', 'api': 'gss', 'enc': enc, 'ref': ref, 'table': 'Bed6',
                   'intervals': [list(iv) for iv in stranded]}
        if ref.isupper():
            for iv in stranded:
                yield {'op': 'st', 'api': 'gs_dict', 'enc': 'ACGTN', 'ref': ref, 'table': 'GenomicIntervals',
                       'intervals': [list(iv)]}


def st_set_cases(ivs, full):
    """all API x reference variants for one interval list; `full` = short list (<= 2 intervals)"""
    ivs = [list(i) for i in ivs]
    for enc, ref in GSS_REFS:
        for table in (('Bed6', 'StrandedInterval') if full else ('Bed6',)):
            yield {'op': 'st', 'api': 'gss', 'enc': enc, 'ref': ref, 'table': table, 'intervals': ivs}


def st_set_cases_gs(ivs, full):
    ivs = [list(i) for i in ivs]
    for ref in (GS_DICT_REFS if full else GS_DICT_REFS[:1]):
        yield {'op': 'st', 'api': 'gs_dict', 'enc': 'ACGTN', 'ref': ref, 'table': 'GenomicIntervals', 'intervals': ivs}
    for ref in (GS_FASTA_REFS if full else GS_FASTA_REFS[:1]):
        yield {'op': 'st', 'api': 'gs_fasta', 'enc': 'ACGTN', 'ref': ref, 'table': 'GenomicIntervals', 'intervals': ivs}


def cases_st_sets(desc):
    S = STRANDED6
    first = desc['first']
    if first is None:                       # the empty interval list
        for c in st_set_cases([], True):
            yield c
        for c in st_set_cases_gs([], True):
            yield c
        return
    a = S[first]
    if desc['part'] == 'short':             # lists of 1 and 2 intervals starting with S[first]
        lists = [[a]] + [[a, b] for b in S]
        for ivs in lists:
            for c in st_set_cases(ivs, True):
                yield c
            for c in st_set_cases_gs(ivs, True):
                yield c
        return
    # triples: ordered for get_strand_specific_sequences; the (slow) GenomicSequence APIs get every
    # multiset of three (non-decreasing index order)
    m, of = desc['part'][1], desc['part'][2]
    for j, b in enumerate(S):
        if j % of != m:
            continue
        for k, c3 in enumerate(S):
            ivs = [a, b, c3]
            for c in st_set_cases(ivs, False):
                yield c
            if desc['apis'] == 'all' and first <= j <= k:
                for c in st_set_cases_gs(ivs, False):
                    yield c


def spellings(codon):
    for tup in itertools.product(*[(ch, ch.lower()) for ch in codon]):
        yield ''.join(tup)


def cases_tr_single(desc):
    C = M.CODONS
    k = desc['n_codons']
    if k == 1:
        for codon in C:
            for sp in spellings(codon):
                for form in TR_JUDGED + TR_UNSUPPORTED_OK:
                    yield {'op': 'tr', 'form': form, 'rows': [sp]}
        for form in TR_JUDGED:               # zero rows / one empty row
            yield {'op': 'tr', 'form': form, 'rows': []}
            yield {'op': 'tr', 'form': form, 'rows': ['']}
        return
    firsts = desc['firsts']
    for i in firsts:
        for rest in itertools.product(C, repeat=k - 1):
            s = C[i] + ''.join(rest)
            if k == 2:
                for text in (s, s.lower(), s[:3] + s[3:].lower()):
                    for form in TR_JUDGED:
                        yield {'op': 'tr', 'form': form, 'rows': [text]}
                for form in TR_UNSUPPORTED_OK:
                    yield {'op': 'tr', 'form': form, 'rows': [s]}
            else:
                for form in ('list', 'ragged-ASCII'):
                    yield {'op': 'tr', 'form': form, 'rows': [s]}


def cases_tr_batch(desc):
    C = M.CODONS
    firsts = desc['firsts']
    for profile in desc['profiles']:
        total = sum(profile)
        if total == 0:
            if 0 in firsts:
                for form in TR_JUDGED:
                    yield {'op': 'tr', 'form': form, 'rows': [''] * len(profile)}
            continue
        for i in firsts:
            for rest in itertools.product(C, repeat=total - 1):
                codons = [C[i]] + list(rest)
                rows = []
                pos = 0
                for ncod in profile:
                    rows.append(''.join(codons[pos:pos + ncod]))
                    pos += ncod
                if total <= 2:
                    for form in TR_JUDGED:
                        yield {'op': 'tr', 'form': form, 'rows': rows}
                    yield {'op': 'tr', 'form': 'ragged-ASCII', 'rows': [r.lower() for r in rows]}
                else:
                    yield {'op': 'tr', 'form': 'ragged-ASCII', 'rows': rows}


# ---- size ladder: the spaces above decide content and row structure on short inputs; a path chosen by the NUMBER of
# letters or rows needs long inputs.  One flat array of N letters and one collection of N rows (lengths cycling 1,2,3,0)
# per ladder size N and encoding; reverse complement and translation of the flat array against the same model.
def ladder_sizes(tier):
    ns = set()
    for k in range(6, (19 if tier == 'quick' else 21)):
        ns.update((2 ** k - 1, 2 ** k, 2 ** k + 1))
    for k in range(2, 6 if tier == 'quick' else 7):
        ns.update((10 ** k - 1, 10 ** k, 10 ** k + 1))
    return sorted(ns)


def cases_ladder(desc):
    for n in desc['sizes']:
        for enc in ('ACGT', 'ACGTN', 'ASCII'):
            yield {'op': 'ladder', 'enc': enc, 'layout': 'flat', 'n': n}
            if n <= 2 ** 17 + 1:
                yield {'op': 'ladder', 'enc': enc, 'layout': 'rows', 'n': n}


def ladder_text(enc, n):
    letters = {'ACGT': 'ACGT', 'ACGTN': 'ACGTN', 'ASCII': L10}[enc]
    j = np.arange(n, dtype=np.int64)
    idx = (j * j + j // len(letters) + 1) % len(letters)
    return np.frombuffer(letters.encode(), dtype=np.uint8)[idx].tobytes().decode()


def check_ladder(res, case, ctx):
    L = lib()
    enc, n, layout = case['enc'], case['n'], case['layout']
    size = '<=10^3' if n <= 1000 else ('10^3..10^5' if n <= 10 ** 5 else '>10^5')
    feats = {'op': 'ladder', 'enc': enc, 'layout': layout, 'size': size}
    res.evaluations += 1
    res.states += 1
    res.planned += 1
    res.traces += 1
    res.nontrivial += 1
    if layout == 'flat':
        text = ladder_text(enc, n)
        rows = None
        x = L.as_encoded_array(text, L.enc[enc])
        exp = ('flat', M.reverse_complement(text))
    else:
        lens = [(1, 2, 3, 0)[i % 4] for i in range(n)]
        text = ladder_text(enc, sum(lens))
        rows, pos = [], 0
        for l in lens:
            rows.append(text[pos:pos + l])
            pos += l
        x = L.as_encoded_array(rows, L.enc[enc])
        exp = ('rows', M.reverse_complement_rows(rows))
    res.transitions += 1
    try:
        y = L.rc(x)
        obs = observe_seq(y)
    except observe.ObserverError:
        raise
    except Exception as e:
        record_failure(res, 'revcomp-raises', case, feats, 'a result', exc_name(e) + ': ' + str(e)[:200], e)
        res.outcome('ladder:raises')
        return
    v = judge(obs, exp, 'revcomp')
    if v is not None:
        got = obs[1] if isinstance(obs, tuple) and len(obs) > 1 else obs
        want = exp[1]
        first = next((i for i, (a, b) in enumerate(zip(got, want)) if a != b), None) if hasattr(got, '__len__') else None
        record_failure(res, v[0], case, feats, {'first_difference_at': first, 'expected_there': None if first is None else want[first]},
                       {'first_difference_at': first, 'observed_there': None if first is None or first >= len(got) else got[first],
                        'lengths': [len(want), len(got) if hasattr(got, '__len__') else None]}, None)
        res.outcome('ladder:%s:%s:differs' % (layout, size))
        return
    if layout == 'flat' and enc == 'ACGT':
        # translation of N CODONS (3N letters), handed over as a one-row ASCII collection (the input form check_tr judges)
        text = ladder_text(enc, 3 * n)
        res.transitions += 1
        try:
            t = observe_seq(L.tr(L.as_encoded_array([text], L.enc['ASCII'])))
        except observe.ObserverError:
            raise
        except Exception as e:
            record_failure(res, 'translate-raises', case, feats, 'a result', exc_name(e) + ': ' + str(e)[:200], e)
            return
        want = M.translate(text)
        if not (isinstance(t, tuple) and t[0] == 'rows' and t[1] == [want]):
            got = t[1][0] if isinstance(t, tuple) and t[0] == 'rows' and len(t[1]) == 1 else t
            first = next((i for i, (a, b) in enumerate(zip(got, want)) if a != b), None) if isinstance(got, str) else None
            record_failure(res, 'translate-differs-from-genetic-code', case, dict(feats, op='ladder-translate'),
                           {'first_difference_at': first}, {'first_difference_at': first, 'lengths': [len(want), len(got) if isinstance(got, str) else None]}, None)
            res.outcome('ladder:translate:differs')
            return
    res.outcome('ladder:%s:%s:ok' % (layout, size))


SECTIONS = {'flat': cases_flat, 'ragged': cases_ragged, 'profiles': cases_profiles, 'st_small': cases_st_small,
            'st_sets': cases_st_sets, 'tr_single': cases_tr_single, 'tr_batch': cases_tr_batch, 'ladder': cases_ladder}


# ---------------------------------------------------------------------------- bounds and shards
def bounds(tier, seed):
    if tier == 'quick':
        ext_letter = L10[seed % 10]
        ext_first = seed % len(STRANDED6)
        return {
            'flat': {'alphabet': L10, 'max_len': 4, 'strings': M.count_strings_up_to(10, 4),
                     'forms': 'str, 1-D ASCII, 1-D ACGTN, 1-D ACGT (N-free strings)'},
            'ragged': {'rows': '1..3', 'max_total_letters': 3, 'lists': M.count_row_lists(10, 3, 3),
                       'forms': 'total letters <= 2: list, ragged, view-tail, view-rowrev, SequenceEntry (ASCII); ragged + 2 '
                                'views (ACGTN, ACGT); 2-D matrix when row lengths are equal.  total letters = 3: contiguous '
                                'ragged array in each encoding'},
            'profiles': {'rows': '0..3', 'row_lengths': list(PROFILE_LENGTHS['quick']), 'fills': list(FILLS)},
            'st_small': {'references': 'every reference over the 10 letters of length 1..2; every reference over ACGTN of length 3',
                         'interval_lists': 'every single stranded interval; the list of all stranded intervals'},
            'st_sets': {'references': {'gss': GSS_REFS, 'gs_dict': GS_DICT_REFS, 'gs_fasta': GS_FASTA_REFS},
                        'stranded_intervals': len(STRANDED6), 'max_list_length': 2,
                        'lists': 1 + 56 + 56 * 56},
            'tr_single': {'codon_spellings': 512, 'max_codons': 2, 'cases_of_pairs': 'upper, lower, mixed'},
            'tr_batch': {'rows': '2..3', 'max_total_codons': 2},
            'core': 'everything above, always complete',
            'extension_slice': {'flat': 'all strings of length 5 starting with %r' % ext_letter,
                                'st_sets': 'all interval triples whose first interval is #%d %r (get_strand_specific_sequences)'
                                           % (ext_first, list(STRANDED6[ext_first]))},
        }
    return {
        'flat': {'alphabet': L10, 'max_len': 6, 'strings': M.count_strings_up_to(10, 6),
                 'forms': 'str (length <= 5), 1-D ASCII, 1-D ACGTN, 1-D ACGT (N-free strings)'},
        'ragged': {'rows': '1..3', 'max_total_letters': 4, 'lists': M.count_row_lists(10, 3, 4),
                   'forms': 'total letters <= 3: list, ragged, view-tail, view-rowrev, SequenceEntry (ASCII); ragged + 2 '
                            'views (ACGTN, ACGT); 2-D matrix when row lengths are equal.  total letters = 4: contiguous '
                            'ragged array in each encoding'},
        'profiles': {'rows': '0..4', 'row_lengths': list(PROFILE_LENGTHS['thorough']), 'fills': list(FILLS)},
        'st_small': {'references': 'every reference over the 10 letters of length 1..3; every reference over ACGTN of length 4',
                     'interval_lists': 'every single stranded interval; the list of all stranded intervals'},
        'st_sets': {'references': {'gss': GSS_REFS, 'gs_dict': GS_DICT_REFS, 'gs_fasta': GS_FASTA_REFS},
                    'stranded_intervals': len(STRANDED6), 'max_list_length': 3,
                    'lists': 1 + 56 + 56 ** 2 + 56 ** 3,
                    'note': 'triples: ordered for get_strand_specific_sequences (4 references); every multiset of three for '
                            'the GenomicSequence backends (first reference)'},
        'tr_single': {'codon_spellings': 512, 'max_codons': 3, 'cases_of_pairs': 'upper, lower, mixed', 'triples': 64 ** 3},
        'tr_batch': {'rows': '2..3', 'max_total_codons': 2, 'plus': 'every codon triple split over two rows as 1+2 and 2+1'},
    }


def _profiles(max_rows, total, min_rows=1):
    out = []
    for r in range(min_rows, max_rows + 1):
        out.extend(list(p) for p in M.length_profiles(r, total))
    return out


def units(tier, seed):
    """fine-grained work units (each a complete sub-space); shards() packs them into few equal-cost shards"""
    out = []

    def add(sec, **kw):
        d = {'sec': sec, 'tier': tier, 'seed': seed}
        d.update(kw)
        out.append(d)

    quick = tier == 'quick'
    # ---- flat
    add('flat', lengths=[0, 1, 2, 3], prefix='')
    for a in L10:
        add('flat', lengths=[4], prefix=a)
    if quick:
        a = L10[seed % 10]
        for b in L10:
            add('flat', lengths=[5], prefix=a + b)
    else:
        for a in L10:
            add('flat', lengths=[5], prefix=a)
        for a in L10:
            for b in L10:
                add('flat', lengths=[6], prefix=a + b)
    # ---- ragged
    add('ragged', profiles=_profiles(3, 0) + _profiles(3, 1) + _profiles(3, 2), prefix='', forms='all')
    if quick:
        for p in _profiles(3, 3):
            add('ragged', profiles=[p], prefix='', forms='base')
    else:
        for p in _profiles(3, 3):
            for a in L10:
                add('ragged', profiles=[p], prefix=a, forms='all')
        for p in _profiles(3, 4):
            for a in L10:
                add('ragged', profiles=[p], prefix=a, forms='base')
    # ---- profiles
    if quick:
        for r in (0, 1, 2):
            add('profiles', n_rows=r, first=None)
        for l in PROFILE_LENGTHS['quick']:
            add('profiles', n_rows=3, first=l)
    else:
        for r in (0, 1, 2, 3):
            add('profiles', n_rows=r, first=None)
        for l in PROFILE_LENGTHS['thorough']:
            add('profiles', n_rows=4, first=l)
    # ---- stranded, short references
    add('st_small', ref_len=1, alphabet='full', prefix='')
    for a in L10:
        add('st_small', ref_len=2, alphabet='full', prefix=a)
    if quick:
        for a in L5:
            add('st_small', ref_len=3, alphabet='upper', prefix=a)
    else:
        for a in L10:
            for b in L10:
                add('st_small', ref_len=3, alphabet='full', prefix=a + b)
        for a in L5:
            for b in L5:
                add('st_small', ref_len=4, alphabet='upper', prefix=a + b)
    # ---- stranded, interval lists on the fixed references
    for i in range(len(STRANDED6)):
        add('st_sets', first=i, part='short', apis='all')
    add('st_sets', first=None, part='short', apis='all')
    if quick:
        i = seed % len(STRANDED6)
        for m in range(4):
            add('st_sets', first=i, part=['triples', m, 4], apis='gss')
    else:
        for i in range(len(STRANDED6)):
            for m in range(2):
                add('st_sets', first=i, part=['triples', m, 2], apis='all')
    # ---- translation
    add('tr_single', n_codons=1)
    for g in range(0, 64, 8):
        add('tr_single', n_codons=2, firsts=list(range(g, g + 8)))
    batch_profiles = [p for r in (2, 3) for t in (0, 1, 2) for p in (list(q) for q in M.length_profiles(r, t))]
    for g in range(0, 64, 4):
        add('tr_batch', profiles=batch_profiles, firsts=list(range(g, g + 4)))
    sizes = ladder_sizes(tier)
    for i in range(0, len(sizes), 3):
        add('ladder', sizes=sizes[i:i + 3])
    if not quick:
        for i in range(64):
            add('tr_single', n_codons=3, firsts=[i])
        big = [[1, 2], [2, 1]]
        for i in range(64):
            add('tr_batch', profiles=big, firsts=[i])
    return out


def unit_cost(d):
    """rough cost estimate of a unit in milliseconds of CPU (only used to balance the shards)"""
    sec = d['sec']
    if sec == 'flat':
        n = sum(10 ** (L - len(d['prefix'])) for L in d['lengths'] if L >= len(d['prefix']))
        return n * (3.7 if max(d['lengths']) <= 5 else 2.7) * 0.3
    if sec == 'ragged':
        n = sum(10 ** (sum(p) - len(d['prefix'])) for p in d['profiles'] if sum(p) >= len(d['prefix']))
        return n * (9.5 * 1.4 if d['forms'] == 'all' else 2.4 * 1.0)
    if sec == 'profiles':
        k = len(PROFILE_LENGTHS[d['tier']])
        n = k ** d['n_rows'] if d['first'] is None else k ** (d['n_rows'] - 1)
        return n * 3 * 11 * 1.45
    if sec == 'st_small':
        a = 10 if d['alphabet'] == 'full' else 5
        rest = d['ref_len'] - len(d['prefix'])
        refs = a ** rest
        upper_refs = 5 ** rest if (d['prefix'].isupper() or not d['prefix']) else 0
        ivs = (d['ref_len'] + 1) * (d['ref_len'] + 2)
        return refs * (ivs + 1) * 2.8 * 1.3 + upper_refs * ivs * 4.5
    if sec == 'st_sets':
        n = len(STRANDED6)
        if d['first'] is None:
            return 40.0
        if d['part'] == 'short':
            return (n + 1) * (8 * 1.3 + 4 * 4.5)
        m, of = d['part'][1], d['part'][2]
        js = [j for j in range(n) if j % of == m]
        cost = len(js) * n * 4 * 1.3
        if d['apis'] == 'all':
            cost += sum(n - j for j in js if j >= d['first']) * 2 * 4.5
        return cost
    if sec == 'ladder':
        return sum(d['sizes']) * 0.012 + 5
    if sec == 'tr_single':
        k = d['n_codons']
        if k == 1:
            return 3600 * 0.55
        if k == 2:
            return len(d['firsts']) * 64 * 13 * 0.55
        return len(d['firsts']) * 64 ** (k - 1) * 2 * 0.55
    if sec == 'tr_batch':
        per_first = sum(64 ** (sum(p) - 1) * (4 if sum(p) <= 2 else 1) for p in d['profiles'] if sum(p) >= 1)
        return len(d['firsts']) * per_first * 0.64
    raise ValueError(sec)


N_SHARDS = {'quick': 32, 'thorough': 48}


def shards(tier, seed):
    """Pack the units into N_SHARDS[tier] shards of (estimated) equal cost: longest unit first, always into the
    currently lightest shard.  Deliberately few shards: the pool retires a worker after 40 tasks."""
    us = units(tier, seed)
    order = sorted(range(len(us)), key=lambda i: (-unit_cost(us[i]), i))
    n = N_SHARDS[tier]
    bins = [{'tier': tier, 'seed': seed, 'shard': b, 'est_ms': 0.0, 'units': []} for b in range(n)]
    for i in order:
        b = min(bins, key=lambda x: (x['est_ms'], x['shard']))
        b['units'].append(us[i])
        b['est_ms'] += unit_cost(us[i])
    for b in bins:
        # inside a shard: cheap units first, so that every section contributes early
        b['units'].sort(key=lambda d: (unit_cost(d), d['sec']))
        b['est_ms'] = round(b['est_ms'])
    if seed:
        k = seed % n
        bins = bins[k:] + bins[:k]
    return bins


def run_shard(desc, deadline):
    res = Result()
    M.cross_check_with_biopython(2)          # model tables vs Biopython; AssertionError = harness error
    ctx = Ctx()
    try:
        for unit in desc['units']:
            for i, case in enumerate(SECTIONS[unit['sec']](unit)):
                if i % 32 == 0 and deadline.expired():
                    res.capped = True
                    break
                check_case(res, case, ctx)
            if res.capped:
                break
    finally:
        ctx.close()
    return res


def replay_case(case):
    res = Result()
    ctx = Ctx()
    try:
        check_case(res, case, ctx)
    finally:
        ctx.close()
    return [{'kind': g['kind'], 'features': g['features'], 'observed': g['exemplars'][0]['observed'],
             'expected': g['exemplars'][0]['expected'], 'traceback': g['exemplars'][0]['traceback']}
            for g in res.fail_groups.values()]


# ---------------------------------------------------------------------------- stand-alone reproduction
_ENC_EXPR = {'ASCII': 'bnp.encodings.BaseEncoding', 'ACGT': 'bnp.DNAEncoding', 'ACGTN': 'bnp.encodings.ACGTnEncoding'}


def repro_py(case):
    head = 'import numpy as np, bionumpy as bnp\nfrom bionumpy.encoded_array import as_encoded_array\n'
    if case['op'] == 'rc':
        enc = _ENC_EXPR[case['enc']]
        form = case['form']
        if form == 'str':
            x = repr(case['seq'])
        elif form == 'flat':
            x = 'as_encoded_array(%r, %s)' % (case['seq'], enc)
        elif form == 'list':
            x = repr(case['rows'])
        elif form == 'ragged':
            x = 'as_encoded_array(%r, %s)' % (case['rows'], enc)
        elif form == 'view-tail':
            x = 'as_encoded_array(%r, %s)[1:]' % ([VIEW_SENTINEL] + case['rows'], enc)
        elif form == 'view-rowrev':
            x = 'as_encoded_array(%r, %s)[::-1]' % (case['rows'][::-1], enc)
        elif form == 'matrix':
            x = 'as_encoded_array(%r, %s).reshape(%d, %d)' % (''.join(case['rows']), enc, len(case['rows']),
                                                            len(case['rows'][0]))
        else:
            x = 'bnp.datatypes.SequenceEntry(%r, %r)' % (['s%d' % i for i in range(len(case['rows']))], case['rows'])
        exp = M.reverse_complement(case['seq']) if 'seq' in case else M.reverse_complement_rows(case['rows'])
        return head + ('x = %s\ny = bnp.sequence.get_reverse_complement(x)\nprint(repr(y))\n'
                       '# expected (case-insensitively): %r ; and get_reverse_complement(y) == x\n' % (x, exp))
    if case['op'] == 'st':
        ivs = case['intervals']
        n = len(ivs)
        starts, stops, strands = [i[0] for i in ivs], [i[1] for i in ivs], [i[2] for i in ivs]
        exp = M.stranded_extract(case['ref'], [tuple(i) for i in ivs])
        arr = 'np.array(%r, dtype=int)'
        if case['api'] == 'gss':
            if case['table'] == 'Bed6':
                t = 'bnp.datatypes.Bed6(%r, %s, %s, %r, np.zeros(%d, dtype=int), %r)' % (
                    ['c2'] * n, arr % starts, arr % stops, ['.'] * n, n, strands)
            else:
                t = 'bnp.datatypes.StrandedInterval(%r, %s, %s, %r)' % (['c2'] * n, arr % starts, arr % stops, strands)
            return head + ('ref = as_encoded_array(%r, %s)\nintervals = %s\n'
                           'print(repr(bnp.sequence.get_strand_specific_sequences(ref, intervals)))\n# expected: %r\n'
                           % (case['ref'], _ENC_EXPR[case['enc']], t, exp))
        body = ('from bionumpy.genomic_data import GenomicIntervals, GenomicSequence\n'
                'from bionumpy.genomic_data.genome_context import GenomeContext\n'
                'gc = GenomeContext.from_dict({"c1": %d, "c2": %d})\n'
                'gi = GenomicIntervals.from_fields(gc, %r, %s, %s, %r)\n'
                % (len(PAD_CONTIG), len(case['ref']), ['c2'] * n, arr % starts, arr % stops, strands))
        if case['api'] == 'gs_dict':
            body += 'gs = GenomicSequence.from_dict({"c1": %r, "c2": %r})\n' % (PAD_CONTIG, case['ref'])
        else:
            fa = ''.join('>%s\n%s' % (nm, ''.join(sq[i:i + FASTA_WIDTH] + '\n' for i in range(0, len(sq), FASTA_WIDTH)))
                         for nm, sq in (('c1', PAD_CONTIG), ('c2', case['ref'])))
            body += ('import tempfile, os\nd = tempfile.mkdtemp(dir="/dev/shm"); p = os.path.join(d, "g.fa")\n'
                     'open(p, "w").write(%r)\ngs = GenomicSequence.from_indexed_fasta(bnp.open_indexed(p))\n' % fa)
        return head + body + 'print(repr(gs[gi]))\n# expected: %r\n' % (exp,)
    rows = case['rows']
    form = case['form']
    if form == 'list':
        x = repr(rows)
    elif form.startswith('ragged-'):
        x = 'as_encoded_array(%r, %s)' % (rows, _ENC_EXPR[form.split('-')[1]])
    elif form == 'dataclass':
        x = 'bnp.datatypes.SequenceEntry(%r, %r)' % (['s%d' % i for i in range(len(rows))], rows)
    elif form == 'flat-str':
        x = repr(rows[0])
    else:
        x = 'as_encoded_array(%r)' % rows[0]
    return head + ('x = %s\nprint(repr(bnp.sequence.translate_dna_to_protein(x)))\n# expected: %r\n'
                   % (x, M.translate_rows(rows)))
