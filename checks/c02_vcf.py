"""C02 part: VCF typed INFO / genotype matrices, and reader *histories*.

Parsing should be a function of the bytes, but the VCF buffers build their
entry classes lazily into class-level caches.  So reads are explored as
histories: every sequence (length <= L) of reads (header h, buffer type b,
mode m) executed in ONE process, each step compared with the constructive
expectation for that buffer type (= what the same read must give as the first
operation of a fresh process).  Header texts carry a per-history tag so that
histories do not interfere with each other inside a long-lived worker.
"""
import dataclasses
import itertools

import numpy as np

from engine import observe
from engine.result import tb_string
from .common import make_reader, exc_name

INFO_A = [('DP', 'Integer', '1'), ('AF', 'Float', 'A'), ('DB', 'Flag', '0'), ('ST', 'String', '1'), ('AC', 'Integer', '.')]
INFO_B = [('AC', 'Integer', '.'), ('DP', 'Float', '1'), ('ST', 'String', '1'), ('DB', 'Flag', '0'), ('AF', 'Float', 'A')]
# C: the same INFO ids in the same order as A, but DP declared as String (a cache keyed by the ids alone confuses them)
INFO_C = [('DP', 'String', '1'), ('AF', 'Float', 'A'), ('DB', 'Flag', '0'), ('ST', 'String', '1'), ('AC', 'Integer', '.')]
INFO_SETS = {'A': INFO_A, 'B': INFO_B, 'C': INFO_C}
HEADERS = ['none', 'meta', 'A', 'B', 'C']
BUFFERS = ['VCFBuffer', 'VCFWithInfoAsStringBuffer', 'VCFBuffer2', 'VCFMatrixBuffer', 'PhasedVCFMatrixBuffer',
           'PhasedHaplotypeVCFMatrixBuffer']
FIXED = ['chromosome', 'position', 'id', 'ref_seq', 'alt_seq', 'quality', 'filter']

# record menu: (chrom, pos, id, ref, alt, qual, filter, info items, genotypes)
RECORDS = [
    ('chr1', '10', '.', 'A', 'T', '.', 'PASS', [('DP', '5'), ('AF', '0.5'), ('DB', None), ('ST', 'x'), ('AC', '1,2')], ('0|1', '1|1')),
    ('chr1', '2000', 'rs12', 'AC', 'T,G', '30', '.', [('AF', '0.25,0.75'), ('AC', '7')], ('1|0', '0|0')),
    ('c', '7', 'x', 'G', 'GTT', '9.5', 'q10', [('DP', '12'), ('ST', 'hello')], ('0|0', '1|0')),
    ('chr10', '123456', '.', 'N', 'A', '.', 'PASS', [('DB', None)], ('1|1', '0|1')),
]
UNPHASED_GT = [('0/1', './.'), ('1/1', '0|0'), ('./.', '2/1'), ('0|2', '1/0')]


def header_text(h, tag, samples=True):
    if h == 'none':
        return b''
    lines = ['##fileformat=VCFv4.2', '##hist=%s' % tag]
    if h in INFO_SETS:
        for k, t, n in INFO_SETS[h]:
            lines.append('##INFO=<ID=%s,Number=%s,Type=%s,Description="d">' % (k, n, t))
        lines.append('##FORMAT=<ID=GT,Number=1,Type=String,Description="Genotype">')
    cols = '#CHROM\tPOS\tID\tREF\tALT\tQUAL\tFILTER\tINFO'
    if samples:
        cols += '\tFORMAT\ts1\ts2'
    lines.append(cols)
    return ('\n'.join(lines) + '\n').encode()


def info_text(items):
    if not items:
        return '.'
    return ';'.join(k if v is None else '%s=%s' % (k, v) for k, v in items)


def body(rec_ids, phased=True, gt_suffix=''):
    lines = []
    for r in rec_ids:
        rec = RECORDS[r]
        gts = rec[8] if phased else UNPHASED_GT[r]
        if gt_suffix == 'mixed':
            # FORMAT GT:DP:GQ where one sample carries all sub-fields and the other has dropped the trailing ones (valid VCF):
            # a sample field without ':' next to one of nine characters; which sample is the bare one alternates by record
            samples = [g + ':12:99' if (i + r) % 2 == 0 else g for i, g in enumerate(gts)]
            lines.append('\t'.join(list(rec[:7]) + [info_text(rec[7]), 'GT:DP:GQ'] + samples))
            continue
        lines.append('\t'.join(list(rec[:7]) + [info_text(rec[7]), 'GT' + (':DP' if gt_suffix else '')] +
                               [g + gt_suffix for g in gts]))
    return ('\n'.join(lines) + '\n').encode()


def typed_value(decl_type, number, text):
    if decl_type == 'Flag':
        return 1
    is_list = number in ('A', '.', 'R', 'G') or (number.isdigit() and int(number) > 1)
    if decl_type == 'Integer':
        return tuple(int(x) for x in text.split(',')) if is_list else int(text)
    if decl_type == 'Float':
        return tuple(observe.norm(float(x)) for x in text.split(',')) if is_list else observe.norm(float(text))
    return text


def expected_info(h, items):
    """-> ('str', text) or ('typed', {key: value}) for present keys; Flags always."""
    if h in ('none', 'meta'):
        return ('str', info_text(items))
    decl = {k: (t, n) for k, t, n in INFO_SETS[h]}
    out = {}
    for k, (t, n) in decl.items():
        if t == 'Flag':
            out[k] = 0
    for k, v in items:
        t, n = decl[k]
        out[k] = typed_value(t, n, v)
    return ('typed', out)


def observe_info(info_col, n, wanted=None):
    """-> list of ('str', text) | ('typed', {key: value}); only `wanted` keys are accessed (keys absent from every
    record are not touched: what an absent key reads as is not stated by the property)"""
    if dataclasses.is_dataclass(info_col):
        names = [f.name for f in dataclasses.fields(info_col) if wanted is None or f.name in wanted]
        cols = {k: observe.column(getattr(info_col, k)) for k in names}
        return [('typed', {k: observe.norm(cols[k][i]) for k in names}) for i in range(n)]
    vals = observe.column(info_col)
    return [('str', v) for v in vals]


def observe_genotypes(col, bname):
    raw = np.asarray(col.raw()) if hasattr(col, 'raw') else np.asarray(col)
    if bname == 'PhasedHaplotypeVCFMatrixBuffer':
        return [tuple(int(v) for v in row) for row in raw.tolist()]
    if bname == 'VCFBuffer2':
        return [tuple(x.decode() if isinstance(x, bytes) else x for x in row) for row in raw.tolist()]
    enc = col.encoding
    out = []
    for row in raw:
        out.append(tuple(enc.to_string(np.atleast_1d(row)).split('\t')))
    return out


def expected_genotypes(bname, rec_ids, phased):
    out = []
    for r in rec_ids:
        gts = RECORDS[r][8] if phased else UNPHASED_GT[r]
        if bname == 'PhasedHaplotypeVCFMatrixBuffer':
            out.append(tuple(int(a) for g in gts for a in (g[0], g[2])))
        else:
            out.append(tuple(gts))
    return out


def genotype_field(bname):
    return {'VCFBuffer2': 'genotype', 'VCFMatrixBuffer': 'genotypes', 'PhasedVCFMatrixBuffer': 'genotypes',
            'PhasedHaplotypeVCFMatrixBuffer': 'genotypes'}.get(bname)


def do_read(h, bname, lazy, rec_ids, tag, phased=True, gt_suffix=''):
    """one read step; returns None if OK else (kind, expected, observed, tb)"""
    from bionumpy.io import vcf_buffers
    B = getattr(vcf_buffers, bname)
    data = header_text(h, tag) + body(rec_ids, phased, gt_suffix)
    hh = h if bname != 'VCFWithInfoAsStringBuffer' else 'meta'
    exp_fixed = [tuple(observe.norm(v) for v in (RECORDS[r][0], int(RECORDS[r][1]) - 1) + RECORDS[r][2:7]) for r in rec_ids]
    exp_info = [expected_info(hh, RECORDS[r][7]) for r in rec_ids]
    gf = genotype_field(bname)
    exp_g = expected_genotypes(bname, rec_ids, phased) if gf else None
    try:
        t = make_reader(data, B, lazy).read()
        n = len(t)
        if n != len(rec_ids):
            return ('record-count', len(rec_ids), n, None)
        fixed = observe.table_rows(t, FIXED)
        if fixed != exp_fixed:
            return ('column-values', exp_fixed, fixed, None)
        info_col = t.info
        if bname == 'VCFWithInfoAsStringBuffer' and h in INFO_SETS and dataclasses.is_dataclass(info_col):
            # whether this buffer keeps INFO as text when the header declares types is not stated: judge the values
            # in whichever form they are delivered
            exp_info = [expected_info(h, RECORDS[r][7]) for r in rec_ids]
        wanted = {k for e in exp_info if e[0] == 'typed' for k in e[1]}
        info = observe_info(info_col, n, wanted)
        for e, o in zip(exp_info, info):
            if e[0] != o[0]:
                return ('info-type', exp_info, info, None)
            if e[0] == 'str':
                if e[1] != o[1]:
                    return ('info-values', exp_info, info, None)
            else:
                for k, v in e[1].items():
                    if k not in o[1] or o[1][k] != v:
                        return ('info-values', exp_info, info, None)
        if lazy and n >= 2 and info and info[0][0] == 'typed':
            # second look at the same chunk: a row slice first, then the whole table (they share one buffer)
            t2 = make_reader(data, B, True).read()
            first = observe_info(t2[:1].info, 1, set(exp_info[0][1]))     # only keys the first record has (or Flags)
            again = observe_info(t2.info, n, wanted)
            for e, o in zip(exp_info, first + again[1:]):
                for k, v in e[1].items():
                    if k not in o[1] or o[1][k] != v:
                        return ('second-look-at-the-same-chunk-differs', exp_info, {'slice': first, 'whole': again}, None)
        if gf:
            if not hasattr(t, gf):
                return ('genotype-column-missing', exp_g, [f.name for f in dataclasses.fields(t)], None)
            g = observe_genotypes(getattr(t, gf), bname)
            if g != exp_g:
                return ('genotype-values', exp_g, g, None)
    except (observe.ObserverError,):
        raise
    except Exception as e:
        return ('well-formed-file-raises', {'fixed': exp_fixed, 'info': exp_info, 'genotypes': exp_g}, repr(e)[:300], tb_string(e))
    return None


OPS = [(h, b, m) for h in HEADERS for b in BUFFERS for m in (False, True)]


def shards(tier, seed):
    L = 2 if tier == 'quick' else 3
    out = [{'part': 'vcf-single', 'tier': tier}]
    for i in range(len(OPS)):
        out.append({'part': 'vcf-hist', 'first': i, 'L': L, 'tier': tier})
    return out


_tag = [0]


def reset_module_state():
    """Every history starts from the state of a fresh process: the class-level caches of the VCF buffers are
    emptied (best effort; if a refactor renames them the runner's shard-level fresh replay still decides)."""
    from bionumpy.io import vcf_buffers
    for name in ('info_cache', 'vcfentry_cache'):
        c = getattr(vcf_buffers.VCFBuffer, name, None)
        if isinstance(c, dict):
            c.clear()


def run_history(res, hist, rec_ids=(0, 1, 2, 3)):
    """hist: list of op indices.  Fresh header tag per history."""
    _tag[0] += 1
    tag = 'h%d' % _tag[0]
    reset_module_state()
    res.evaluations += 1
    res.states += 1
    res.planned += 1
    res.traces += 1
    for step, oi in enumerate(hist):
        h, b, lazy = OPS[oi]
        phased = True
        r = do_read(h, b, lazy, rec_ids, tag, phased)
        res.transitions += 1
        if r is not None:
            kind, exp, obs, tb = r
            prior = [OPS[j] for j in hist[:step]]
            same_header_before = any(p[0] == h and p[1] != b for p in prior)
            feats = {'part': 'vcf-hist', 'step': 'first' if step == 0 else 'later', 'header': h, 'buffer': b, 'lazy': lazy,
                     'same_header_read_before_with_other_buffer': same_header_before}
            res.fail(kind, {'part': 'vcf-hist', 'hist': list(hist[:step + 1]), 'rec_ids': list(rec_ids)}, feats,
                     expected=exp, observed=obs, tb=tb)
            res.outcome('fail:' + kind)
            return False
    if len(hist) >= 2 and len({OPS[i][1] for i in hist}) > 1 and len({OPS[i][0] for i in hist}) < len(hist):
        res.nontrivial += 1      # same header seen through two different buffer classes
    res.outcome('ok:len=%d' % len(hist))
    return True


def run_single(res, deadline):
    """single reads: every subset/order of up to 3 records, unphased genotypes, GT:DP suffix"""
    for h, b, lazy in OPS:
        for n in (1, 2, 3):
            for rec_ids in itertools.permutations(range(4), n):
                if deadline.expired():
                    res.capped = True
                    return
                variants = [(True, '')]
                if b in ('VCFMatrixBuffer', 'VCFBuffer2'):
                    variants += [(False, ''), (True, ':12'), (False, ':7'), (False, 'mixed'), (True, 'mixed')]
                elif b in ('PhasedVCFMatrixBuffer', 'PhasedHaplotypeVCFMatrixBuffer'):
                    variants += [(True, ':12')]
                for phased, suffix in variants:
                    _tag[0] += 1
                    reset_module_state()
                    res.evaluations += 1
                    res.states += 1
                    res.planned += 1
                    res.traces += 1
                    res.transitions += 1
                    r = do_read(h, b, lazy, rec_ids, 's%d' % _tag[0], phased, suffix)
                    if n >= 2:
                        res.nontrivial += 1
                    if r is None:
                        res.outcome('ok:single')
                        continue
                    kind, exp, obs, tb = r
                    feats = {'part': 'vcf-single', 'header': h, 'buffer': b, 'lazy': lazy, 'phased': phased,
                             'gt_subfields': bool(suffix)}
                    res.fail(kind, {'part': 'vcf-single', 'op': [h, b, lazy], 'rec_ids': list(rec_ids), 'phased': phased,
                                    'suffix': suffix}, feats, expected=exp, observed=obs, tb=tb)
    res.sample({'vcf': (header_text('A', 'x') + body((0, 1))).decode()})


def run_shard(desc, deadline, res):
    if desc['part'] == 'vcf-single':
        run_single(res, deadline)
        return
    first, L = desc['first'], desc['L']
    run_history(res, [first])
    for rest_len in range(1, L):
        for rest in itertools.product(range(len(OPS)), repeat=rest_len):
            if deadline.expired():
                res.capped = True
                return
            run_history(res, [first] + list(rest))
    res.sample({'history': [list(OPS[first])] + [list(OPS[j]) for j in (1, 2)][:L - 1]})


def replay_case(case, res):
    if case['part'] == 'vcf-single':
        h, b, lazy = case['op']
        reset_module_state()
        r = do_read(h, b, lazy, tuple(case['rec_ids']), 'replay', case['phased'], case['suffix'])
        if r is not None:
            res.fail(r[0], case, {'part': 'vcf-single', 'header': h, 'buffer': b}, expected=r[1], observed=r[2], tb=r[3])
    else:
        run_history(res, case['hist'], tuple(case['rec_ids']))
