"""C12 — per-chromosome streaming never silently drops or misattributes entries.

Deviation-bounded histories: genome of N contigs x EVERY sequence of contig
groups (every subset of genome names + an unknown name + an ignored name, in
every order) x chunkings of the entries x every public consumer.
Oracle: data compatible with the genome (ignoring ignored groups, the names
are a subsequence of the genome order) -> the evaluation must complete and
assign every entry to its own contig; otherwise -> it must raise; completing
with entries missing or misattributed is the violation.
"""
import itertools
import os
import shutil
import tempfile

import numpy as np

from engine.result import Result, tb_string, raising_frame
from .common import exc_name

PROPERTY = 'C12'
LEVEL = 'model_checking'
RULE = ('genome of N contigs; every ordered selection of groups from genome names + {unknown} + {ignored}; 1-3 entries per '
        'group at globally unique positions; chunkings of the entry stream; every consumer; deviations = groups that are out '
        'of genome order, unknown or ignored (0, 1, 2+ reported); non-trivial = at least one deviation or a contig without data')
ASSUMPTIONS = [
    'entries of one contig are contiguous in the data (precondition of the property)',
    'every entry is a 1-base interval at a position unique over the whole dataset, so presence/attribution is decidable '
    'from masks, pileups and sums',
    'which exception class is raised is not judged',
    'ignored names are introduced with Genome.with_ignored_added (MultiStream has no notion of ignored names: there an '
    'ignored name counts as unknown)',
]
EXPLANATION = 'deviation-bounded exhaustive exploration of group orders x chunkings x consumers on the real stream synchronisers'
MANIFEST_TEXT = ('Genomes of 3 (quick) / 4 (thorough) contigs x every ordered selection of contig groups drawn from the genome '
                 'names plus one unknown and one ignored name (326 / 1957 group sequences; 0, 1, 2+ deviations from genome '
                 'order) x chunkings of the entries (every cut set for <= 5 entries, boundary cut sets above) x consumers '
                 '{compute(get_mask().get_data()), compute(get_pileup().sum()), compute(get_pileup().get_data()), '
                 'get_track(stream) data and sum, read_intervals(stream=True) from a scratch file, MultiStream attribute zipped '
                 'with names (contig column as string array, as a ragged text field and genome-encoded; names plain, with "_" and prefix-nested chr1/chr10/chr100), jaccard/forbes with the disorder in either argument (also genome-encoded), left_join of grouped streams, '
                 'iter_chromosomes pulled exactly N and N+1 times}: compatible data must complete with every entry under its '
                 'own contig; incompatible data must raise, never complete with entries missing.')
MANIFEST_NOTE = 'Trusted: NumPy, the dense position model in this file. Group sizes 1-2; one unknown and one ignored name.'
TECHNIQUE = 'deviation-bounded exhaustive enumeration of group orders, chunkings and consumers against a dense reference model'

UNKNOWN, IGNORED = 'chrX', 'chrIgn'


NAMING = {'plain': lambda i: 'chr%d' % (i + 1),
          # a contig name containing '_' in a genome built with the keep-all filter (Genome.from_dict default)
          'underscore': lambda i: 'chr%d_alt' % (i + 1) if i == 1 else 'chr%d' % (i + 1),
          # every name is a proper prefix of the next one (chr1, chr10, chr100, ...): lexicographically sorted data
          'prefix': lambda i: 'chr1' + '0' * i}
_naming = ['plain']


def genome_names(n):
    return [NAMING[_naming[0]](i) for i in range(n)]


def bounds(tier, seed):
    return {'n_contigs': 3 if tier == 'quick' else 4, 'group_sizes': [1, 2, 3], 'consumers': list(CONSUMERS)}


def group_sequences(n):
    pool = genome_names(n) + [UNKNOWN, IGNORED]
    for k in range(0, len(pool) + 1):
        for seq in itertools.permutations(pool, k):
            yield list(seq)


def classify(seq, names, has_ignore=True):
    """-> (compatible, deviations)"""
    eff = [g for g in seq if not (has_ignore and g == IGNORED)]
    dev = sum(1 for g in seq if g == IGNORED)
    compatible = True
    last = -1
    for g in eff:
        if g not in names:
            compatible = False
            dev += 1
            continue
        i = names.index(g)
        if i < last:
            compatible = False
            dev += 1
        last = max(last, i)
    return compatible, dev


def entries_for(seq, size_mode):
    """-> list of (contig, position); positions unique"""
    out = []
    pos = 1
    for gi, g in enumerate(seq):
        k = 1 if size_mode == 1 else (3 if size_mode == 3 else (2 if gi % 2 == 0 else 1))
        for _ in range(k):
            out.append((g, pos))
            pos += 1
    return out


def chunkings(n, tier):
    if n == 0:
        return [()]
    if n <= 5:
        outs = []
        for cuts in itertools.product((0, 1), repeat=n - 1):
            outs.append(tuple(i + 1 for i, c in enumerate(cuts) if c))
        return outs
    return [(), tuple(range(1, n)), (1,), (n - 1,), tuple(range(2, n, 2))]


def make_chunks(entries, cuts, with_value=False):
    from bionumpy.datatypes import Interval, BedGraph
    bounds_ = [0] + list(cuts) + [len(entries)]
    chunks = []
    for a, b in zip(bounds_[:-1], bounds_[1:]):
        part = entries[a:b]
        if not part:
            continue
        if with_value:
            chunks.append(BedGraph([e[0] for e in part], [e[1] for e in part], [e[1] + 1 for e in part], [1] * len(part)))
        else:
            chunks.append(Interval([e[0] for e in part], [e[1] for e in part], [e[2] if len(e) > 2 else e[1] + 1 for e in part]))
    return chunks


def make_stream(entries, cuts, with_value=False):
    from bionumpy.streams import NpDataclassStream
    from bionumpy.datatypes import Interval, BedGraph
    return NpDataclassStream(iter(make_chunks(entries, cuts, with_value)), dataclass=BedGraph if with_value else Interval)


def make_encoded_stream(names, size, entries, cuts):
    """the same chunks with the contig column ENCODED against the genome (what Genome.get_intervals(...).get_data() hands
    out): a single EncodedArray of contig codes instead of text names.  None when a name is not in the genome."""
    import bionumpy as bnp
    from bionumpy.streams import NpDataclassStream
    if any(e[0] not in names for e in entries):
        return None
    g = bnp.Genome.from_dict({n: size for n in names})
    chunks = [g.get_intervals(c).get_data() for c in make_chunks(entries, cuts)]
    return NpDataclassStream(iter(chunks), dataclass=type(chunks[0]) if chunks else bnp.datatypes.Interval)


_RAGGED_CLS = []


def make_ragged_stream(entries, cuts):
    """the same chunks with the contig column declared `str`: a ragged array of characters (the column type of tables
    with a text field, e.g. BAM-derived Bed6), not a string array"""
    from bionumpy.bnpdataclass import bnpdataclass
    from bionumpy.streams import NpDataclassStream
    if not _RAGGED_CLS:
        @bnpdataclass
        class TextInterval:
            chromosome: str
            start: int
            stop: int
        _RAGGED_CLS.append(TextInterval)
    cls = _RAGGED_CLS[0]
    chunks = [cls(list(c.chromosome.tolist()), c.start, c.stop) for c in make_chunks(entries, cuts)]
    return NpDataclassStream(iter(chunks), dataclass=cls)


def make_genome(names, size, with_ignored, use_parent=False):
    import bionumpy as bnp
    g = bnp.Genome.from_dict({n: size for n in names})
    if use_parent:
        # a genome from which a more permissive one was derived must itself stay strict (the derived object is
        # discarded; state shared between the two genome contexts would show here)
        g.with_ignored_added([IGNORED])
        return g
    if with_ignored:
        g = g.with_ignored_added([IGNORED])
    return g


def positions_from_table(t, value_field=None):
    """table with chromosome/start/stop(/value) -> dict contig -> set of covered positions (value != 0)"""
    from engine import observe
    chroms = observe.column(t.chromosome)
    starts = observe.column(t.start)
    stops = observe.column(t.stop)
    vals = observe.column(getattr(t, value_field)) if value_field else [1] * len(chroms)
    out = {}
    for c, a, b, v in zip(chroms, starts, stops, vals):
        if v:
            out.setdefault(c, set()).update(range(a, b))
        else:
            out.setdefault(c, set())
    return out


# ---------------------------------------------------------------- consumers: return ('positions', dict) | ('count', n) | ('value', x)
def c_mask_data(names, size, entries, cuts, ign, scratch):
    import bionumpy as bnp
    g = make_genome(names, size, ign)
    r = bnp.compute(g.get_intervals(make_stream(entries, cuts)).get_mask().get_data())
    return ('positions', positions_from_table(r, 'value') if hasattr(r, 'value') else positions_from_table(r))


def c_mask_data_parent(names, size, entries, cuts, ign, scratch):
    import bionumpy as bnp
    g = make_genome(names, size, False, use_parent=True)
    r = bnp.compute(g.get_intervals(make_stream(entries, cuts)).get_mask().get_data())
    return ('positions', positions_from_table(r, 'value') if hasattr(r, 'value') else positions_from_table(r))


def c_pileup_sum_parent(names, size, entries, cuts, ign, scratch):
    import bionumpy as bnp
    g = make_genome(names, size, False, use_parent=True)
    return ('count', int(bnp.compute(g.get_intervals(make_stream(entries, cuts)).get_pileup().sum())))


def c_pileup_sum(names, size, entries, cuts, ign, scratch):
    import bionumpy as bnp
    g = make_genome(names, size, ign)
    return ('count', int(bnp.compute(g.get_intervals(make_stream(entries, cuts)).get_pileup().sum())))


def c_pileup_data(names, size, entries, cuts, ign, scratch):
    import bionumpy as bnp
    g = make_genome(names, size, ign)
    r = bnp.compute(g.get_intervals(make_stream(entries, cuts)).get_pileup().get_data())
    return ('positions', positions_from_table(r, 'value'))


def c_track_sum(names, size, entries, cuts, ign, scratch):
    import bionumpy as bnp
    g = make_genome(names, size, ign)
    return ('count', int(bnp.compute(g.get_track(make_stream(entries, cuts, True)).sum())))


def c_track_data(names, size, entries, cuts, ign, scratch):
    import bionumpy as bnp
    g = make_genome(names, size, ign)
    r = bnp.compute(g.get_track(make_stream(entries, cuts, True)).get_data())
    return ('positions', positions_from_table(r, 'value'))


def c_read_intervals_file(names, size, entries, cuts, ign, scratch):
    import bionumpy as bnp
    if cuts != ():
        return None        # the file path has its own (single) chunking
    if not entries:
        return None
    path = os.path.join(scratch, 'x.bed')
    with open(path, 'w') as f:
        for c, p in entries:
            f.write('%s\t%d\t%d\n' % (c, p, p + 1))
    g = make_genome(names, size, ign)
    r = bnp.compute(g.read_intervals(path, stream=True).get_mask().get_data())
    return ('positions', positions_from_table(r, 'value') if hasattr(r, 'value') else positions_from_table(r))


def c_iter_chromosomes_n(names, size, entries, cuts, ign, scratch, extra=0):
    from bionumpy.datatypes import Interval
    from engine import observe
    g = make_genome(names, size, ign)
    ctx = g.get_genome_context()
    it = ctx.iter_chromosomes(make_stream(entries, cuts), Interval)
    groups = list(itertools.islice(it, len(names) + extra))
    out = {}
    for n, grp in zip(names, groups):
        out[n] = set()
        if len(grp):
            cs = observe.column(grp.chromosome)
            st = observe.column(grp.start)
            for c, s in zip(cs, st):
                # entries delivered under contig n but carrying another name are misattributed
                out.setdefault(n, set()).add(s if str(c) == n else ('misattributed', str(c), s))
    if len(groups) < len(names):
        return ('positions', {'<fewer groups than contigs>': set()})
    return ('positions', out)


def c_iter_chromosomes_n1(names, size, entries, cuts, ign, scratch):
    return c_iter_chromosomes_n(names, size, entries, cuts, ign, scratch, extra=1)


def c_multistream_zip(names, size, entries, cuts, ign, scratch):
    from bionumpy.streams import MultiStream
    from engine import observe
    ms = MultiStream({n: size for n in names}, a=make_stream(entries, cuts))
    out = {}
    for n, grp in zip(ms.sequence_names, ms.a):
        out[n] = set()
        if len(grp):
            for c, s in zip(observe.column(grp.chromosome), observe.column(grp.start)):
                out[n].add(s if str(c) == n else ('misattributed', str(c), s))
    return ('positions', out)


def c_multistream_zip_rev(names, size, entries, cuts, ign, scratch):
    from bionumpy.streams import MultiStream
    from engine import observe
    ms = MultiStream({n: size for n in names}, a=make_stream(entries, cuts))
    out = {}
    for grp, n in zip(ms.a, ms.sequence_names):
        out[n] = set()
        if len(grp):
            for c, s in zip(observe.column(grp.chromosome), observe.column(grp.start)):
                out[n].add(s if str(c) == n else ('misattributed', str(c), s))
    return ('positions', out)


def c_multistream_zip_encoded(names, size, entries, cuts, ign, scratch):
    from bionumpy.streams import MultiStream
    from engine import observe
    stream = make_encoded_stream(names, size, entries, cuts)
    if stream is None or not entries:
        return None
    ms = MultiStream({n: size for n in names}, a=stream)
    out = {}
    for n, grp in zip(ms.sequence_names, ms.a):
        out[n] = set()
        if len(grp):
            for c, s in zip(chrom_text(grp.chromosome), observe.column(grp.start)):
                out[n].add(s if str(c) == n else ('misattributed', str(c), s))
    return ('positions', out)


def c_multistream_zip_ragged(names, size, entries, cuts, ign, scratch):
    from bionumpy.streams import MultiStream
    from engine import observe
    if not entries:
        return None
    ms = MultiStream({n: size for n in names}, a=make_ragged_stream(entries, cuts))
    out = {}
    for n, grp in zip(ms.sequence_names, ms.a):
        out[n] = set()
        if len(grp):
            for c, s in zip(chrom_text(grp.chromosome), observe.column(grp.start)):
                out[n].add(s if str(c) == n else ('misattributed', str(c), s))
    return ('positions', out)


def c_jaccard_first_encoded(names, size, entries, cuts, ign, scratch):
    from bionumpy.arithmetics import jaccard
    stream = make_encoded_stream(names, size, entries, cuts)
    other = make_encoded_stream(names, size, _other(names, size), ())
    if stream is None or not entries:
        return None
    return ('jaccard', float(jaccard({n: size for n in names}, stream, other)))


def chrom_text(col):
    """contig names of a column that is text or genome-encoded"""
    from engine import observe
    enc = getattr(col, 'encoding', None)
    labels = enc.get_labels() if enc is not None and hasattr(enc, 'get_labels') else None
    if labels is not None:
        labels = list(labels)
        return [labels[int(i)] for i in np.atleast_1d(np.asarray(col.raw())).tolist()]
    return [str(x) for x in observe.column(col)]


def _other(names, size=None):
    # well-formed second dataset: the first half of every contig (so that intersection and union with the explored
    # dataset both change when one of its entries is dropped)
    return [(n, 0, max(1, (size or 2) // 2)) for n in names]


def c_jaccard_first(names, size, entries, cuts, ign, scratch):
    from bionumpy.arithmetics import jaccard
    return ('jaccard', float(jaccard({n: size for n in names}, make_stream(entries, cuts), make_stream(_other(names, size), ()))))


def c_jaccard_second(names, size, entries, cuts, ign, scratch):
    from bionumpy.arithmetics import jaccard
    return ('jaccard', float(jaccard({n: size for n in names}, make_stream(_other(names, size), ()), make_stream(entries, cuts))))


def c_forbes_second(names, size, entries, cuts, ign, scratch):
    from bionumpy.arithmetics import forbes
    return ('forbes', float(forbes({n: size for n in names}, make_stream(_other(names, size), ()), make_stream(entries, cuts))))


CONSUMERS = {
    'mask_data': (c_mask_data, True), 'pileup_sum': (c_pileup_sum, True),
    'mask_data_on_parent_of_a_derived_genome': (c_mask_data_parent, False),
    'pileup_sum_on_parent_of_a_derived_genome': (c_pileup_sum_parent, False), 'pileup_data': (c_pileup_data, True),
    'track_sum': (c_track_sum, True), 'track_data': (c_track_data, True), 'read_intervals_file': (c_read_intervals_file, True),
    'iter_chromosomes_N': (c_iter_chromosomes_n, True), 'iter_chromosomes_N+1': (c_iter_chromosomes_n1, True),
    'multistream_zip': (c_multistream_zip, False), 'multistream_zip_rev': (c_multistream_zip_rev, False),
    'jaccard_first': (c_jaccard_first, False), 'jaccard_second': (c_jaccard_second, False),
    'forbes_second': (c_forbes_second, False),
    'multistream_zip_encoded_contig_column': (c_multistream_zip_encoded, False),
    'jaccard_first_encoded_contig_column': (c_jaccard_first_encoded, False),
    'multistream_zip_text_field_contig_column': (c_multistream_zip_ragged, False),
}


def expected_for(kind, names, size, entries, has_ignore):
    eff = [(c, p) for c, p in entries if not (has_ignore and c == IGNORED)]
    if kind == 'positions':
        exp = {n: set() for n in names}
        for c, p in eff:
            exp.setdefault(c, set()).add(p)
        return exp
    if kind == 'count':
        return len(eff)
    total = size * len(names)
    A = {(c, p) for c, p in eff}
    B = {(c, q) for c, a, b in _other(names, size) for q in range(a, b)}
    inter, union = len(A & B), len(A | B)
    if kind == 'jaccard':
        return inter / union if union else float('nan')
    if kind == 'forbes':
        return (inter * total / (len(A) * len(B))) if A and B else float('nan')
    raise ValueError(kind)


def shards(tier, seed):
    n = bounds(tier, seed)['n_contigs']
    names = genome_names(n)
    seqs = list(group_sequences(n))
    out = []
    per = 24 if tier == 'quick' else 64
    for i in range(0, len(seqs), per):
        out.append({'n': n, 'seqs': seqs[i:i + per], 'tier': tier, 'naming': 'plain'})
    # '_' names: only group sequences without unknown/ignored names (the naming dimension is about chromosome_order)
    _naming[0] = 'underscore'
    us = [q for q in group_sequences(n) if UNKNOWN not in q and IGNORED not in q]
    for i in range(0, len(us), per):
        out.append({'n': n, 'seqs': us[i:i + per], 'tier': tier, 'naming': 'underscore'})
    _naming[0] = 'prefix'
    ps = [q for q in group_sequences(n) if UNKNOWN not in q and IGNORED not in q]
    for i in range(0, len(ps), per):
        out.append({'n': n, 'seqs': ps[i:i + per], 'tier': tier, 'naming': 'prefix'})
    _naming[0] = 'plain'
    return out


def run_case(res, n, seq, size_mode, cuts, cname, scratch):
    names = genome_names(n)
    fn, has_ignore = CONSUMERS[cname]
    entries = entries_for(seq, size_mode)
    size = len(entries) + 3
    compatible, dev = classify(seq, names, has_ignore)
    ign = IGNORED in seq
    case = {'n': n, 'seq': seq, 'size_mode': size_mode, 'cuts': list(cuts), 'consumer': cname, 'naming': _naming[0]}
    last_named = [g for g in seq if g in names]
    feats = {'consumer': cname, 'compatible': compatible, 'naming': _naming[0],
             'deviation': ('none' if compatible and dev == 0 else 'ignored-only' if compatible else
                           'unknown-name' if any(g not in names and not (has_ignore and g == IGNORED) for g in seq) else 'order')}
    try:
        r = fn(names, size, entries, cuts, ign, scratch)
    except Exception as e:
        if r_is_harness(e):
            raise
        res.evaluations += 1
        res.states += 1
        res.planned += 1
        res.traces += 1
        res.transitions += 1
        if dev or len(seq) < n:
            res.nontrivial += 1
        if compatible:
            res.fail('compatible-data-raises', case, dict(feats, exc=exc_name(e)), expected='completes', observed=repr(e)[:300],
                     tb=tb_string(e))
            res.outcome('raises-on-compatible')
        else:
            res.raising += 1
            res.outcome('raises-on-incompatible')
        return
    if r is None:
        return
    res.evaluations += 1
    res.states += 1
    res.planned += 1
    res.traces += 1
    res.transitions += 1
    if dev or len(seq) < n:
        res.nontrivial += 1
    kind, obs = r
    exp = expected_for(kind, names, size, entries, has_ignore)
    ok = _equal(kind, exp, obs)
    if ok and compatible:
        res.outcome('complete-and-correct')
        return
    if ok and not compatible:
        # e.g. unknown contig delivered under its own name by a dict-valued consumer: nothing dropped; not judged
        res.outcome('incompatible-but-nothing-lost')
        res.extra['incompatible_data_completed_without_loss'] += 1
        return
    res.fail('completed-with-entries-missing-or-misattributed' if not compatible else 'compatible-data-wrong-result', case, feats,
             expected=_j(exp), observed=_j(obs))
    res.outcome('SILENT-LOSS' if not compatible else 'WRONG')


def r_is_harness(e):
    from engine import observe
    return isinstance(e, observe.ObserverError)


def _equal(kind, exp, obs):
    if kind == 'positions':
        keys = set(exp) | set(obs)
        return all(exp.get(k, set()) == obs.get(k, set()) for k in keys)
    if kind == 'count':
        return exp == obs
    if exp != exp and obs != obs:
        return True
    return abs(exp - obs) <= 1e-9 * max(1.0, abs(exp))


def _j(v):
    if isinstance(v, dict):
        return {k: sorted(map(str, s)) for k, s in v.items()}
    return v


def run_shard(desc, deadline):
    res = Result()
    n, tier = desc['n'], desc['tier']
    _naming[0] = desc.get('naming', 'plain')
    scratch = tempfile.mkdtemp(dir='/dev/shm', prefix='c12_')
    try:
        for seq in desc['seqs']:
            for size_mode in (1, 2, 3):
                if size_mode == 3 and len(seq) > 3:
                    continue         # 3 entries per group (a group spread over >= 3 chunks) for up to 3 groups
                nent = len(entries_for(seq, size_mode))
                cs = chunkings(nent, tier) if size_mode == 1 else [(), tuple(range(1, nent)), tuple(range(2, nent, 2))]
                for cuts in cs:
                    if deadline.expired():
                        res.capped = True
                        return res
                    for cname in CONSUMERS:
                        run_case(res, n, seq, size_mode, cuts, cname, scratch)
            if len(res.samples) < 2 and len(seq) >= 3:
                res.sample({'genome': genome_names(n), 'group_sequence': seq, 'entries': entries_for(seq, 1)})
    finally:
        shutil.rmtree(scratch, ignore_errors=True)
    return res


def replay_case(case):
    res = Result()
    _naming[0] = case.get('naming', 'plain')
    scratch = tempfile.mkdtemp(dir='/dev/shm', prefix='c12_')
    try:
        run_case(res, case['n'], case['seq'], case['size_mode'], tuple(case['cuts']), case['consumer'], scratch)
    finally:
        shutil.rmtree(scratch, ignore_errors=True)
    return [{'kind': g['kind'], 'features': g['features'], 'observed': g['exemplars'][0]['observed'],
             'expected': g['exemplars'][0]['expected'], 'traceback': g['exemplars'][0]['traceback']}
            for g in res.fail_groups.values()]
