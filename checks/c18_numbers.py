"""C18 -- numbers survive conversion between text and arrays.

Shape A (DESIGN 2): bounded exhaustive enumeration of a structured finite set of
integers, integer texts, integer lists, float texts and doubles, as singletons
and as batches (every ordered pair of the boundary set, every ordered triple of
a core, partner "sandwiches" for floats), against Python's own int/float/str.

Oracle clauses (the `kind` of a failure names the clause):

  int-format-exact            ints_to_strings([v]) == [str(v)]
  int-parse-exact             str_to_int([text]) == [int(text)]  (optional sign, leading zeros)
  int-format-independence     row i of ints_to_strings(batch) == ints_to_strings([batch[i]])
  int-parse-independence      row i of str_to_int(batch)      == str_to_int([batch[i]])
  int-list-join               row of int_lists_to_strings == ','.join(element texts as formatted alone)
  int-list-split              split(text) == text.split(',') and str_to_int(pieces) == the elements
  float-parse-accuracy        |str_to_float([text]) - float(text)| <= 4 ulp
  float-parse-independence    row i of str_to_float(batch) == str_to_float([batch[i]])
  float-format-independence   row i of float_to_strings(batch) == float_to_strings([batch[i]])
  float-roundtrip:*           str_to_float(float_to_strings([x])) == [x] exactly
  row-independent-of-column-length:<func>   row i of a column of N rows == the row converted alone, for every N of the
                              batch-size ladder (1..40, 2^k-1/2^k/2^k+1, 10^k-1/10^k/10^k+1) and every conversion
  file-* / matrix-*           the same conversions observed through integer / float / integer-list columns of
                              parsed and written files (BED, bedGraph, BED12) and io.matrix_dump; the written
                              text is compared with what the direct call gives for the same value (differential),
                              so that one root cause in strops gives one signature

A ":raises" suffix means the call had to succeed and raised instead.
"""
import functools
import io
import itertools
import math

import numpy as np

from engine import observe
from engine.result import Result, tb_string
from models import numbers as M
from .common import make_reader

PROPERTY = 'C18'
LEVEL = 'model_checking'
ULP_TOL = 4
N_SHARDS = 48
BLOCK = 40          # cases per block; shard i takes blocks i, i+N, i+2N, ...

RULE = ('cases are enumerated, never sampled: every value of the int64 boundary set B (0, +-(10^p+d) p=0..18 d=-2..2, '
        '+-(2^q+d), int64 extremes) alone in every spelling (sign, leading zeros); every ordered pair of B and every '
        'ordered triple of a core as one batch (format and parse); every integer list of <= 3 core values and multi-row '
        'list batches; every float text sign x mantissa(digits 1,5,9,0; point at every position) x exponent set, plus '
        '6..17-digit mantissa patterns, alone and sandwiched between decimal/scientific partners; every double of a '
        'structured set through format->parse alone and in windows of three; the same through BED / bedGraph / BED12 '
        'columns and matrix_dump. A case is non-trivial when it exercises more than one position of the power table: '
        'a singleton whose text has >= 2 characters, or a batch whose rows differ in width, sign, form or point position')
ASSUMPTIONS = [
    'all of int64 / all float texts are out of reach: a structured boundary set is enumerated completely (singletons, '
    'all ordered pairs, core triples); values far from a power of ten/two are covered only through their digit-length class',
    'reference semantics are CPython int(), str(), float() (correctly rounded) and struct for ulp distances',
    '"a few units in the last place" is taken as <= 4 ulp; only texts whose value is finite and zero-or-normal are judged; '
    'the sign of a zero result is not judged',
    'float texts use an optional leading "-" only ("+" on a float mantissa is explored but not judged: the statement does not '
    'say which signs); upper-case E, inf and nan are outside the statement',
    'batches with zero rows are not judged (no row to speak about); the independence clause is differential: '
    'a row in a batch is compared with the same row converted alone by the library',
    'file observations use BytesIO objects built by the harness and the reader/writer seam of C01',
]
EXPLANATION = ('product-space enumeration of the real conversion functions; batches are compared row by row with the '
               'same rows converted alone, singletons with Python int/float/str')
TECHNIQUE = 'bounded exhaustive enumeration of integer/float texts, values and batches against Python int/float/str'
MANIFEST_TEXT = ('Every value of a 244-element int64 boundary set (0, +-(10^p+d), +-(2^q+d), extremes) formatted and parsed '
                 'alone in every spelling, every ordered pair and every core triple as one batch (row == row alone), every '
                 'integer list of <= 3 core values joined/split, float texts sign x mantissa over {1,5,9,0} of length 1..3 '
                 '(quick) / 1..5 (thorough) with a point at every position x 9/16 exponents up to e+-300 plus 6..17 digit '
                 'mantissas (<= 4 ulp from float(text)), doubles format->parse exactly, and the same conversions through '
                 'BED / bedGraph / BED12 columns and matrix_dump. A batch-size ladder (columns of N rows for N = 1..40 and every power '
                 'of two up to 2^16 (thorough 2^20) and of ten up to 10^5 (10^6) with both neighbours) compares every row of a long '
                 'column with the same row converted alone, for every conversion function and the bedGraph value column.')
MANIFEST_NOTE = ('Trusted: CPython int/float/str, NumPy, npstructures, engine/observe.py. All int64 and all float texts are '
                 'not enumerable; the boundary set and the digit alphabets are stated in the evidence bounds.')


# ====================================================================== observations of the real code
class Raised:
    """the library raised (or returned something that is not a column of the expected shape)"""

    def __init__(self, exc):
        self.exc = exc

    def __repr__(self):
        return 'raised %s: %s' % (type(self.exc).__name__, str(self.exc)[:300])

    def tb(self):
        return tb_string(self.exc) if self.exc.__traceback__ is not None else None


_MALFORMED = getattr(observe, 'MalformedLibraryValue', ())


def _guard(fn):
    try:
        return fn()
    except observe.ObserverError:
        raise
    except Exception as e:      # raised by bionumpy (or an inconsistent library value noticed by the observer)
        return Raised(e)


def _rows_text(value, n):
    """EncodedRaggedArray -> list of n str (anything else is an observation, not a harness error)"""
    from bionumpy.encoded_array import EncodedRaggedArray
    if not isinstance(value, EncodedRaggedArray):
        return Raised(TypeError('result is a %s, not an EncodedRaggedArray' % type(value).__name__))
    rows = observe.column(value)
    if len(rows) != n:
        return Raised(ValueError('result has %d rows for %d inputs: %r' % (len(rows), n, rows[:6])))
    return rows


def _rows_num(value, n, conv):
    arr = np.asarray(value)
    if arr.shape != (n,):
        return Raised(ValueError('result has shape %r for %d inputs' % (arr.shape, n)))
    return [conv(v) for v in arr.tolist()]


def lib_fmt_ints(values):
    from bionumpy.io.strops import ints_to_strings
    arr = np.array([int(v) for v in values], dtype=np.int64)
    return _guard(lambda: _rows_text(ints_to_strings(arr), len(values)))


def lib_parse_ints(texts):
    from bionumpy.io.strops import str_to_int
    from bionumpy.encoded_array import as_encoded_array
    texts = [str(t) for t in texts]
    return _guard(lambda: _rows_num(str_to_int(as_encoded_array(texts)), len(texts), int))


def lib_fmt_floats(xs):
    from bionumpy.io.strops import float_to_strings
    arr = np.array([float(x) for x in xs], dtype=np.float64)
    return _guard(lambda: _rows_text(float_to_strings(arr), len(xs)))


def lib_parse_floats(texts):
    from bionumpy.io.strops import str_to_float
    from bionumpy.encoded_array import as_encoded_array
    texts = [str(t) for t in texts]
    return _guard(lambda: _rows_num(str_to_float(as_encoded_array(texts)), len(texts), float))


def lib_join_lists(rows):
    from bionumpy.io.strops import int_lists_to_strings
    from npstructures import RaggedArray
    flat = np.array([int(v) for r in rows for v in r], dtype=np.int64)
    lens = np.array([len(r) for r in rows], dtype=int)
    ra = RaggedArray(flat, lens)
    return _guard(lambda: _rows_text(int_lists_to_strings(ra), len(rows)))


def lib_split(text):
    from bionumpy.io.strops import split
    from bionumpy.encoded_array import EncodedArray
    from bionumpy.encodings import BaseEncoding
    arr = EncodedArray(np.frombuffer(text.encode('latin1'), dtype=np.uint8).copy(), BaseEncoding)
    n = len(text.split(','))

    def go():
        pieces = split(arr, sep=',')
        rows = _rows_text(pieces, n)
        if isinstance(rows, Raised):
            return rows, None
        return rows, pieces
    return _guard(go)


def lib_parse_pieces(pieces, n):
    from bionumpy.io.strops import str_to_int
    return _guard(lambda: _rows_num(str_to_int(pieces), n, int))


class _Sink(io.BytesIO):
    def close(self):        # the writer may close its file object; keep the bytes readable
        pass


def _buffers():
    from bionumpy.io.delimited_buffers import BedBuffer, BdgBuffer, Bed12Buffer
    return {'bed': BedBuffer, 'bdg': BdgBuffer, 'bed12': Bed12Buffer}


def lib_read_columns(fmt, data, lazy, fields):
    bt = _buffers()[fmt]

    def go():
        t = make_reader(data, bt, lazy).read()
        return [observe.column(getattr(t, f)) for f in fields]
    return _guard(go)


def lib_write(fmt, build):
    from bionumpy.io.parser import NpBufferedWriter
    bt = _buffers()[fmt]

    def go():
        sink = _Sink()
        NpBufferedWriter(sink, bt).write(build())
        return sink.getvalue().decode('latin1')
    return _guard(go)


def lib_matrix_to_csv(m):
    from bionumpy.io.matrix_dump import matrix_to_csv
    arr = np.array(m, dtype=np.int64)

    def go():
        r = matrix_to_csv(arr, sep=',')
        return bytes(np.asarray(r.raw(), dtype=np.uint8)).decode('latin1')
    return _guard(go)


def lib_parse_matrix(text, field_type, shape):
    from bionumpy.io.matrix_dump import parse_matrix

    def go():
        m = parse_matrix(text, field_type=field_type, sep='\t')
        arr = np.asarray(m.data)
        if arr.shape != tuple(shape):
            return Raised(ValueError('matrix has shape %r, expected %r' % (arr.shape, tuple(shape))))
        return [[(int(v) if field_type is int else float(v)) for v in row] for row in arr.tolist()]
    return _guard(go)


# ====================================================================== per-shard context (results of rows alone)
class Ctx:
    """Results of converting ONE row alone with the real code, computed once per shard (the functions are
    deterministic; every first computation is a real call and is counted as a transition)."""

    def __init__(self, res, sample_section=None):
        self.res = res
        self.cache = {}
        self.sample_section = sample_section      # the evidence keeps 3 samples: each shard offers one, of its own section
        self.sampled = False

    def sample(self, d):
        if not self.sampled and d['section'] == self.sample_section:
            self.sampled = True
            self.res.sample(d)

    def _get(self, key, fn):
        if key not in self.cache:
            self.cache[key] = fn()
            self.res.transitions += 1
        return self.cache[key]

    @staticmethod
    def _one(r):
        return r if isinstance(r, Raised) else r[0]

    def fmt_int(self, v):
        return self._get(('fi', v), lambda: self._one(lib_fmt_ints([v])))

    def parse_int(self, t):
        return self._get(('pi', t), lambda: self._one(lib_parse_ints([t])))

    def fmt_float(self, h):
        return self._get(('ff', h), lambda: self._one(lib_fmt_floats([float.fromhex(h)])))

    def parse_float(self, t):
        return self._get(('pf', t), lambda: self._one(lib_parse_floats([t])))


def _obs(v):
    return repr(v) if isinstance(v, Raised) else v


def _fail(res, kind, case, feats, expected, observed):
    res.fail(kind, case, feats, expected=expected, observed=_obs(observed),
             tb=observed.tb() if isinstance(observed, Raised) else None)


def _same_float(a, b):
    return a == b or (a != a and b != b)


# ====================================================================== cases
def case_int_single(res, ctx, case, v):
    v = int(v)
    feats = M.int_features(v)
    exp = M.int_text(v)
    got = ctx.fmt_int(v)
    bad = 0
    if isinstance(got, Raised):
        _fail(res, 'int-format-exact:raises', case, dict(feats, via='ints_to_strings'), [exp], got)
        bad += 1
    elif got != exp:
        _fail(res, 'int-format-exact', case, dict(feats, via='ints_to_strings'), [exp], [got])
        bad += 1
    for name, text in M.int_spellings(v):
        want = M.int_value(text)
        r = ctx.parse_int(text)
        f = dict(feats, via='str_to_int', spelling=name)
        if isinstance(r, Raised):
            _fail(res, 'int-parse-exact:raises', case, f, {'text': text, 'value': want}, r)
            bad += 1
        elif r != want:
            _fail(res, 'int-parse-exact', case, f, {'text': text, 'value': want}, r)
            bad += 1
    if len(exp) >= 2:
        res.nontrivial += 1
    res.outcome('int_single:%s:%s' % (feats['class'], 'ok' if not bad else 'fail'))
    ctx.sample({'section': 'int_single', 'value': v, 'formatted': _obs(got), 'spellings_parsed': len(M.int_spellings(v))})


def _batch(res, ctx, case, kind, func, rows, batch, alone, widths, facts, same=lambda a, b: a == b):
    """Independence oracle shared by all batch sections.  rows: the inputs; batch: library result for the
    batch (list or Raised); alone: library result per row alone; facts: batch-level features."""
    n = len(rows)
    mixed = len(set(widths)) > 1 or any(v for k, v in facts.items() if k.startswith('mixed'))
    if mixed:
        res.nontrivial += 1
    if isinstance(batch, Raised):
        if any(isinstance(a, Raised) for a in alone):
            res.extra['batch_raises_and_so_does_a_row_alone(not judged here)'] += 1
            res.outcome('%s:batch-raises-like-alone' % func)
            return
        _fail(res, kind + ':raises', case, dict(facts, func=func, row_first='n/a', row_narrower='n/a'),
              [_obs(a) for a in alone], batch)
        res.outcome('%s:batch-raises' % func)
        return
    bad = 0
    for i in range(n):
        if isinstance(alone[i], Raised):
            res.extra['row_raises_alone(judged as singleton)'] += 1
            continue
        if not same(batch[i], alone[i]):
            bad += 1
            _fail(res, kind, case, dict(facts, func=func, row_first=(i == 0), row_narrower=widths[i] < max(widths)),
                  {'row': i, 'input': rows[i], 'alone': alone[i]}, {'row': i, 'in_batch': batch[i], 'batch': batch})
    res.outcome('%s:n=%d:%s:%s' % (func, n, 'mixed' if mixed else 'uniform', 'ok' if not bad else 'dependent'))


def case_int_fmt_batch(res, ctx, case, vs):
    vs = [int(v) for v in vs]
    batch = lib_fmt_ints(vs)
    res.transitions += 1
    alone = [ctx.fmt_int(v) for v in vs]
    facts = {'mixed_sign': any(v < 0 for v in vs) and any(v >= 0 for v in vs), 'has_int64_min': M.INT64_MIN in vs}
    _batch(res, ctx, case, 'int-format-independence', 'ints_to_strings', vs, batch, alone,
           [len(str(v)) for v in vs], facts)
    ctx.sample({'section': 'int_fmt_batch', 'values': vs, 'batch': _obs(batch)})


def case_int_parse_batch(res, ctx, case, ts):
    ts = [str(t) for t in ts]
    batch = lib_parse_ints(ts)
    res.transitions += 1
    alone = [ctx.parse_int(t) for t in ts]
    facts = {'mixed_sign': any(t[0] == '-' for t in ts) and any(t[0] != '-' for t in ts),
             'has_plus': any(t[0] == '+' for t in ts)}
    _batch(res, ctx, case, 'int-parse-independence', 'str_to_int', ts, batch, alone, [len(t) for t in ts], facts)
    ctx.sample({'section': 'int_parse_batch', 'texts': ts, 'batch': _obs(batch)})


def case_int_lists(res, ctx, case, rows):
    rows = [[int(v) for v in r] for r in rows]
    total = sum(len(r) for r in rows)
    joined = lib_join_lists(rows)
    res.transitions += 1
    elem = [[ctx.fmt_int(v) for v in r] for r in rows]
    base = {'func': 'int_lists_to_strings', 'batch_has_empty_row': any(not r for r in rows),
            'total_elements_zero': total == 0}
    if len(rows) > 1 and len(set(len(r) for r in rows)) > 1 or any(len(r) > 1 for r in rows):
        res.nontrivial += 1
    bad = 0
    usable = [not any(isinstance(e, Raised) for e in er) for er in elem]
    expected = [M.join_ints_text(er, ',') if ok else None for er, ok in zip(elem, usable)]
    if isinstance(joined, Raised):
        if all(usable):
            _fail(res, 'int-list-join:raises', case, dict(base, row_len='n/a'), expected, joined)
            bad += 1
        else:
            res.extra['list_join_raises_and_so_does_an_element_alone(not judged here)'] += 1
    else:
        for i, r in enumerate(rows):
            if not usable[i]:
                res.extra['list_element_raises_alone(judged as singleton)'] += 1
                continue
            if joined[i] != expected[i]:
                bad += 1
                _fail(res, 'int-list-join', case, dict(base, row_len=len(r), multi_row=len(rows) > 1),
                      {'row': i, 'elements': r, 'joined': expected[i]}, {'row': i, 'joined': joined[i], 'batch': joined})
    # split side: canonical model text of every non-empty row -> pieces -> values
    for i, r in enumerate(rows):
        if not r or r in rows[:i]:
            continue
        text = M.join_ints_text([M.int_text(v) for v in r], ',')
        want = M.split_text(text, ',')
        sp = lib_split(text)
        res.transitions += 1
        f = {'func': 'split', 'n_pieces': len(r), 'mixed_width': len(set(len(w) for w in want)) > 1}
        if isinstance(sp, Raised) or isinstance(sp[0], Raised):
            _fail(res, 'int-list-split:raises', case, f, want, sp if isinstance(sp, Raised) else sp[0])
            bad += 1
            continue
        pieces_text, pieces = sp
        if pieces_text != want:
            _fail(res, 'int-list-split', case, f, want, pieces_text)
            bad += 1
            continue
        vals = lib_parse_pieces(pieces, len(r))
        res.transitions += 1
        f = dict(f, func='split+str_to_int')
        if isinstance(vals, Raised):
            _fail(res, 'int-list-split:raises', case, f, r, vals)
            bad += 1
        elif vals != r:
            _fail(res, 'int-list-split', case, f, r, vals)
            bad += 1
    res.outcome('int_lists:rows=%d:lens=%s:%s' % (len(rows), ','.join(str(min(len(r), 3)) for r in rows[:3]),
                                                  'ok' if not bad else 'fail'))
    ctx.sample({'section': 'int_lists', 'rows': rows, 'joined': _obs(joined)})


def case_float_single(res, ctx, case, t):
    t = str(t)
    want = M.float_value(t)
    facts = M.float_text_facts(t)
    got = ctx.parse_float(t)
    if len(t) >= 2:
        res.nontrivial += 1
    if isinstance(got, Raised):
        _fail(res, 'float-parse-accuracy:raises', case, dict(facts, via='str_to_float'), want, got)
        res.outcome('float_single:raises')
        return
    d = M.ulp_distance(got, want)
    if d > ULP_TOL:
        _fail(res, 'float-parse-accuracy', case, dict(facts, via='str_to_float'), want,
              {'value': got, 'ulp_off': d if d != float('inf') else 'nan'})
    elif want == 0.0 and math.copysign(1.0, got) != math.copysign(1.0, want):
        res.extra['zero_with_other_sign(not judged)'] += 1
    res.outcome('float_single:exp-%s:point-%s:ulp=%s' % (facts['exp'], facts['point'], d if d <= ULP_TOL else '>%d' % ULP_TOL))
    ctx.sample({'section': 'float_single', 'text': t, 'parsed': got, 'float(text)': want, 'ulp_off': d})


def _float_batch_facts(ts):
    forms = ['e' in t for t in ts]
    points = ['.' in t for t in ts]
    return {'mixed_forms': len(set(forms)) > 1, 'mixed_point': len(set(points)) > 1}, forms, points


def case_float_parse_batch(res, ctx, case, ts, via='str_to_float'):
    ts = [str(t) for t in ts]
    batch = lib_parse_floats(ts)
    res.transitions += 1
    alone = [ctx.parse_float(t) for t in ts]
    facts, forms, points = _float_batch_facts(ts)
    n = len(ts)
    widths = [len(t) for t in ts]
    mixed = facts['mixed_forms'] or facts['mixed_point'] or len(set(widths)) > 1
    if mixed:
        res.nontrivial += 1
    if isinstance(batch, Raised):
        if any(isinstance(a, Raised) for a in alone):
            res.extra['batch_raises_and_so_does_a_row_alone(not judged here)'] += 1
        else:
            _fail(res, 'float-parse-independence:raises', case,
                  {'func': via, 'mixed_forms': facts['mixed_forms'], 'row_form': 'n/a', 'row_has_point': 'n/a',
                   'row_first': 'n/a'}, alone, batch)
        res.outcome('str_to_float:batch-raises')
        return
    bad = 0
    for i in range(n):
        if isinstance(alone[i], Raised):
            res.extra['row_raises_alone(judged as singleton)'] += 1
            continue
        if not _same_float(batch[i], alone[i]):
            bad += 1
            _fail(res, 'float-parse-independence', case,
                  {'func': via, 'mixed_forms': facts['mixed_forms'], 'row_form': 'scientific' if forms[i] else 'decimal',
                   'row_has_point': points[i], 'row_first': (i == 0)},
                  {'row': i, 'text': ts[i], 'alone': alone[i]}, {'row': i, 'in_batch': batch[i], 'batch': batch})
    res.outcome('str_to_float:n=%d:%s:%s' % (n, 'mixed' if mixed else 'uniform', 'ok' if not bad else 'dependent'))
    ctx.sample({'section': 'float_parse_batch', 'texts': ts, 'batch': _obs(batch)})


def _roundtrip_verdict(x, text, back):
    """-> None if the round trip is exact, else (kind, expected, observed)"""
    if isinstance(text, Raised):
        return 'float-roundtrip:format-raises', repr(x), text
    if isinstance(back, Raised):
        return 'float-roundtrip:parse-raises', {'x': repr(x), 'text': text}, back
    if back == x:
        return None
    try:
        denotes = M.float_value(text)
    except ValueError:
        denotes = None
    if denotes is None or denotes != x:
        return ('float-roundtrip:format-text-wrong', {'x': repr(x)},
                {'text': text, 'denotes': repr(denotes), 'parsed_back': repr(back)})
    d = M.ulp_distance(back, x)
    kind = 'float-roundtrip:parse-off-le-%dulp' % ULP_TOL if d <= ULP_TOL else 'float-roundtrip:parse-off-gt-%dulp' % ULP_TOL
    return kind, {'x': repr(x), 'text': text}, {'parsed_back': repr(back), 'ulp_off': d if d != float('inf') else 'nan'}


def case_float_rt(res, ctx, case, h):
    x = float.fromhex(h)
    facts = M.double_facts(x)
    text = ctx.fmt_float(h)
    back = text if isinstance(text, Raised) else ctx.parse_float(text)
    if len(repr(x)) >= 2:
        res.nontrivial += 1
    v = _roundtrip_verdict(x, text, back)
    if v is not None:
        _fail(res, v[0], case, dict(facts, via='strops'), v[1], v[2])
        res.outcome('float_rt:%s:%s' % (facts['sig_digits'], v[0].split(':')[1]))
    else:
        res.outcome('float_rt:%s:%s:exact' % (facts['repr_form'], facts['sig_digits']))
    ctx.sample({'section': 'float_rt', 'x': repr(x), 'formatted': _obs(text), 'parsed_back': _obs(back)})


def case_float_rt_batch(res, ctx, case, hs):
    hs = [str(h) for h in hs]
    xs = [float.fromhex(h) for h in hs]
    batch = lib_fmt_floats(xs)
    res.transitions += 1
    alone = [ctx.fmt_float(h) for h in hs]
    reprs = [repr(x) for x in xs]
    facts = {'mixed_forms': len(set('e' in r for r in reprs)) > 1, 'mixed_sign': len(set(r[0] == '-' for r in reprs)) > 1}
    _batch(res, ctx, case, 'float-format-independence', 'float_to_strings', reprs, batch, alone,
           [len(r) for r in reprs], facts)
    if all(isinstance(a, str) for a in alone):
        try:
            for a in alone:
                M.float_value(a)
        except ValueError:
            res.extra['formatted_text_outside_grammar(batch parse skipped; judged in float_rt)'] += 1
            return
        case_float_parse_batch(res, ctx, case, alone, via='str_to_float(formatted texts)')


# ---------------------------------------------------------------------- files
def _bed_bytes(starts, stops):
    return ''.join('c\t%s\t%s\n' % (a, b) for a, b in zip(starts, stops)).encode('latin1')


def case_bed_read(res, ctx, case, starts, stops, lazy):
    starts = [str(t) for t in starts]
    stops = [str(t) for t in stops]
    data = _bed_bytes(starts, stops)
    got = lib_read_columns('bed', data, bool(lazy), ['start', 'stop'])
    res.transitions += 1
    bad = 0
    mixedw = False
    for name, texts, col in (('start', starts, 0), ('stop', stops, 1)):
        want = [M.int_value(t) for t in texts]
        facts = {'via': 'bed_read', 'lazy': bool(lazy), 'column_has_sign': any(t[0] in '+-' for t in texts),
                 'column_mixed_width': len(set(len(t) for t in texts)) > 1}
        mixedw = mixedw or facts['column_mixed_width'] or facts['column_has_sign']
        if isinstance(got, Raised):
            _fail(res, 'file-int-column-parse:raises', case, facts, want, got)
            bad += 1
            break
        if got[col] != want:
            _fail(res, 'file-int-column-parse', case, facts, {name: want}, {name: got[col]})
            bad += 1
    if mixedw:
        res.nontrivial += 1
    res.outcome('bed_read:%s:rows=%d:%s' % ('lazy' if lazy else 'eager', len(starts), 'ok' if not bad else 'fail'))
    ctx.sample({'section': 'bed_read', 'file': data.decode('latin1'), 'lazy': bool(lazy), 'columns': _obs(got)})


def _table_lines(text, n_rows, n_cols):
    """written file text -> list of rows of field texts, or None if it is not n_rows lines of n_cols fields"""
    if not text.endswith('\n'):
        return None
    lines = text[:-1].split('\n')
    if len(lines) != n_rows:
        return None
    rows = [l.split('\t') for l in lines]
    if any(len(r) != n_cols for r in rows):
        return None
    return rows


def case_bed_write(res, ctx, case, starts, stops):
    from bionumpy.datatypes import Interval
    starts = [int(v) for v in starts]
    stops = [int(v) for v in stops]
    n = len(starts)
    a = np.array(starts, dtype=np.int64)
    b = np.array(stops, dtype=np.int64)
    text = lib_write('bed', lambda: Interval(['c'] * n, a, b))
    res.transitions += 1
    alone = [[ctx.fmt_int(v) for v in col] for col in (starts, stops)]
    facts = {'via': 'bed_write', 'mixed_sign': any(v < 0 for v in starts + stops) and any(v >= 0 for v in starts + stops),
             'has_int64_min': M.INT64_MIN in starts + stops,
             'mixed_width': len(set(len(str(v)) for v in starts)) > 1 or len(set(len(str(v)) for v in stops)) > 1}
    if facts['mixed_width'] or facts['mixed_sign']:
        res.nontrivial += 1
    if any(isinstance(x, Raised) for col in alone for x in col):
        res.extra['file_write_with_a_value_that_raises_alone(judged as singleton)'] += 1
        res.outcome('bed_write:skipped')
        return
    want = [['c', alone[0][i], alone[1][i]] for i in range(n)]
    if isinstance(text, Raised):
        _fail(res, 'file-int-column-format:raises', case, facts, want, text)
        res.outcome('bed_write:raises')
        return
    rows = _table_lines(text, n, 3)
    if rows != want:
        _fail(res, 'file-int-column-format', case, facts, want, rows if rows is not None else text)
        res.outcome('bed_write:fail')
    else:
        res.outcome('bed_write:rows=%d:%s:ok' % (n, 'mixed' if facts['mixed_width'] else 'uniform'))
    ctx.sample({'section': 'bed_write', 'start': starts, 'stop': stops, 'written': _obs(text)})


def case_bdg_read(res, ctx, case, vals, lazy):
    vals = [str(t) for t in vals]
    data = ''.join('c\t%d\t%d\t%s\n' % (i, i + 1, t) for i, t in enumerate(vals)).encode('latin1')
    got = lib_read_columns('bdg', data, bool(lazy), ['value'])
    res.transitions += 1
    facts, forms, points = _float_batch_facts(vals)
    facts = dict(facts, via='bdg_read', lazy=bool(lazy))
    want = [M.float_value(t) for t in vals]
    if facts['mixed_forms'] or facts['mixed_point'] or len(set(len(t) for t in vals)) > 1:
        res.nontrivial += 1
    if isinstance(got, Raised):
        _fail(res, 'file-float-column-parse:raises', case, facts, want, got)
        res.outcome('bdg_read:raises')
        return
    col = [float(v) for v in got[0]]
    d = [M.ulp_distance(g, w) for g, w in zip(col, want)] if len(col) == len(want) else [float('inf')]
    if max(d) > ULP_TOL:
        _fail(res, 'file-float-column-parse', case, facts, want, {'value': col, 'ulp_off': [str(x) for x in d]})
    res.outcome('bdg_read:%s:maxulp=%s' % ('lazy' if lazy else 'eager', max(d) if max(d) <= ULP_TOL else '>%d' % ULP_TOL))
    ctx.sample({'section': 'bdg_read', 'file': data.decode('latin1'), 'lazy': bool(lazy), 'value': col})


def case_bdg_rt(res, ctx, case, hs):
    from bionumpy.datatypes import BedGraph
    hs = [str(h) for h in hs]
    xs = [float.fromhex(h) for h in hs]
    n = len(xs)
    arr = np.array(xs, dtype=np.float64)
    text = lib_write('bdg', lambda: BedGraph(['c'] * n, np.arange(n), np.arange(n) + 1, arr))
    res.transitions += 1
    alone = [ctx.fmt_float(h) for h in hs]
    reprs = [repr(x) for x in xs]
    facts = {'via': 'bdg_write', 'mixed_forms': len(set('e' in r for r in reprs)) > 1,
             'mixed_width': len(set(len(r) for r in reprs)) > 1}
    if facts['mixed_forms'] or facts['mixed_width']:
        res.nontrivial += 1
    if any(isinstance(a, Raised) for a in alone):
        res.extra['file_write_with_a_value_that_raises_alone(judged as singleton)'] += 1
        res.outcome('bdg_rt:skipped')
        return
    want = [['c', str(i), str(i + 1), alone[i]] for i in range(n)]
    if isinstance(text, Raised):
        _fail(res, 'file-float-column-format:raises', case, facts, want, text)
        res.outcome('bdg_rt:write-raises')
        return
    rows = _table_lines(text, n, 4)
    if rows != want:
        _fail(res, 'file-float-column-format', case, facts, want, rows if rows is not None else text)
        res.outcome('bdg_rt:write-fail')
        return
    # read the written bytes back: every value must come back as the direct parse of its own text does
    direct = [ctx.parse_float(a) for a in alone]
    if any(isinstance(dv, Raised) for dv in direct):
        res.extra['formatted_text_raises_in_direct_parse(judged in float_rt)'] += 1
        res.outcome('bdg_rt:skipped')
        return
    back = lib_read_columns('bdg', text.encode('latin1'), False, ['value'])
    res.transitions += 1
    f2 = dict(facts, via='bdg_write_then_read')
    if isinstance(back, Raised):
        _fail(res, 'file-float-roundtrip-differs-from-direct:raises', case, f2, direct, back)
        res.outcome('bdg_rt:read-raises')
        return
    col = [float(v) for v in back[0]]
    if len(col) != n or not all(_same_float(c, dv) for c, dv in zip(col, direct)):
        _fail(res, 'file-float-roundtrip-differs-from-direct', case, f2, direct, col)
        res.outcome('bdg_rt:read-differs')
        return
    res.outcome('bdg_rt:rows=%d:%s' % (n, 'exact' if col == xs else 'as-direct-but-inexact'))
    ctx.sample({'section': 'bdg_rt', 'values': reprs, 'written': text, 'read_back': col})


def _bed12_line(sizes, starts, comma):
    tail = ',' if comma else ''
    return 'c\t1\t2\tn\t0\t+\t1\t2\t0,0,0\t%d\t%s\t%s' % (
        len(sizes), ','.join(str(v) for v in sizes) + tail, ','.join(str(v) for v in starts) + tail)


def case_bed12(res, ctx, case, lists, comma, lazy):
    """lists: one integer list per row, used as block_sizes; block_starts is the same rows in reverse order"""
    from bionumpy.datatypes import Bed12
    from npstructures import RaggedArray
    sizes = [[int(v) for v in r] for r in lists]
    starts = sizes[::-1]
    n = len(sizes)
    data = ''.join(_bed12_line(s, t, comma) + '\n' for s, t in zip(sizes, starts)).encode('latin1')
    got = lib_read_columns('bed12', data, bool(lazy), ['block_sizes', 'block_starts'])
    res.transitions += 1
    facts = {'via': 'bed12_read', 'lazy': bool(lazy), 'trailing_comma': bool(comma)}
    if len(set(len(r) for r in sizes)) > 1 or len(set(len(str(v)) for r in sizes for v in r)) > 1:
        res.nontrivial += 1
    bad = 0
    if isinstance(got, Raised):
        _fail(res, 'file-int-list-column-parse:raises', case, facts, [sizes, starts], got)
        bad += 1
    elif [list(r) for r in got[0]] != sizes or [list(r) for r in got[1]] != starts:
        _fail(res, 'file-int-list-column-parse', case, facts, [sizes, starts], got)
        bad += 1
    if not comma and not lazy:
        # write side (eager table built from arrays): list columns must be the element texts joined by ','
        elem = {v: ctx.fmt_int(v) for r in sizes for v in r}
        if any(isinstance(e, Raised) for e in elem.values()):
            res.extra['file_write_with_a_value_that_raises_alone(judged as singleton)'] += 1
        else:
            flat_a = np.array([v for r in sizes for v in r], dtype=np.int64)
            flat_b = np.array([v for r in starts for v in r], dtype=np.int64)
            la = [len(r) for r in sizes]
            lb = [len(r) for r in starts]
            text = lib_write('bed12', lambda: Bed12(['c'] * n, [1] * n, [2] * n, ['n'] * n, [0] * n, ['+'] * n, [1] * n,
                                                    [2] * n, ['0,0,0'] * n, np.array(la), RaggedArray(flat_a, la),
                                                    RaggedArray(flat_b, lb)))
            res.transitions += 1
            want = [['c', '1', '2', 'n', '0', '+', '1', '2', '0,0,0', str(len(s)), ','.join(elem[v] for v in s),
                     ','.join(elem[v] for v in t)] for s, t in zip(sizes, starts)]
            f2 = dict(facts, via='bed12_write')
            if isinstance(text, Raised):
                _fail(res, 'file-int-list-column-format:raises', case, f2, want, text)
                bad += 1
            else:
                rows = _table_lines(text, n, 12)
                if rows != want:
                    _fail(res, 'file-int-list-column-format', case, f2, want, rows if rows is not None else text)
                    bad += 1
    res.outcome('bed12:%s:%s:rows=%d:%s' % ('lazy' if lazy else 'eager', 'comma' if comma else 'plain', n,
                                          'ok' if not bad else 'fail'))
    ctx.sample({'section': 'bed12', 'file': data.decode('latin1'), 'lazy': bool(lazy), 'columns': _obs(got)})


def case_matrix_int(res, ctx, case, m):
    m = [[int(v) for v in r] for r in m]
    flat = [v for r in m for v in r]
    csv = lib_matrix_to_csv(m)
    res.transitions += 1
    bad = 0
    elem = {v: ctx.fmt_int(v) for v in flat}
    facts = {'via': 'matrix_to_csv', 'mixed_width': len(set(len(str(v)) for v in flat)) > 1,
             'has_negative': any(v < 0 for v in flat)}
    if facts['mixed_width']:
        res.nontrivial += 1
    if any(isinstance(e, Raised) for e in elem.values()):
        res.extra['file_write_with_a_value_that_raises_alone(judged as singleton)'] += 1
    else:
        want = ''.join(','.join(elem[v] for v in r) + '\n' for r in m)
        if isinstance(csv, Raised):
            _fail(res, 'matrix-int-format:raises', case, facts, want, csv)
            bad += 1
        elif csv != want:
            _fail(res, 'matrix-int-format', case, facts, want, csv)
            bad += 1
    text = 'r\t' + '\t'.join('c%d' % j for j in range(len(m[0]))) + '\n' + ''.join(
        'r%d\t' % i + '\t'.join(M.int_text(v) for v in r) + '\n' for i, r in enumerate(m))
    got = lib_parse_matrix(text, int, (len(m), len(m[0])))
    res.transitions += 1
    f2 = dict(facts, via='parse_matrix')
    if isinstance(got, Raised):
        _fail(res, 'matrix-int-parse:raises', case, f2, m, got)
        bad += 1
    elif got != m:
        _fail(res, 'matrix-int-parse', case, f2, m, got)
        bad += 1
    res.outcome('matrix_int:%s:%s' % ('mixed' if facts['mixed_width'] else 'uniform', 'ok' if not bad else 'fail'))
    ctx.sample({'section': 'matrix_int', 'matrix': m, 'csv': _obs(csv), 'parsed': _obs(got)})


def case_matrix_float(res, ctx, case, m):
    m = [[str(t) for t in r] for r in m]
    flat = [t for r in m for t in r]
    text = 'r\t' + '\t'.join('c%d' % j for j in range(len(m[0]))) + '\n' + ''.join(
        'r%d\t' % i + '\t'.join(r) + '\n' for i, r in enumerate(m))
    got = lib_parse_matrix(text, float, (len(m), len(m[0])))
    res.transitions += 1
    facts, forms, points = _float_batch_facts(flat)
    facts = dict(facts, via='parse_matrix')
    want = [[M.float_value(t) for t in r] for r in m]
    if facts['mixed_forms'] or facts['mixed_point']:
        res.nontrivial += 1
    if isinstance(got, Raised):
        _fail(res, 'matrix-float-parse:raises', case, facts, want, got)
        res.outcome('matrix_float:raises')
        return
    d = max(M.ulp_distance(g, w) for gr, wr in zip(got, want) for g, w in zip(gr, wr))
    if d > ULP_TOL:
        _fail(res, 'matrix-float-parse', case, facts, want, got)
    res.outcome('matrix_float:maxulp=%s' % (d if d <= ULP_TOL else '>%d' % ULP_TOL))
    ctx.sample({'section': 'matrix_float', 'matrix': m, 'parsed': got})


# ---------------------------------------------------------------------- batch-size ladder
# The small batches above decide value- and neighbour-dependence; they cannot see a code path that is chosen by the
# NUMBER of rows (a vectorised path for large columns, a block size).  The ladder runs each conversion on one column of
# N rows for every N of a stated ladder (every N up to 40, then every power of two and of ten with both neighbours) and
# compares every row with the same row converted alone.  The rows cycle through a fixed pool, so N alone names the case.
LADDER_FUNCS = ('ints_to_strings', 'str_to_int', 'float_to_strings', 'str_to_float', 'int_lists_to_strings',
                'bedgraph_value_column_write')


def ladder_sizes(tier):
    top = 16 if tier == 'quick' else 20
    ns = set(range(1, 41))
    for k in range(6, top + 1):
        ns.update((2 ** k - 1, 2 ** k, 2 ** k + 1))
    for k in range(2, 6 if tier == 'quick' else 7):
        ns.update((10 ** k - 1, 10 ** k, 10 ** k + 1))
    return sorted(ns)


@functools.lru_cache(maxsize=None)
def ladder_pool(func):
    if func == 'ints_to_strings':
        return tuple(M.boundary_ints_small())
    if func == 'str_to_int':
        out = []
        for v in M.CORE_INTS_12:
            for _, t in M.int_spellings(v):
                if t not in out:
                    out.append(t)
        return tuple(out + [str(v) for v in M.boundary_ints_small()])
    if func in ('float_to_strings', 'bedgraph_value_column_write'):
        hs = []
        for x in itertools.chain((1.0 / 3, 2.0 / 3, 0.1 * 3, 39.93057692175728, 123456789.123, 1e16, 1e-5, 5e-10),
                                 (M.float_value(t) for t in M.FLOAT_CORE_TEXTS), M.structured_doubles()):
            if M.judgeable_double(x) and float(x).hex() not in hs:
                hs.append(float(x).hex())
            if len(hs) >= 257:
                break
        return tuple(hs)
    if func == 'str_to_float':
        return tuple(M.FLOAT_CORE_TEXTS) + tuple(M.PARTNERS_DEC) + tuple(M.PARTNERS_SCI)
    if func == 'int_lists_to_strings':
        return tuple(tuple(r) for r in M.lists_upto(M.CORE_INTS_6, 2))
    raise ValueError(func)


def case_ladder(res, ctx, case, func, n):
    pool = ladder_pool(func)
    rows = [pool[i % len(pool)] for i in range(n)]
    size = '<=40' if n <= 40 else ('41..511' if n < 512 else ('512..65535' if n < 65536 else '>=65536'))
    feats = {'func': func, 'rows': size}
    res.transitions += 1
    if func == 'ints_to_strings':
        batch, alone = lib_fmt_ints(rows), [ctx.fmt_int(v) for v in pool]
    elif func == 'str_to_int':
        batch, alone = lib_parse_ints(rows), [ctx.parse_int(t) for t in pool]
    elif func == 'float_to_strings':
        batch, alone = lib_fmt_floats([float.fromhex(h) for h in rows]), [ctx.fmt_float(h) for h in pool]
    elif func == 'str_to_float':
        batch, alone = lib_parse_floats(rows), [ctx.parse_float(t) for t in pool]
    elif func == 'int_lists_to_strings':
        batch = lib_join_lists(rows)
        alone = [ctx._get(('jl', r), lambda r=r: ctx._one(lib_join_lists([r]))) for r in pool]
    else:
        from bionumpy.datatypes import BedGraph
        vals = np.array([float.fromhex(h) for h in rows], dtype=np.float64)
        text = lib_write('bdg', lambda: BedGraph(['c'] * n, np.arange(n), np.arange(n) + 1, vals))
        if isinstance(text, Raised):
            batch = text
        else:
            lines = text.split('\n')
            if lines and lines[-1] == '':
                lines.pop()
            batch = [ln.split('\t')[-1] for ln in lines] if len(lines) == n else Raised(
                ValueError('%d lines written for %d rows' % (len(lines), n)))
        alone = [ctx.fmt_float(h) for h in pool]
    if n > len(pool):
        res.nontrivial += 1
    kind = 'row-independent-of-column-length:' + func
    if isinstance(batch, Raised):
        if any(isinstance(a, Raised) for a in alone[:n]):
            res.extra['ladder: column raises and so does a row alone (judged as singleton)'] += 1
        else:
            _fail(res, kind + ':raises', case, feats, 'a column of %d rows' % n, batch)
        res.outcome('ladder:%s:%s:raises' % (func, size))
        return
    same = _same_float if func == 'str_to_float' else (lambda a, b: a == b)
    for i in range(n):
        a = alone[i % len(pool)]
        if isinstance(a, Raised):
            continue
        if not same(batch[i], a):
            _fail(res, kind, case, feats, {'row': i, 'input': rows[i], 'alone': a}, {'row': i, 'in_column_of_%d' % n: batch[i]})
            res.outcome('ladder:%s:%s:dependent' % (func, size))
            return
    res.outcome('ladder:%s:%s:ok' % (func, size))


def case_unjudged(res, ctx, case, what):
    """behaviours the statement does not clearly promise: executed, recorded, never judged"""
    if what == 'empty_batches':
        for name, fn in (('ints_to_strings([])', lambda: lib_fmt_ints([])), ('str_to_int([])', lambda: lib_parse_ints([])),
                         ('float_to_strings([])', lambda: lib_fmt_floats([]))):
            r = fn()
            res.transitions += 1
            res.extra['unjudged:%s:%s' % (name, 'raises ' + type(r.exc).__name__ if isinstance(r, Raised) else 'returns')] += 1
    else:
        t = str(what)
        r = lib_parse_floats([t])
        res.transitions += 1
        ok = (not isinstance(r, Raised)) and M.ulp_distance(r[0], float(t)) <= ULP_TOL
        res.extra['unjudged:str_to_float(%s-form):%s' % ('plus' if t[0] == '+' else 'other',
                                                         'accurate' if ok else 'raises-or-differs')] += 1
    res.outcome('unjudged')


SECTIONS = {
    'int_single': lambda res, ctx, case, a: case_int_single(res, ctx, case, a),
    'int_fmt_batch': lambda res, ctx, case, a: case_int_fmt_batch(res, ctx, case, a),
    'int_parse_batch': lambda res, ctx, case, a: case_int_parse_batch(res, ctx, case, a),
    'int_lists': lambda res, ctx, case, a: case_int_lists(res, ctx, case, a),
    'float_single': lambda res, ctx, case, a: case_float_single(res, ctx, case, a),
    'float_parse_batch': lambda res, ctx, case, a: case_float_parse_batch(res, ctx, case, a),
    'float_rt': lambda res, ctx, case, a: case_float_rt(res, ctx, case, a),
    'float_rt_batch': lambda res, ctx, case, a: case_float_rt_batch(res, ctx, case, a),
    'bed_read': lambda res, ctx, case, a: case_bed_read(res, ctx, case, a[0], a[1], a[2]),
    'bed_write': lambda res, ctx, case, a: case_bed_write(res, ctx, case, a[0], a[1]),
    'bdg_read': lambda res, ctx, case, a: case_bdg_read(res, ctx, case, a[0], a[1]),
    'bdg_rt': lambda res, ctx, case, a: case_bdg_rt(res, ctx, case, a),
    'bed12': lambda res, ctx, case, a: case_bed12(res, ctx, case, a[0], a[1], a[2]),
    'matrix_int': lambda res, ctx, case, a: case_matrix_int(res, ctx, case, a),
    'matrix_float': lambda res, ctx, case, a: case_matrix_float(res, ctx, case, a),
    'unjudged': lambda res, ctx, case, a: case_unjudged(res, ctx, case, a),
    'ladder': lambda res, ctx, case, a: case_ladder(res, ctx, case, a[0], int(a[1])),
}


SAMPLE_SECTIONS = ('int_fmt_batch', 'float_parse_batch', 'float_rt', 'int_lists', 'bed_read', 'int_single', 'float_single')


def run_case(res, ctx, sec, arg):
    case = {'sec': sec, 'arg': arg}
    res.evaluations += 1
    res.states += 1
    res.planned += 1
    nt = res.nontrivial
    SECTIONS[sec](res, ctx, case, arg)
    res.nontrivial = min(res.nontrivial, nt + 1)      # one case counts once, however many sub-oracles call it non-trivial
    res.traces += 1


# ====================================================================== the space
def _domain(tier, seed):
    q = tier == 'quick'
    n_ext = len(M.LONG_PATTERNS) - 2
    if q:
        ext = [2 + (seed * 2 + k) % n_ext for k in range(2)]
        patterns = [M.LONG_PATTERNS[0], M.LONG_PATTERNS[1]] + [M.LONG_PATTERNS[i] for i in ext]
    else:
        patterns = list(M.LONG_PATTERNS)
    return {
        'tier': tier,
        'mant_len': 3 if q else 5,
        'exponents': list(M.EXPONENTS_QUICK if q else M.EXPONENTS_THOROUGH),
        'long_patterns': patterns,
        'long_exponents': list(M.EXPONENTS_QUICK),
        'pair_set': 'B_small' if q else 'B',
        'triple_core': list(M.CORE_INTS_12 if q else M.CORE_INTS_24),
        'list_core': list(M.CORE_INTS_12),
        'list_pair_core': list(M.CORE_INTS_4 if q else M.CORE_INTS_6),
        'list_triple_core': [-7, 10 ** 17] if q else [-7, 100, 10 ** 17],
        'sandwiches_per_short_text': 2,
        'sandwiches_per_long_text': 1 if q else 2,
        'exponents_longest_mantissa': list(M.EXPONENTS_QUICK),
        'bed_write_partner': 'core12' if q else 'B',
        'lazy_slice': (seed % 8) if q else 'all',
        'rt_text_len': 3 if q else 4,
    }


def bounds(tier, seed):
    d = _domain(tier, seed)
    B = M.boundary_ints()
    out = dict(d)
    out.update({
        'int_boundary_set': '%d values: 0, +-(10^p+d) p=0..18 d=-2..2, +-(2^q+d) q in %s d=-1..1, int64 min/min+1/max' % (
            len(B), list(M.POW2_Q)),
        'int_batches': 'every ordered pair of pair_set (B = the boundary set, B_small = its d in -1..1 / 2^q part, %d values) '
                       '(format and parse); every ordered triple of triple_core; '
                       'every ordered pair of all spellings (+, leading zeros, -0) of the 12-value core' % len(M.boundary_ints_small()),
        'int_lists': 'every list of 0..3 values of list_core as one row; every ordered pair of lists of 0..2 values of '
                     'list_pair_core as two rows; every ordered triple of lists of 0..2 values of list_triple_core',
        'float_texts': 'sign {"", "-"} x mantissa digits %s of length 1..%d with no point or a point at every position x '
                       'exponents; plus mantissa patterns of length 6..17 x the quick exponents; plus few significant digits written '
                       'out in full (1, 9, 5, 93, 18, 10 followed by 10..24 zeros with "", ".", ".0", ".5"; 0.00..0d with 10..24 zeros) x '
                       'exponents {"", e0, e-10, e10}' % (M.MANT_DIGITS, d['mant_len']),
        'float_batches': 'every short text between %d and every long text between %d (decimal, scientific) partner pairs, '
                         'partner order alternating; every ordered pair of the %d-text core' % (
                             d['sandwiches_per_short_text'], d['sandwiches_per_long_text'], len(M.FLOAT_CORE_TEXTS)),
        'doubles': 'values of the short texts (mantissa <= %d digits) + 10^k and both neighbours k=-300..300 + 2^k '
                   'k=-996..996 + classic fractions; alone and in every window of three' % d['rt_text_len'],
        'batch_size_ladder': 'every conversion (%s) on one column of N rows for N in 1..40, 2^k +-1 and 2^k for k=6..%d, 10^k +-1 '
                             'and 10^k for k=2..%d; rows cycle through a fixed pool' % (', '.join(LADDER_FUNCS), 16 if tier == 'quick' else 20,
                                                                                     5 if tier == 'quick' else 6),
        'ulp_tolerance': ULP_TOL,
        'core': 'everything above except the extension slices',
        'extension_slice': ('quick: two of the six extra long-mantissa patterns and one eighth of the lazy BED pair files, '
                            'rotated by VERIF_SEED; thorough: all of them') if tier == 'quick' else 'none (all slices)',
        'shards': N_SHARDS,
    })
    return out


def _judgeable_text(t):
    return M.judgeable_double(M.float_value(t))


def gen_cases(tier, seed):
    """The whole space in canonical order (simplest sections first), as (section, argument) pairs.
    ('skip', reason) marks an element of a product that is outside the property's quantifier."""
    d = _domain(tier, seed)
    q = tier == 'quick'
    B = M.boundary_ints()
    core12 = list(M.CORE_INTS_12)

    # ---- integers
    for v in B:
        yield ('int_single', v)
    yield ('unjudged', 'empty_batches')
    P = B if d['pair_set'] == 'B' else M.boundary_ints_small()
    for a in P:
        for c in P:
            yield ('int_fmt_batch', (a, c))
    for a in P:
        sa = str(a)
        for c in P:
            yield ('int_parse_batch', (sa, str(c)))
    sp = []
    for v in core12:
        for _, t in M.int_spellings(v):
            if t not in sp:
                sp.append(t)
    for a in sp:
        for c in sp:
            yield ('int_parse_batch', (a, c))
    for t in itertools.product(d['triple_core'], repeat=3):
        yield ('int_fmt_batch', t)
        yield ('int_parse_batch', tuple(str(v) for v in t))
    # triples of spellings: sign / zero-padded / plain in every order, over three widths
    sp3 = ('7', '+7', '-7', '007', '-0', '100', '+00100', '-100', '9223372036854775807', '-9223372036854775808')
    for t in itertools.product(sp3, repeat=3):
        yield ('int_parse_batch', t)

    # ---- integer lists
    for row in M.lists_upto(d['list_core'], 3):
        yield ('int_lists', (row,))
    pl = list(M.lists_upto(d['list_pair_core'], 2))
    for r1 in pl:
        for r2 in pl:
            yield ('int_lists', (r1, r2))
    tl = list(M.lists_upto(d['list_triple_core'], 2))
    for rows in itertools.product(tl, repeat=3):
        yield ('int_lists', rows)

    # ---- float texts
    if q:
        short = list(M.float_texts(M.short_mantissas(d['mant_len']), d['exponents']))
    else:   # the longest mantissas (the bulk of the space) with the quick exponent set, all shorter ones with the full set
        short = list(M.float_texts(M.short_mantissas(d['mant_len'] - 1), d['exponents']))
        short += list(M.float_texts((m for m in M.short_mantissas(d['mant_len']) if len(m.replace('.', '')) == d['mant_len']),
                                    d['exponents_longest_mantissa']))
    longt = list(M.float_texts(M.long_mantissas(d['long_patterns']), d['long_exponents']))
    # few significant digits written out in full (1 followed by 20 zeros, 0.000...05): texts of up to 27 characters
    longt += list(M.float_texts(M.written_out_mantissas(), ('', 'e0', 'e-10', 'e10')))
    k = 0
    nd, ns = len(M.PARTNERS_DEC), len(M.PARTNERS_SCI)
    n_short = len(short)
    for ti, t in enumerate(itertools.chain(short, longt)):
        if not _judgeable_text(t):
            yield ('skip', 'float_text_value_not_finite_normal_or_zero')
            continue
        yield ('float_single', t)
        for j in range(d['sandwiches_per_short_text'] if ti < n_short else d['sandwiches_per_long_text']):
            pd = M.PARTNERS_DEC[(k + j) % nd]
            ps = M.PARTNERS_SCI[(k // nd + j) % ns]
            if j % 2 == 0:
                yield ('float_parse_batch', (pd, t, ps))
            else:
                yield ('float_parse_batch', (ps, t, pd))
        k += 1
    for a in M.FLOAT_CORE_TEXTS:
        for c in M.FLOAT_CORE_TEXTS:
            yield ('float_parse_batch', (a, c))
    for t in ('+1.5', '+5', '+.5e10', '+0'):
        yield ('unjudged', t)

    # ---- doubles: format -> parse
    seen = set()
    doubles = []
    rt_texts = M.float_texts(M.short_mantissas(d['rt_text_len']), M.EXPONENTS_QUICK)
    for x in itertools.chain(M.structured_doubles(), (M.float_value(t) for t in rt_texts)):
        if not M.judgeable_double(x):
            continue
        h = float(x).hex()
        if h not in seen:
            seen.add(h)
            doubles.append(h)
    for h in doubles:
        yield ('float_rt', h)
    for i in range(len(doubles)):
        yield ('float_rt_batch', (doubles[i - 1], doubles[i], doubles[(i + 1) % len(doubles)]))

    # ---- files
    nonneg = [v for v in B if v >= 0]
    core_nn = [v for v in core12 if v >= 0]
    for v in nonneg:
        yield ('bed_read', ((str(v),), (str(v),), False))
        yield ('bed_read', ((str(v),), (str(v),), True))
    idx = 0
    for a in nonneg:
        for c in nonneg:
            yield ('bed_read', ((str(a), str(c)), (str(c), str(a)), False))
            if d['lazy_slice'] == 'all' or idx % 8 == d['lazy_slice'] or (a in core_nn and c in core_nn):
                yield ('bed_read', ((str(a), str(c)), (str(c), str(a)), True))
            idx += 1
    for t in itertools.product(core_nn, repeat=3):
        s = tuple(str(v) for v in t)
        yield ('bed_read', (s, s[::-1], False))
    for a in sp:
        for c in sp:
            yield ('bed_read', ((a, c), (c, a), False))
    for a in sp[::3]:
        for c in sp[1::3]:
            yield ('bed_read', ((a, c), (c, a), True))
    partners = core12 if d['bed_write_partner'] == 'core12' else B
    for a in B:
        for c in partners:
            yield ('bed_write', ((a, c), (c, a)))
    for a in M.FLOAT_CORE_TEXTS:
        for c in M.FLOAT_CORE_TEXTS:
            yield ('bdg_read', ((a, c), False))
            yield ('bdg_read', ((a, c), True))
    rt_core = []
    for x in [M.float_value(t) for t in M.FLOAT_CORE_TEXTS] + [0.1 * 3, 1.0 / 3, 2.0 / 3, 1e16, 1e15, 1e-5, 1e-4,
                                                              123456789.123, 5e-10, 2.0 ** 70]:
        h = float(x).hex()
        if h not in rt_core:
            rt_core.append(h)
    for a in rt_core:
        for c in rt_core:
            yield ('bdg_rt', (a, c))
    b12 = [r for r in M.lists_upto(M.CORE_INTS_4, 2) if r]
    for r1 in b12:
        for r2 in b12:
            for comma in (False, True):
                for lazy in (False, True):
                    yield ('bed12', ((r1, r2), comma, lazy))
    for r1 in b12:
        yield ('bed12', ((r1,), False, False))
    for m in itertools.product(M.CORE_INTS_6, repeat=4):
        yield ('matrix_int', ((m[0], m[1]), (m[2], m[3])))
    ftx = ('5', '-1.5', '.25', '1e-10', '-9.5e300')
    for m in itertools.product(ftx, repeat=4):
        yield ('matrix_float', ((m[0], m[1]), (m[2], m[3])))

    # ---- batch-size ladder (largest columns spread over the blocks: sizes ascending within each function)
    for n in ladder_sizes(tier):
        for func in LADDER_FUNCS:
            yield ('ladder', (func, n))


def shards(tier, seed):
    return [{'tier': tier, 'seed': seed, 'i': i, 'n': N_SHARDS} for i in range(N_SHARDS)]


def _plain(a):
    if isinstance(a, tuple):
        return [_plain(x) for x in a]
    return a


def run_shard(desc, deadline):
    import time
    t_cpu = time.process_time()     # reported only (evidence 'extra'); never used for a decision
    res = Result()
    i, n = desc['i'], desc['n']
    ctx = Ctx(res, SAMPLE_SECTIONS[i % len(SAMPLE_SECTIONS)])
    for idx, (sec, arg) in enumerate(gen_cases(desc['tier'], desc.get('seed', 0))):
        if (idx // BLOCK) % n != i:     # consecutive cases share rows (their results alone are computed once)
            continue
        if deadline.expired():
            res.capped = True
            break
        if sec == 'skip':
            res.extra['outside_quantifier:' + arg] += 1
            continue
        run_case(res, ctx, sec, _plain(arg))
    res.extra['cpu_seconds_all_shards(informational)'] += int(round(time.process_time() - t_cpu))
    return res


def replay_case(case):
    res = Result()
    run_case(res, Ctx(res), case['sec'], case['arg'])
    return [{'kind': g['kind'], 'features': g['features'], 'observed': g['exemplars'][0]['observed'],
             'expected': g['exemplars'][0]['expected'], 'traceback': g['exemplars'][0]['traceback']}
            for g in res.fail_groups.values()]


def repro_py(case):
    sec, a = case['sec'], case['arg']
    head = 'import numpy as np\nfrom bionumpy.io.strops import *\nfrom bionumpy.encoded_array import as_encoded_array\n'
    if sec == 'int_single':
        texts = [t for _, t in M.int_spellings(a)]
        return head + ('v = %d\nprint(ints_to_strings(np.array([v], dtype=np.int64)))  # expected %r\n'
                       'for t in %r:\n    print(t, str_to_int(as_encoded_array([t])), int(t))\n' % (a, str(a), texts))
    if sec == 'int_fmt_batch':
        return head + ('vs = np.array(%r, dtype=np.int64)\nprint(ints_to_strings(vs))\n'
                       'print([ints_to_strings(vs[i:i+1]) for i in range(len(vs))])  # must agree row by row\n' % (list(a),))
    if sec == 'int_parse_batch':
        return head + ('ts = %r\nprint(str_to_int(as_encoded_array(ts)))\n'
                       'print([str_to_int(as_encoded_array([t])) for t in ts], [int(t) for t in ts])\n' % (list(a),))
    if sec == 'int_lists':
        return head + ('from npstructures import RaggedArray\nrows = %r\n'
                       'ra = RaggedArray(np.array([v for r in rows for v in r], dtype=np.int64), [len(r) for r in rows])\n'
                       'print(int_lists_to_strings(ra))\nprint([",".join(map(str, r)) for r in rows])\n' % (a,))
    if sec == 'float_single':
        return head + 't = %r\nprint(repr(float(str_to_float(as_encoded_array([t]))[0])), repr(float(t)))\n' % (a,)
    if sec == 'float_parse_batch':
        return head + ('ts = %r\nprint(str_to_float(as_encoded_array(ts)).tolist())\n'
                       'print([float(str_to_float(as_encoded_array([t]))[0]) for t in ts])  # must agree row by row\n' % (list(a),))
    if sec == 'float_rt':
        return head + ('x = float.fromhex(%r)   # %r\ns = float_to_strings(np.array([x]))\nprint(s)\n'
                       'back = float(str_to_float(s)[0])\nprint(repr(back), repr(x), back == x)\n' % (a, float.fromhex(a)))
    if sec == 'float_rt_batch':
        return head + ('xs = np.array([float.fromhex(h) for h in %r])\nprint(float_to_strings(xs))\n'
                       'print(str_to_float(float_to_strings(xs)).tolist(), xs.tolist())\n' % (list(a),))
    return ('# section %s: see checks/c18_numbers.py case_%s; arguments:\n# %r\n'
            'from checks import c18_numbers as c\nprint(c.replay_case(%r))\n' % (sec, sec, a, case))
