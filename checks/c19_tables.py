"""C19 — tables of entries behave like column-aligned NumPy records.

Shape B (explicit-state search over operation histories) plus a shape A part for
the construction clause.

Roots: every table class found in bionumpy.datatypes at run time and dynamically
made classes (bnpdataclass decorator, make_dataclass, extend) covering the column
kinds {str, SequenceID, int, float, bool, Optional[int], Optional[float],
List[int], List[str], alphabet / numeric / genotype encodings, nested table},
with 0..N rows built by the constructor, from_entry_tuples, from_dict, empty().

A state is the HISTORY that reaches it, replayed on fresh objects.  After every
transition the oracle is evaluated against the list-of-tuples model
(models/tablemodel.py); states are merged on (model rows, representation
signature of every column) and the observation operations (scalar indexing,
iteration, tolist, todict, topandas) are applied to every new state.
"""
import dataclasses
import inspect
import itertools
import typing
from typing import List, Optional, Union

import numpy as np

from engine import observe
from engine.result import Result, tb_string, raising_frame
from models import tablemodel as tm

PROPERTY = 'C19'
LEVEL = 'model_checking'
TECHNIQUE = ('explicit-state BFS over operation histories of real tables against a list-of-tuples model, replay on fresh objects; '
             'exhaustive product enumeration for the construction clause')
RULE = ('roots = (table type x row count 0..N x construction route {constructor, from_entry_tuples, from_dict, empty()}); '
        'histories = every sequence up to the depth bound of {9 index forms (slices, step, reverse, 3 boolean masks, integer '
        'list with repeats, empty list), 7 concatenations (self, root on either side, a view, reversed, empty on either side), '
        'sort_by(one field per column kind), bnp.replace(one field per kind, as plain list and as typed array), add_fields '
        '(inferred int/str, typed DNA), from_entry_tuples(tolist()), from_dict(todict()), from_data_frame(topandas()), '
        'astype(base class, not judged)}; after every transition: equal column lengths, declared column types after '
        'constructing operations, rows == model, operands unchanged; states merged on (model rows, per-column representation '
        'signature); every new state is observed with len, t[i] for first/middle/last/-1/np.int64, iteration, tolist, todict, '
        'topandas.  Construction clause: every (declared kind x wrongly typed argument) pair through constructor and replace. '
        'Non-trivial = a history of length >= 2 that reached a new non-empty state, or a construction case that did not raise. '
        'States are counted per explored root (and per part of a root whose first operations are split over several shards)')
ASSUMPTIONS = [
    'values are drawn from fixed per-kind menus (models/tablemodel.py); tables larger than the row bound are reached only by concatenation',
    'value-level comparison (1 == 1.0 == True; a stored int array in a float column is accepted, a float/str array in an int column is not)',
    'sort_by: any permutation of the operand rows whose key column is non-decreasing (by letter or by code) is accepted; '
    'NumPy "no implementation found" is unsupported, not a failure',
    'rows handed to from_entry_tuples are the shallow field tuples of the entries returned by tolist()',
    'astype is explored as a transition but not judged (the statement does not name it)',
    'genotype-matrix columns (VCF genotype encodings) are built from tab-terminated text rows; their cell value is the tuple of per-sample genotype texts',
    'add_fields without a type map on a table with no rows (type cannot be inferred) may raise',
    'state merging reads ragged shape classes and NumPy flags best-effort; a missing attribute only makes the key finer',
]
EXPLANATION = ('explicit-state search over operation histories on real table objects with a list-of-tuples model stepped in lock-step, '
               'plus exhaustive enumeration of wrongly typed constructor arguments')
MANIFEST_TEXT = ('Explicit-state exploration of operation histories over indexing (slices, step, reverse, masks, integer lists), '
                 'np.concatenate (self, root, view, reversed, empty), sort_by, bnp.replace, add_fields and the row/dict/pandas round trips '
                 'on every table class of bionumpy.datatypes and on dynamically made classes covering all column kinds (str, SequenceID, '
                 'int, float, bool, Optional, List[int], List[str], alphabet/numeric/genotype encodings, nested table), built with 0..3 '
                 '(quick) / 0..4 (thorough) rows by constructor, from_entry_tuples, from_dict and empty(). Quick: depth 2 for every type, '
                 'depth 3 for the one-column table of every basic kind and two multi-column types, depth 1 from every small root. '
                 'Thorough: depth 3 for 15 kind-rich types and every one-column table, depth 4 for five one-column tables (one per column '
                 'representation), depth 2 for the remaining datatypes and from empty()/4-row roots. After every transition the columns must '
                 'have equal length, the rows must equal a list-of-tuples model and the operands must be unchanged; every new (rows, '
                 'representation) state is observed through t[i], iteration, tolist, todict and topandas; states are merged on (model rows, '
                 'per-column representation signature). Every wrongly typed constructor argument of a fixed menu (12 declared kinds x 20 '
                 'arguments x constructor/replace) must be converted to the declared type or rejected.')
MANIFEST_NOTE = ('Trusted: NumPy, pandas, CPython, engine/observe.py, models/tablemodel.py. Values come from fixed menus; depth and '
                 'row count bound the space; third-party npstructures scalar-index breakage is given its own signature.')

# ====================================================================== kinds <-> declared types
_TYPES = {}


def _bnp():
    """lazy imports + the dynamic classes (built once per process)"""
    if _TYPES:
        return _TYPES
    import bionumpy as bnp
    import bionumpy.datatypes as dt
    from bionumpy.bnpdataclass import bnpdataclass, make_dataclass, BNPDataClass
    from bionumpy.typing import SequenceID
    from bionumpy.encodings import (DNAEncoding, StrandEncoding, QualityEncoding, CigarOpEncoding, CigarEncoding, BamEncoding)
    from bionumpy.encodings.vcf_encoding import PhasedGenotypeRowEncoding, GenotypeRowEncoding, PhasedHaplotypeRowEncoding
    from bionumpy.encoded_array import EncodedArray, EncodedRaggedArray, BaseEncoding, as_encoded_array
    from bionumpy.string_array import StringArray, as_string_array
    from npstructures import RaggedArray
    T = _TYPES
    T.update(bnp=bnp, dt=dt, bnpdataclass=bnpdataclass, make_dataclass=make_dataclass, BNPDataClass=BNPDataClass,
             EncodedArray=EncodedArray, EncodedRaggedArray=EncodedRaggedArray, BaseEncoding=BaseEncoding,
             as_encoded_array=as_encoded_array, StringArray=StringArray, as_string_array=as_string_array, RaggedArray=RaggedArray)
    T['decl'] = {
        'str': str, 'id': SequenceID, 'int': int, 'float': float, 'bool': bool, 'optint': Optional[int],
        'optfloat': Optional[float], 'intlist': List[int], 'strlist': List[str], 'dna': DNAEncoding, 'strand': StrandEncoding,
        'qual': QualityEncoding, 'cigar_op': CigarOpEncoding, 'cigar_len': CigarEncoding, 'bamseq': BamEncoding,
        'gt': GenotypeRowEncoding, 'pgt': PhasedGenotypeRowEncoding, 'hap': PhasedHaplotypeRowEncoding,
        'unionstr': Union[BNPDataClass, str],
    }

    # ---- dynamic classes -------------------------------------------------
    @bnpdataclass
    class Inner:
        a: int
        s: str

    @bnpdataclass
    class DynAll:
        s: str
        i: SequenceID
        n: int
        f: float
        b: bool
        o: Optional[int]
        l: List[int]
        d: DNAEncoding
        st: StrandEncoding

    @bnpdataclass
    class DynNested:
        k: SequenceID
        t: Inner
        n: int

    dyn = {'Inner': Inner, 'DynAll': DynAll, 'DynNested': DynNested,
           'DynMade': make_dataclass([('name', str), ('n', int), ('x', float)], 'DynMade'),
           'DynOptFloat': make_dataclass([('k', SequenceID), ('v', Optional[float]), ('w', bool)], 'DynOptFloat'),
           'DynExtended': dt.Interval.extend((('sequence', DNAEncoding), ('s1', int)))}
    for k in SINGLE_KINDS:
        dyn['K_' + k] = make_dataclass([('k', T['decl'][k])], 'K_' + k)
    T['dyn'] = dyn
    return T


SINGLE_KINDS = ['str', 'id', 'int', 'float', 'bool', 'optint', 'intlist', 'dna', 'strand', 'qual']
NUMERIC_LIST_KINDS = ('intlist', 'qual', 'cigar_len')
TEXT_KINDS = ('str', 'unionstr', 'dna', 'cigar_op', 'bamseq')
GT_KINDS = ('gt', 'pgt', 'hap')


def is_table_kind(k):
    return isinstance(k, (tuple, list))


def kind_name(k):
    return 'table' if is_table_kind(k) else k


def feat_kind(k):
    """coarse column class used in failure features (keeps the number of failure groups small)"""
    k = kind_name(k)
    if k in TEXT_KINDS:
        return 'ragged-text'
    if k in NUMERIC_LIST_KINDS:
        return 'ragged-num'
    if k in GT_KINDS:
        return 'genotype-matrix'
    if k in ('int', 'optint'):
        return 'int'
    if k in ('float', 'optfloat'):
        return 'float'
    return k


_SPECS = {}


def specs():
    """name -> {'fields': [(name, kind)], 'cls': class, 'origin': 'datatypes'|'dynamic', 'astype': base spec name or None}"""
    if _SPECS:
        return _SPECS
    T = _bnp()
    classes = {}
    for name in sorted(dir(T['dt'])):
        c = getattr(T['dt'], name)
        if inspect.isclass(c) and issubclass(c, T['BNPDataClass']) and c is not T['BNPDataClass'] and dataclasses.is_dataclass(c):
            classes[name] = (c, 'datatypes')
    for name, c in T['dyn'].items():
        classes[name] = (c, 'dynamic')
    by_cls = {}
    for name, (c, origin) in classes.items():
        by_cls.setdefault(c, name)
    for name, (c, origin) in classes.items():
        fields = []
        for f in dataclasses.fields(c):
            fields.append((f.name, _kind_of(f.type, by_cls)))
        _SPECS[name] = {'fields': fields, 'cls': c, 'origin': origin, 'astype': None}
    for name, s in _SPECS.items():
        # nearest proper base that is itself a table with fewer fields
        for base in s['cls'].__mro__[1:]:
            bn = by_cls.get(base)
            if bn is not None and bn != name and len(_SPECS[bn]['fields']) < len(s['fields']):
                s['astype'] = bn
                break
    return _SPECS


def _kind_of(ftype, by_cls):
    T = _bnp()
    for k, t in T['decl'].items():
        if ftype == t or ftype is t:
            return k
    if inspect.isclass(ftype) and issubclass(ftype, T['BNPDataClass']):
        return ('table', by_cls[ftype])
    raise AssertionError('C19 harness: column type %r is not modelled' % (ftype,))


def decl_type(kind):
    T = _bnp()
    if is_table_kind(kind):
        return specs()[kind[1]]['cls']
    return T['decl'][kind]


def type_names(origin=None):
    return [n for n, s in specs().items() if (origin is None or s['origin'] == origin) and n != 'Inner']


# ====================================================================== presentations of model values
def py_cell(kind, v):
    """the plain Python value a caller writes for this cell"""
    if is_table_kind(kind):
        sub = specs()[kind[1]]
        return sub['cls'].dataclass(*[py_cell(k, x) for (_, k), x in zip(sub['fields'], v)])
    if kind in NUMERIC_LIST_KINDS or kind == 'strlist':
        return list(v)
    if kind in GT_KINDS:
        return ''.join(g + '\t' for g in v)
    if kind in ('float', 'optfloat'):
        return float('nan') if v == 'nan' else float(v)
    if kind == 'bool':
        return bool(v)
    return v


def py_column(kind, values):
    """constructor argument for a whole column, as plain as the library allows"""
    T = _bnp()
    if is_table_kind(kind):
        sub = specs()[kind[1]]
        return build_ctor(sub, [tuple(v) for v in values])
    if kind in GT_KINDS:
        # what the VCF reader itself builds: the row encoding's code matrix wrapped in an EncodedArray (handing the
        # constructor base-encoded text rows is judged separately, in the construction clause)
        enc = T['decl'][kind]
        if not values:
            return T['EncodedArray'](np.zeros((0, 1), dtype=np.int8), enc)
        return T['EncodedArray'](enc.encode(T['as_encoded_array']([py_cell(kind, v) for v in values])), enc)
    return [py_cell(kind, v) for v in values]


def typed_column(kind, values):
    """the column as an array of the declared type (used by replace ... 'array')"""
    T = _bnp()
    if not values or is_table_kind(kind) or kind in GT_KINDS:
        return py_column(kind, values)
    if kind in ('int', 'optint'):
        return np.array(values, dtype=np.int64)
    if kind in ('float', 'optfloat'):
        return np.array([py_cell(kind, v) for v in values], dtype=float)
    if kind == 'bool':
        return np.array(values, dtype=bool)
    if kind == 'id':
        return T['as_string_array'](list(values))
    if kind in ('str', 'unionstr'):
        return T['as_encoded_array'](list(values))
    if kind == 'strand':
        return T['as_encoded_array'](''.join(values), T['decl'][kind])
    if kind in ('dna', 'cigar_op', 'bamseq'):
        return T['as_encoded_array'](list(values), T['decl'][kind])
    if kind in NUMERIC_LIST_KINDS:
        flat = np.array([x for v in values for x in v], dtype=np.int64)
        return T['RaggedArray'](flat, [len(v) for v in values])
    if kind == 'strlist':
        return T['as_string_array']([list(v) for v in values])
    raise ValueError(kind)


def build_ctor(spec, rows):
    cols = {}
    for j, (name, kind) in enumerate(spec['fields']):
        cols[name] = py_column(kind, [r[j] for r in rows])
    return spec['cls'](**cols)


def build_root(spec, rows, route):
    cls = spec['cls']
    if route == 'ctor':
        return build_ctor(spec, rows)
    if route == 'empty':
        assert not rows
        return cls.empty()
    if route == 'tuples':
        return cls.from_entry_tuples([tuple(py_cell(k, v) for (_, k), v in zip(spec['fields'], r)) for r in rows])
    if route == 'dict':
        d = {}
        kinds = [k for _, k in spec['fields']]
        names = [n for n, _ in spec['fields']]
        for key, path in tm.flat_keys(names, kinds, specs()):
            d[key] = py_column(_kind_at(spec, path), [tm.pick(r, path) for r in rows])
        return cls.from_dict(d)
    raise ValueError(route)


def _kind_at(spec, path):
    k = spec['fields'][path[0]][1]
    for p in path[1:]:
        k = specs()[k[1]]['fields'][p][1]
    return k


# ====================================================================== observers (library value -> model value)
class Unobservable(Exception):
    """the library stored something that is not a column at all (reported as a failure by the caller)"""


def gt_decode(kind, codes):
    """independent decoder of the three genotype row encodings: list of int codes -> tuple of genotype texts"""
    codes = [int(c) % 256 for c in codes]
    if kind == 'gt':
        a = '012.|/'
        return tuple(a[c // 36] + a[(c // 6) % 6] + a[c % 6] for c in codes)
    if kind == 'pgt':
        return tuple(['0|0', '0|1', '1|0', '1|1'][c] if c < 4 else '?%d' % c for c in codes)
    a = '01234.'
    if len(codes) % 2:
        return ('?odd',)
    return tuple((a[codes[i]] if codes[i] < 6 else '?') + '|' + (a[codes[i + 1]] if codes[i + 1] < 6 else '?')
                 for i in range(0, len(codes), 2))


def _unshared(col):
    """RaggedArray.ravel() makes a non-contiguous (view-shaped) array contiguous IN PLACE, i.e. reading a column through
    engine.observe would change the hidden representation the next operation starts from.  A view-shaped ragged array
    is therefore read through a fresh wrapper of the same buffer and shape (the wrapper is what gets flattened)."""
    T = _bnp()
    if isinstance(col, T['RaggedArray']) and not getattr(col, 'is_contigous', True):
        try:
            return col._change_view(col._shape)
        except Exception:
            return col
    return col


def column_values(kind, col):
    """list of model values, one per row"""
    T = _bnp()
    if is_table_kind(kind):
        if not isinstance(col, T['BNPDataClass']):
            raise Unobservable('nested-table column is a %s' % type(col).__name__)
        return obs_rows(col, specs()[kind[1]]['fields'])
    if not isinstance(col, (np.ndarray, T['StringArray'], T['EncodedArray'], T['EncodedRaggedArray'], T['RaggedArray'])):
        raise Unobservable('column is a %s' % type(col).__name__)
    if kind in GT_KINDS and isinstance(col, (T['EncodedArray'], np.ndarray)):
        raw = np.asarray(col.raw()) if isinstance(col, T['EncodedArray']) else col
        if raw.ndim != 2:
            raise Unobservable('genotype column with ndim %d' % raw.ndim)
        return [gt_decode(kind, r) for r in raw.tolist()]
    if isinstance(col, T['StringArray']):
        raw = np.asarray(col.raw())
        if raw.ndim == 2:
            return [tuple(b.decode('latin1') for b in r) for r in raw.tolist()]
        if raw.ndim != 1:
            raise Unobservable('string column with ndim %d' % raw.ndim)
    if isinstance(col, np.ndarray) and col.ndim == 0:
        raise Unobservable('column is a 0-dimensional array')
    vals = observe.column(_unshared(col))
    return [tm.norm(v) for v in vals]


def obs_rows(t, fields):
    """table -> list of row tuples; raises ColumnLengthMismatch / MalformedLibraryValue / Unobservable (all judged)"""
    cols = [column_values(k, getattr(t, n)) for n, k in fields]
    n = len(t)
    for (name, _), c in zip(fields, cols):
        if len(c) != n:
            raise observe.ColumnLengthMismatch('column %s has %d rows, len(table) is %d' % (name, len(c), n))
    return [tuple(c[i] for c in cols) for i in range(n)]


def _text_of(enc_array):
    codes = np.asarray(observe.decode_flat(enc_array), dtype=np.uint8)
    return bytes(codes.ravel()).decode('latin1')


def obs_entry_value(kind, v):
    """value of one field of the single entry returned by t[i]"""
    T = _bnp()
    if is_table_kind(kind):
        sub = specs()[kind[1]]
        if not dataclasses.is_dataclass(v):
            return ('not-an-entry', type(v).__name__)
        return tuple(obs_entry_value(k, getattr(v, n, ('missing',))) for n, k in sub['fields'])
    if kind in GT_KINDS:
        if isinstance(v, T['EncodedArray']):
            return gt_decode(kind, np.asarray(v.raw()).ravel().tolist())
        if isinstance(v, np.ndarray) and v.ndim == 1 and v.dtype.kind in 'iu':
            return gt_decode(kind, v.tolist())
        return ('not-encoded', type(v).__name__)
    if kind in TEXT_KINDS or kind == 'strand':
        if isinstance(v, T['EncodedRaggedArray']) or not isinstance(v, T['EncodedArray']):
            return ('not-a-string', type(v).__name__)
        if np.asarray(v.raw()).ndim > 1:
            return ('not-a-string', 'ndim %d' % np.asarray(v.raw()).ndim)
        return _text_of(v)
    if kind == 'id':
        if isinstance(v, T['StringArray']):
            x = np.asarray(v.raw()).tolist()
            return x.decode('latin1') if isinstance(x, bytes) else ('not-a-scalar', repr(x)[:40])
        if isinstance(v, T['EncodedArray']):
            return _text_of(v)
        return ('not-a-string', type(v).__name__)
    if kind == 'strlist':
        if isinstance(v, T['StringArray']):
            x = np.asarray(v.raw()).tolist()
            return tuple(b.decode('latin1') for b in x) if isinstance(x, list) else ('not-a-list', repr(x)[:40])
        return ('not-a-string-array', type(v).__name__)
    if kind in NUMERIC_LIST_KINDS:
        if isinstance(v, T['RaggedArray']):
            # the single-entry conversion wraps an empty row into an empty ragged array: value-level still "no elements"
            return () if len(v) == 0 else ('not-a-row', type(v).__name__)
        a = np.asarray(v)
        if a.ndim != 1:
            return ('not-a-row', type(v).__name__)
        return tm.norm(a.tolist())
    a = np.asarray(v)
    if a.ndim != 0:
        return ('not-a-scalar', a.shape)
    return tm.norm(a.tolist())


def obs_entry(e, fields):
    return tuple(obs_entry_value(k, getattr(e, n, ('missing',))) for n, k in fields)


def _py(v):
    if dataclasses.is_dataclass(v) and not isinstance(v, type):
        return tuple(_py(getattr(v, f.name)) for f in dataclasses.fields(v))
    if isinstance(v, np.ndarray):
        return _py(v.tolist())
    if isinstance(v, (list, tuple)):
        return tuple(_py(x) for x in v)
    if isinstance(v, np.generic):
        return _py(v.item())
    if isinstance(v, bytes):
        return v.decode('latin1')
    if v is None or (hasattr(v, '__class__') and type(v).__name__ in ('NAType', 'NaTType')):
        return 'NA'
    return tm.norm(v)


def obs_py_value(kind, v):
    """value of a field of an entry of tolist() / a cell of todict() / topandas(): plain Python values"""
    if is_table_kind(kind):
        sub = specs()[kind[1]]
        if not dataclasses.is_dataclass(v):
            return ('not-an-entry', type(v).__name__)
        return tuple(obs_py_value(k, getattr(v, n, ('missing',))) for n, k in sub['fields'])
    x = _py(v)
    if kind in GT_KINDS and isinstance(x, str):
        return tuple(g for g in x.split('\t') if g)
    if kind in GT_KINDS and isinstance(x, tuple) and all(isinstance(c, int) for c in x):
        return gt_decode(kind, x)
    return x


def obs_py_entry(e, fields):
    return tuple(obs_py_value(k, getattr(e, n, ('missing',))) for n, k in fields)


def col_len(col):
    return len(col)


# ====================================================================== declared-type clause
def _same_encoding(a, b):
    return a is b or a == b


def type_ok(kind, col):
    """does the stored column have the declared type (value level: safe numeric widening accepted)?"""
    T = _bnp()
    enc = (T['EncodedArray'], T['EncodedRaggedArray'])
    if is_table_kind(kind):
        # any table object is accepted (the lazy VCF reader fills a nested INFO column with a class of its own)
        return isinstance(col, T['BNPDataClass'])
    if kind in ('int', 'optint', 'bool', 'float', 'optfloat'):
        if not isinstance(col, np.ndarray) or col.ndim != 1:
            return False
        if col.size == 0:
            return True
        return col.dtype.kind in ('fiub' if kind in ('float', 'optfloat') else 'iub')
    if kind in ('str', 'unionstr'):
        # a `str` column is text in any character encoding: base (ASCII) or a one-to-one alphabet encoding (the documented way
        # to re-encode a sequence column is bnp.replace(entry, sequence=as_encoded_array(..., DNAEncoding)))
        if not isinstance(col, enc):
            return False
        if _same_encoding(col.encoding, T['BaseEncoding']):
            return True
        one = getattr(col.encoding, 'is_one_to_one_encoding', None)
        return bool(one and one())
    if kind == 'id':
        return isinstance(col, T['StringArray']) or (isinstance(col, enc) and _same_encoding(col.encoding, T['BaseEncoding']))
    if kind == 'strlist':
        return isinstance(col, T['StringArray'])
    if kind in NUMERIC_LIST_KINDS:
        if isinstance(col, enc):
            return kind != 'intlist' and _same_encoding(col.encoding, decl_type(kind))
        if isinstance(col, T['RaggedArray']):
            return col.size == 0 or col.dtype.kind in 'iub'
        return isinstance(col, np.ndarray) and col.ndim == 2 and (col.size == 0 or col.dtype.kind in 'iub')
    if kind in GT_KINDS or kind in ('dna', 'strand', 'cigar_op', 'bamseq'):
        return isinstance(col, enc) and _same_encoding(col.encoding, decl_type(kind))
    raise ValueError(kind)


def describe(col):
    try:
        d = type(col).__name__
        if hasattr(col, 'dtype'):
            d += '[%s]' % (col.dtype,)
        if hasattr(col, 'encoding') and col.encoding is not None:
            d += '<%r>' % (col.encoding,)
        return d
    except Exception:
        return type(col).__name__


def repr_sig(t, fields):
    """best-effort representation signature of every column (DESIGN 2: what hidden state the next operation starts from)"""
    T = _bnp()
    out = []
    for n, k in fields:
        c = getattr(t, n, None)
        try:
            if is_table_kind(k) and isinstance(c, T['BNPDataClass']):
                out.append(('table', repr_sig(c, specs()[k[1]]['fields'])))
            elif isinstance(c, T['RaggedArray']):
                out.append((type(c).__name__, type(getattr(c, '_shape', None)).__name__, str(c.dtype)))
            elif isinstance(c, T['StringArray']):
                r = c.raw()
                out.append(('StringArray', str(r.dtype), bool(r.flags['C_CONTIGUOUS']), bool(r.flags['OWNDATA'])))
            elif isinstance(c, T['EncodedArray']):
                r = np.asarray(c.raw())
                out.append(('EncodedArray', r.ndim, bool(r.flags['C_CONTIGUOUS']), bool(r.flags['OWNDATA'])))
            elif isinstance(c, np.ndarray):
                out.append(('ndarray', str(c.dtype), c.ndim, bool(c.flags['C_CONTIGUOUS']), bool(c.flags['OWNDATA'])))
            else:
                out.append((type(c).__name__,))
        except Exception:
            out.append((type(c).__name__, '?'))
    return tuple(out)


def ragged_view_kinds(t, fields):
    T = _bnp()
    out = []
    for n, k in fields:
        c = getattr(t, n, None)
        if isinstance(c, T['RaggedArray']) and type(getattr(c, '_shape', None)).__name__.startswith('RaggedView'):
            out.append(kind_name(k))
        elif is_table_kind(k) and isinstance(c, T['BNPDataClass']):
            out.extend(ragged_view_kinds(c, specs()[k[1]]['fields']))
    return sorted(set(out))


# ====================================================================== operations
CAT_OPS = [('cat', 'self'), ('cat', 'root_r'), ('cat', 'root_l'), ('cat', 'view'), ('cat', 'rev'), ('cat', 'empty_r'), ('cat', 'empty_l')]
RT_OPS = [('rt', 'tuples'), ('rt', 'dict'), ('rt', 'pandas')]
ADD_OPS = [('add', 'int'), ('add', 'str'), ('add', 'dna'), ('add', 'same_i'), ('add', 'same_s')]
ADD_FIELDS = {'int': ('extra_i', 'int'), 'str': ('extra_s', 'str'), 'dna': ('extra_d', 'dna'),
              # the same new column name with two different types, on the same table classes, in one process: classes
              # built lazily by add_fields/extend must not be shared between differently typed calls
              'same_i': ('extra_x', 'int'), 'same_s': ('extra_x', 'str')}
CONSTRUCTING = ('replace', 'add', 'rt')
ARRAY_REPLACE_KINDS = ('str', 'id', 'int', 'intlist')   # kinds whose typed array differs materially from a plain list


def op_alphabet(spec):
    ops = [tuple(o) for o in tm.INDEX_OPS] + list(CAT_OPS)
    seen = set()
    firsts = []
    for name, kind in spec['fields']:
        kn = kind_name(kind)
        if kn not in seen:
            seen.add(kn)
            firsts.append((name, kind))
    # sort_by is offered for every kind except the genotype matrices (a matrix has no row order to sort by; NumPy answers
    # "no implementation" for the other non-scalar kinds, which is counted as unsupported)
    ops += [('sort', name) for name, kind in firsts if kind_name(kind) not in GT_KINDS]
    for name, kind in firsts:
        ops.append(('replace', name, 'list'))
        if kind_name(kind) in ARRAY_REPLACE_KINDS:
            ops.append(('replace', name, 'array'))
    ops += ADD_OPS + RT_OPS
    if spec['astype']:
        ops.append(('astype', spec['astype']))
    return ops


def index_object(plan):
    if plan[0] == 'slice':
        return slice(plan[1], plan[2], plan[3])
    if plan[0] == 'mask':
        return np.array(plan[1], dtype=bool)
    return np.array(plan[1], dtype=int)


class ImplRaised(Exception):
    def __init__(self, exc, stage):
        self.exc = exc
        self.stage = stage


def is_unsupported(e):
    return isinstance(e, TypeError) and 'no implementation found' in str(e)


class Step:
    """everything one transition needs: the operand tables and model, produces the result table and model"""

    def __init__(self, fields, root, root_rows):
        self.fields = fields          # [(name, kind)] of the current table
        self.root = root
        self.root_rows = root_rows


def enabled(op, model, root_fields):
    k = op[0]
    if k in ('sort', 'replace'):
        return op[1] in model.fields
    if k == 'add':
        return ADD_FIELDS[op[1]][0] not in model.fields
    if k == 'cat' and op[1] in ('root_r', 'root_l'):
        return model.fields == [n for n, _ in root_fields]
    if k == 'astype':
        base = specs()[op[1]]['fields']
        return len(base) < len(model.fields) and all(n in model.fields for n, _ in base) and \
            model.fields[:len(base)] == [n for n, _ in base] and len(model.fields) == len(root_fields)
    return True


def apply_impl(t, root, op, model):
    """the real call(s); returns (result table, list of (label, operand table, operand model rows, operand fields), extra inputs)"""
    T = _bnp()
    fields = list(zip(model.fields, model.kinds))
    k = op[0]
    n = len(model.rows)
    operands = [('operand', t, list(model.rows), fields)]
    if k in ('sl', 'step2', 'rev', 'mask', 'fancy'):
        return t[index_object(tm.index_plan(op, n))], operands, 1
    if k == 'cat':
        which = op[1]
        if which == 'self':
            return np.concatenate([t, t]), operands, 1
        if which in ('root_r', 'root_l'):
            operands.append(('root', root[0], root[1], fields))
            return np.concatenate([t, root[0]] if which == 'root_r' else [root[0], t]), operands, 1
        if which == 'view':
            v = t[1:]
            return np.concatenate([t, v]), operands + [('view', v, model.rows[1:], fields)], 2
        if which == 'rev':
            v = t[::-1]
            return np.concatenate([v, t]), operands + [('reversed', v, model.rows[::-1], fields)], 2
        e = type(t).empty()
        return np.concatenate([t, e] if which == 'empty_r' else [e, t]), operands + [('empty', e, [], fields)], 2
    if k == 'sort':
        return t.sort_by(op[1]), operands, 1
    if k == 'replace':
        j = model.fields.index(op[1])
        kind = model.kinds[j]
        vals = [tm.replacement_cell(kind, i, j, specs()) for i in range(n)]
        col = py_column(kind, vals) if op[2] == 'list' else typed_column(kind, vals)
        return T['bnp'].replace(t, **{op[1]: col}), operands, 1
    if k == 'add':
        name, kind = ADD_FIELDS[op[1]]
        vals = [tm.cell(kind, i, 40, specs()) for i in range(n)]
        tmap = {name: decl_type(kind)} if op[1] == 'dna' else None
        return t.add_fields({name: py_column(kind, vals)}, field_type_map=tmap), operands, 1
    if k == 'rt':
        cls = type(t)
        if op[1] == 'tuples':
            entries = t.tolist()
            tuples = [tuple(getattr(e, f.name) for f in dataclasses.fields(e)) for e in entries]
            return cls.from_entry_tuples(tuples), operands, 2
        if op[1] == 'dict':
            return cls.from_dict(t.todict()), operands, 2
        return cls.from_data_frame(t.topandas()), operands, 2
    if k == 'astype':
        return t.astype(specs()[op[1]]['cls']), operands, 1
    raise ValueError(op)


def apply_model(op, model, root_rows, observed_rows=None):
    """update the model in place; for 'sort' returns the verdict on the observed rows and adopts their order"""
    k = op[0]
    n = len(model.rows)
    if k in ('sl', 'step2', 'rev', 'mask', 'fancy'):
        model.index(op)
    elif k == 'cat':
        w = op[1]
        r = list(model.rows)
        model.concat({'self': [r, r], 'root_r': [r, root_rows], 'root_l': [root_rows, r], 'view': [r, r[1:]], 'rev': [r[::-1], r],
                      'empty_r': [r, []], 'empty_l': [[], r]}[w])
    elif k == 'sort':
        j = model.fields.index(op[1])
        verdict = tm.sort_verdict(model.rows, observed_rows, j, kind_name(model.kinds[j]))
        if verdict is None:
            model.rows = [tuple(r) for r in observed_rows]
        return verdict
    elif k == 'replace':
        j = model.fields.index(op[1])
        model.replace(j, [tm.replacement_cell(model.kinds[j], i, j, specs()) for i in range(n)])
    elif k == 'add':
        name, kind = ADD_FIELDS[op[1]]
        model.add_field(name, kind, [tm.cell(kind, i, 40, specs()) for i in range(n)])
    elif k == 'rt':
        pass
    elif k == 'astype':
        model.keep_fields([nm for nm, _ in specs()[op[1]]['fields']])
    else:
        raise ValueError(op)
    return None


# ====================================================================== judging
def _exc_features(e):
    return {'exc': type(e).__name__, 'frame': '%s:%s' % raising_frame(e)}


def stored_class(col):
    """coarse class of what a column holds (used to name what the constructor was given and kept)"""
    T = _bnp()
    if isinstance(col, (list, tuple)):
        return 'list'
    if isinstance(col, (T['EncodedArray'], T['EncodedRaggedArray'])):
        return 'encoded'
    if isinstance(col, T['StringArray']):
        return 'string-array'
    if isinstance(col, T['BNPDataClass']):
        return 'table'
    dt = getattr(col, 'dtype', None)
    if dt is None:
        return 'object'
    cls = {'f': 'float', 'i': 'int', 'u': 'int', 'b': 'bool', 'U': 'text', 'S': 'text', 'O': 'object'}.get(dt.kind, 'other')
    if isinstance(col, T['RaggedArray']):
        return 'ragged-' + cls
    if getattr(col, 'ndim', 1) == 0:
        return 'scalar-' + cls
    return cls


def type_features(kind, col):
    """{'declared': class of the declared column type, 'given': class of what was stored instead}"""
    d = feat_kind(kind)
    st = stored_class(col)
    if d in ('int', 'float', 'bool'):
        # Optional[...] columns are a class of their own: the repository's own tests build Bed6 tables with score='.'
        return {'declared': 'optional-numeric' if kind_name(kind) in ('optint', 'optfloat') else 'numeric',
                'given': 'float' if st == 'float' else 'non-numeric'}
    if d == 'ragged-num':
        return {'declared': d, 'given': 'float' if st in ('float', 'ragged-float') else 'flat' if st in ('int', 'bool') else 'non-numeric'}
    if d == 'table':
        return {'declared': d, 'given': 'not-a-table'}
    return {'declared': d, 'given': st}


def check_table(t, fields, expected_rows, constructing):
    """constructing: False, True (every column was supplied by the caller) or the list of supplied field names.
    -> (None, rows) or ((clause, kinds, expected, observed), None)"""
    try:
        n = len(t)
        lens = [col_len(getattr(t, name)) for name, _ in fields]
    except Exception as e:
        return ('columns-unequal-length', '?', 'len() of the table and of every column', 'raises %s: %s' % (type(e).__name__, str(e)[:100])), None
    if any(l != n for l in lens):
        bad = sorted({feat_kind(k) for (_, k), l in zip(fields, lens) if l != lens[0]})
        return ('columns-unequal-length', '+'.join(bad) or '?', n, lens), None
    if constructing:
        bad = [(name, k) for name, k in fields if (constructing is True or name in constructing) and not type_ok(k, getattr(t, name))]
        if bad:
            name, k = bad[0]
            return ('construction-stores-undeclared-type', type_features(k, getattr(t, name)),
                    {name: kind_name(k) for name, k in bad}, {name: describe(getattr(t, name)) for name, _ in bad}), None
    try:
        rows = obs_rows(t, fields)
    except observe.ColumnLengthMismatch as e:
        return ('columns-unequal-length', '?', len(expected_rows), str(e)), None
    except (observe.MalformedLibraryValue, Unobservable) as e:
        return ('malformed-column', '?', expected_rows, str(e)), None
    if expected_rows is not None and rows != expected_rows:
        d = tm.differing_columns(expected_rows, rows)
        kinds = 'row-count' if d is None else '+'.join(sorted({feat_kind(fields[j][1]) for j in d}))
        return ('rows-differ', kinds, expected_rows, rows), None
    return None, rows


CLAUSE_BY_OP = {'sl': 'index-result-differs', 'step2': 'index-result-differs', 'rev': 'index-result-differs', 'mask': 'index-result-differs',
                'fancy': 'index-result-differs', 'cat': 'concatenate-result-differs', 'sort': 'sort-result-differs',
                'replace': 'replace-result-differs', 'add': 'add_fields-result-differs', 'rt': 'roundtrip-not-identity',
                'astype': 'astype-result-differs'}


def op_label(op):
    k = op[0]
    if k in ('sl', 'step2', 'rev'):
        return 'slice'
    if k == 'cat':
        return 'cat:' + op[1].split('_')[0]
    if k in ('rt', 'mask', 'fancy'):
        return '%s:%s' % (k, op[1])
    if k == 'add':
        return 'add:' + op[1]
    return k


def transition(t, root, op, model, isolate=True):
    """Apply op to the implementation and the model and judge it.
    -> dict(status='ok'|'fail'|'unsupported'|'notjudged', t=new table, fail=(kind, features, expected, observed, tb), calls=int)
    `root` = (root table, root rows).  `model` is updated in place when the step is ok."""
    fields_before = list(zip(model.fields, model.kinds))
    rows0 = len(model.rows) == 0
    opkind = op[0]
    own_field_kind = None
    if opkind in ('sort', 'replace'):
        own_field_kind = feat_kind(model.kinds[model.fields.index(op[1])])
    elif opkind == 'add':
        own_field_kind = feat_kind(ADD_FIELDS[op[1]][1])
    feats = {'op': op_label(op), 'rows0': rows0}

    def culprit(default):
        if own_field_kind is not None:
            return own_field_kind
        if not isolate:
            return default if len(fields_before) != 1 else feat_kind(fields_before[0][1])
        return isolate_kinds(t, root, op, model) or default

    try:
        t2, operands, calls = apply_impl(t, root, op, model)
    except observe.ObserverError:
        raise
    except Exception as e:
        if is_unsupported(e):
            return {'status': 'unsupported', 'calls': 1}
        if opkind == 'astype':
            return {'status': 'notjudged', 'calls': 1, 'why': 'astype raises ' + type(e).__name__}
        if opkind == 'add' and rows0 and op[1] in ('int', 'str', 'same_i', 'same_s'):
            return {'status': 'allowed-raise', 'calls': 1}
        feats.update(_exc_features(e))
        feats['kinds'] = culprit('?')
        return {'status': 'fail', 'calls': 1,
                'fail': ('operation-raises' if opkind != 'rt' else 'roundtrip-raises', feats, 'the operation succeeds',
                         '%s: %s' % (type(e).__name__, str(e)[:200]), tb_string(e))}
    new_model = model.copy()
    if opkind == 'sort':
        bad, rows = check_table(t2, fields_before, None, False)
        if bad is None:
            verdict = apply_model(op, new_model, root[1], rows)
            if verdict is not None:
                bad = ('rows-differ', own_field_kind, 'operand rows sorted by %s' % op[1], {'reason': verdict, 'rows': rows})
    else:
        apply_model(op, new_model, root[1])
        fields_after = list(zip(new_model.fields, new_model.kinds))
        supplied = False
        if opkind == 'replace':
            supplied = [op[1]]
        elif opkind == 'add':
            supplied = [ADD_FIELDS[op[1]][0]]
        elif opkind == 'rt':
            supplied = True
        bad, rows = check_table(t2, fields_after, new_model.rows, supplied)
    if bad is not None:
        if opkind == 'astype':
            return {'status': 'notjudged', 'calls': calls, 'why': 'astype: ' + bad[0]}
        clause, kinds, exp, obs = bad
        if clause == 'construction-stores-undeclared-type':
            feats = dict(kinds, op='construct')
            return {'status': 'fail', 'calls': calls, 'fail': (clause, feats, exp, obs, None)}
        if clause == 'rows-differ':
            clause = CLAUSE_BY_OP[opkind]
        feats['kinds'] = kinds if kinds != '?' else culprit('?')
        return {'status': 'fail', 'calls': calls, 'fail': (clause, feats, exp, obs, None)}
    # operands unchanged
    for label, obj, exp_rows, flds in operands:
        bad, _ = check_table(obj, flds, exp_rows, False)
        if bad is not None:
            feats['kinds'] = bad[1]
            feats['operand'] = label
            return {'status': 'fail', 'calls': calls, 'fail': ('operand-modified', feats, bad[2], bad[3], None)}
    model.fields, model.kinds, model.rows = new_model.fields, new_model.kinds, new_model.rows
    return {'status': 'ok', 't': t2, 'calls': calls}


_PROJ = {}


def proj_class(kind):
    key = repr(kind)
    if key not in _PROJ:
        _PROJ[key] = _bnp()['make_dataclass']([('k', decl_type(kind))], 'Proj')
    return _PROJ[key]


def isolate_kinds(t, root, op, model):
    """Which column classes reproduce a failure of a column-agnostic operation on a one-column table holding that column.
    'every-kind' if a plain int (or float) column of the same length fails as well (the failure does not depend on the kind)."""
    def fails_alone(pt, proot, pm):
        if op[0] == 'obs':
            return bool(observe_state(pt, pm, only=op[1], isolate=False))
        return transition(pt, proot if proot is not None else (pt, pm.rows), op, pm, isolate=False)['status'] == 'fail'

    bad = []
    try:
        n = len(model.rows)
        kinds_here = {feat_kind(k) for k in model.kinds}
        anchor_kind = 'float' if kinds_here == {'int'} else 'int'
        arows = [(tm.cell(anchor_kind, i, 0),) for i in range(n)]
        apc = proj_class(anchor_kind)
        at = apc(py_column(anchor_kind, [r[0] for r in arows]))
        aroot = None
        if root is not None:
            rrows = [(tm.cell(anchor_kind, i, 0),) for i in range(len(root[1]))]
            aroot = (apc(py_column(anchor_kind, [r[0] for r in rrows])), rrows)
        if fails_alone(at, aroot, tm.TableModel(['k'], [anchor_kind], arows)):
            return 'every-kind'
        root_names = [f.name for f in dataclasses.fields(root[0])] if root is not None else []
        for j, (name, kind) in enumerate(zip(model.fields, model.kinds)):
            kn = feat_kind(kind)
            if kn in bad:
                continue
            pc = proj_class(kind)
            pt = pc(getattr(t, name))
            proot = None
            if name in root_names:
                rj = root_names.index(name)
                proot = (pc(getattr(root[0], name)), [(r[rj],) for r in root[1]])
            pm = tm.TableModel(['k'], [kind], [(r[j],) for r in model.rows])
            if fails_alone(pt, proot, pm):
                bad.append(kn)
    except Exception:
        return None
    return '+'.join(sorted(set(bad))) if bad else 'only-combined'


# ====================================================================== observations of a state
OBS = ['len', 'scalar-index', 'iterate', 'tolist', 'todict', 'topandas']
ITER_LIMIT = 4


def scalar_indices(n):
    if n == 0:
        return []
    out = [0, -1, np.int64(n // 2)]
    seen = []
    for i in out:
        key = (type(i).__name__, int(i))
        if key not in [k for k, _ in seen]:
            seen.append((key, i))
    return [i for _, i in seen]


def observe_state(t, model, only=None, isolate=True, counter=None):
    """-> list of (kind, features, expected, observed, tb)"""
    fields = list(zip(model.fields, model.kinds))
    rows = model.rows
    n = len(rows)
    fails = []
    root = None

    def raised(name, e):
        f = {'op': name, 'rows0': n == 0}
        f.update(_exc_features(e))
        kinds = None
        if name in ('scalar-index', 'iterate'):
            f['ragged_view'] = bool(ragged_view_kinds(t, fields))
        if f.get('ragged_view'):
            kinds = 'not-isolated'      # fact recorded instead: the table has a ragged column whose shape is a view
        elif isolate:
            kinds = isolate_kinds(t, root, ('obs', name), model)
        elif len(fields) == 1:
            kinds = feat_kind(fields[0][1])
        f['kinds'] = kinds or '?'
        fails.append(('observation-raises', f, 'the observation succeeds', '%s: %s' % (type(e).__name__, str(e)[:200]), tb_string(e)))

    def differs(name, exp, obs, cols=None):
        f = {'op': name, 'rows0': n == 0}
        if cols is None:
            d = tm.differing_columns(exp, obs) if isinstance(obs, list) else None
            cols = 'shape' if d is None else '+'.join(sorted({feat_kind(fields[j][1]) for j in d}))
        f['kinds'] = cols
        fails.append((name + '-differs', f, exp, obs, None))

    for name in OBS:
        if only is not None and name != only:
            continue
        if counter is not None:
            counter[0] += 1
        try:
            if name == 'len':
                if len(t) != n:
                    differs('len', n, len(t), 'row-count')
            elif name == 'scalar-index':
                for i in scalar_indices(n):
                    e = t[i]
                    got = obs_entry(e, fields)
                    if got != rows[int(i)]:
                        d = [j for j, (a, b) in enumerate(zip(rows[int(i)], got)) if a != b]
                        differs('scalar-index', {'index': int(i), 'row': rows[int(i)]}, got,
                                '+'.join(sorted({feat_kind(fields[j][1]) for j in d})))
                        break
            elif name == 'iterate':
                # NpDataClass.__iter__ is t[i] for every i; four entries are pulled (all of them for tables up to 4 rows)
                got = [obs_entry(e, fields) for e in itertools.islice(iter(t), ITER_LIMIT)]
                if got != rows[:ITER_LIMIT]:
                    differs('iterate', rows[:ITER_LIMIT], got)
            elif name == 'tolist':
                got = [obs_py_entry(e, fields) for e in t.tolist()]
                if got != rows:
                    differs('tolist', rows, got)
            elif name in ('todict', 'topandas'):
                keys = tm.flat_keys(model.fields, model.kinds, specs())
                if name == 'todict':
                    d = t.todict()
                    got_keys = list(d.keys())
                    getcol = lambda key: list(d[key])
                else:
                    df = t.topandas()
                    got_keys = [str(c) for c in df.columns]
                    getcol = lambda key: df[key].tolist()
                    if len(df) != n:
                        differs(name, n, len(df), 'row-count')
                        continue
                if got_keys != [k for k, _ in keys]:
                    differs(name, [k for k, _ in keys], got_keys, 'keys')
                    continue
                badk = []
                exp_d, got_d = {}, {}
                for key, path in keys:
                    kind = _kind_at({'fields': fields}, path)
                    exp_col = [tm.pick(r, path) for r in rows]
                    got_col = [obs_py_value(kind, v) for v in getcol(key)]
                    if exp_col != got_col:
                        badk.append(feat_kind(kind))
                        exp_d[key], got_d[key] = exp_col, got_col
                if badk:
                    differs(name, exp_d, got_d, '+'.join(sorted(set(badk))))
        except observe.ObserverError:
            raise
        except Exception as e:
            if is_unsupported(e):
                continue
            raised(name, e)
    return fails


# ====================================================================== histories
def run_history(tname, n, route, hist, res=None, full_obs='new', seen=None, judge_prefix=False):
    """Replay `hist` on a fresh root.  Returns dict(status, fails=[(kind, features, expected, observed, tb)], model, key, calls)."""
    spec = specs()[tname]
    S = specs()
    root_rows = tm.rows_for(spec, n, S)
    model = tm.TableModel([f for f, _ in spec['fields']], [k for _, k in spec['fields']], root_rows)
    out = {'fails': [], 'calls': 1, 'status': 'ok', 'model': model}
    feats0 = {'op': 'build:tuples' if route == 'tuples' else 'build', 'rows0': n == 0}
    try:
        t = build_root(spec, root_rows, route)
        root = (t, root_rows)
    except observe.ObserverError:
        raise
    except Exception as e:
        feats0.update(_exc_features(e))
        feats0['kinds'] = build_culprits(spec, root_rows, route)
        out['status'] = 'fail'
        out['fails'].append(('construction-raises', feats0, 'a table of %d rows' % n, '%s: %s' % (type(e).__name__, str(e)[:200]), tb_string(e)))
        return out
    bad, _ = check_table(t, spec['fields'], root_rows, True)
    if bad is not None:
        clause, kinds, exp, obs = bad
        if clause == 'construction-stores-undeclared-type':
            feats0 = dict(kinds, op='construct')
        elif clause == 'rows-differ':
            clause = 'construction-result-differs'
            feats0['kinds'] = kinds
        else:
            feats0['kinds'] = kinds
        out['status'] = 'fail'
        out['fails'].append((clause, feats0, exp, obs, None))
        return out
    for step, op in enumerate(hist):
        op = tuple(op)
        if not enabled(op, model, spec['fields']):
            out['status'] = 'disabled'
            return out
        if step < len(hist) - 1 and not judge_prefix and op[0] != 'sort':
            # the prefix was judged when it was explored as a history of its own: replay it without the oracle
            try:
                t, _, calls = apply_impl(t, root, op, model)
            except Exception as e:
                raise RuntimeError('C19 harness: prefix step %r of %r raised on replay although it passed before: %r' % (op, hist, e))
            apply_model(op, model, root[1])
            out['calls'] += calls
            continue
        r = transition(t, root, op, model)
        out['calls'] += r['calls']
        if r['status'] != 'ok':
            out['status'] = r['status']
            out['failed_step'] = step
            if r['status'] == 'fail':
                out['fails'].append(r['fail'])
            out['why'] = r.get('why')
            return out
        t = r['t']
    fields = list(zip(model.fields, model.kinds))
    out['key'] = (model.key(), repr_sig(t, fields))
    out['t'] = t
    if full_obs == 'always' or (full_obs == 'new' and (seen is None or out['key'] not in seen)):
        counter = [0]
        out['fails'].extend(observe_state(t, model, counter=counter))
        out['calls'] += counter[0]
        out['observed'] = True
    return out


def build_culprits(spec, rows, route):
    bad = []
    try:
        kinds_here = {feat_kind(k) for _, k in spec['fields']}
        anchor = 'float' if kinds_here == {'int'} else 'int'
        try:
            build_root({'fields': [('k', anchor)], 'cls': proj_class(anchor)}, [(tm.cell(anchor, i, 0),) for i in range(len(rows))], route)
        except Exception:
            return 'every-kind'
        for j, (name, kind) in enumerate(spec['fields']):
            sub = {'fields': [('k', kind)], 'cls': proj_class(kind)}
            try:
                build_root(sub, [(r[j],) for r in rows], route)
            except Exception:
                bad.append(feat_kind(kind))
    except Exception:
        return '?'
    if len(set(bad)) > 1 and set(bad) == {feat_kind(k) for _, k in spec['fields']}:
        return 'every-kind'
    return '+'.join(sorted(set(bad))) if bad else 'only-combined'


def explore(res, tname, n, route, depth, deadline, split=(0, 1)):
    spec = specs()[tname]
    ops = op_alphabet(spec)
    seen = set()
    frontier = [()]
    n_states = 0
    example = None
    for d in range(depth + 1):
        nxt = []
        for hist in frontier:
            if deadline.expired():
                res.capped = True
                return
            r = run_history(tname, n, route, hist, seen=seen)
            if r['status'] == 'disabled':
                continue
            if not hist and split[0] != 0:
                # the root itself is counted and judged by part 0 of a split exploration; this part only expands it
                if r['status'] == 'ok':
                    seen.add(r['key'])
                    nxt.extend((op,) for oi, op in enumerate(ops) if oi % split[1] == split[0])
                continue
            res.evaluations += 1
            res.planned += 1
            res.traces += 1
            res.transitions += r['calls']
            case = {'type': tname, 'n': n, 'route': route, 'hist': [list(o) for o in hist]}
            for (kind, feats, exp, obs, tb) in r['fails']:
                res.fail(kind, case, feats, expected=_jsonable(exp), observed=_jsonable(obs), tb=_jsonable(tb))
            last = op_label(hist[-1]) if hist else 'root'
            if r['status'] == 'fail':
                res.outcome('fail:%s:%s' % (last, r['fails'][-1][0]))
                continue
            if r['status'] == 'unsupported':
                res.unsupported += 1
                res.outcome('unsupported:' + last)
                continue
            if r['status'] == 'allowed-raise':
                res.raising += 1
                res.outcome('raises(allowed):' + last)
                continue
            if r['status'] == 'notjudged':
                res.extra['astype not judged: ' + str(r.get('why'))] += 1
                res.outcome('notjudged:' + last)
                continue
            key = r['key']
            if key in seen:
                res.outcome('ok:merged:' + last)
                continue
            seen.add(key)
            res.states += 1
            n_states += 1
            if len(hist) >= 2 and len(r['model'].rows) > 0:
                res.nontrivial += 1
            res.outcome('ok:new:%s:%d-rows%s' % (last, min(len(r['model'].rows), 9), ':obs-fail' if r['fails'] else ''))
            example = hist
            if d < depth:
                for oi, op in enumerate(ops):
                    if hist or oi % split[1] == split[0]:
                        nxt.append(hist + (op,))
        frontier = nxt
    res.sample({'type': tname, 'fields': [[f, kind_name(k)] for f, k in spec['fields']], 'rows': n, 'route': route, 'depth': depth,
                'root_rows': [list(map(repr, r)) for r in tm.rows_for(spec, n, specs())][:2],
                'states': n_states, 'example_history': [list(o) for o in (example or ())]})


# ====================================================================== construction clause (shape A)
GIVEN = ['text', 'numeric-text', 'ints', 'floats', 'bools', 'nested-ints', 'nested-text', 'none', 'text-array', 'float-array',
         'object-array', 'encoded-text', 'string-array', 'ragged-ints', 'table', 'entries', 'scalar-int', 'scalar-text', 'dicts',
         'genotype-text', 'dna-text', 'amino-text']
GIVEN_TEXT = {'text': ['x', 'yy'], 'numeric-text': ['3', '4'], 'text-array': ['x', 'yy'], 'encoded-text': ['x', 'yy'],
              'string-array': ['x', 'yy'], 'dna-text': ['AC', 'GTT'], 'amino-text': ['AC', 'DA']}      # the text rows a text-like argument stands for
GIVEN_CLASS = {'text': 'text', 'numeric-text': 'text', 'text-array': 'text', 'encoded-text': 'text', 'string-array': 'text',
               'scalar-text': 'scalar', 'ints': 'int', 'bools': 'int', 'floats': 'float', 'float-array': 'float',
               'nested-ints': 'nested', 'nested-text': 'nested', 'ragged-ints': 'nested', 'none': 'none', 'object-array': 'object',
               'table': 'table', 'entries': 'entries', 'scalar-int': 'scalar', 'dicts': 'object', 'genotype-text': 'text', 'dna-text': 'text', 'amino-text': 'text'}
DECLARED = ['int', 'float', 'bool', 'optint', 'str', 'id', 'intlist', 'dna', 'strand', 'qual', 'table', 'gt']


def given_value(g):
    T = _bnp()
    inner = specs()['Inner']['cls']
    return {
        'text': lambda: ['x', 'yy'], 'numeric-text': lambda: ['3', '4'], 'ints': lambda: [1, 2], 'floats': lambda: [1.5, 2.5],
        'bools': lambda: [True, False], 'nested-ints': lambda: [[1], [2, 3]], 'nested-text': lambda: [['a'], ['b', 'c']],
        'none': lambda: [None, None], 'text-array': lambda: np.array(['x', 'yy']), 'float-array': lambda: np.array([1.5, 2.5]),
        'object-array': lambda: np.array([object(), object()], dtype=object),
        'encoded-text': lambda: T['as_encoded_array'](['x', 'yy']), 'string-array': lambda: T['as_string_array'](['x', 'yy']),
        'ragged-ints': lambda: T['RaggedArray']([[1], [2, 3]]), 'table': lambda: inner([1, 2], ['p', 'q']),
        'entries': lambda: [inner.dataclass(1, 'p'), inner.dataclass(2, 'q')], 'scalar-int': lambda: 7, 'scalar-text': lambda: 'xy',
        'dicts': lambda: [{'a': 1}, {'a': 2}],
        'genotype-text': lambda: T['as_encoded_array'](['0/1\t1/1\t', '0|0\t./.\t']),
        'dna-text': lambda: T['as_encoded_array'](['AC', 'GTT'], T['bnp'].DNAEncoding),
        # text already encoded in ANOTHER alphabet whose letters are not all in the declared one (D is no DNA letter)
        'amino-text': lambda: T['as_encoded_array'](['AC', 'DA'], T['bnp'].encodings.AminoAcidEncoding),
    }[g]()


# (declared, given) pairs in which the argument already IS a value of the declared type: construction must succeed
VALID_GIVEN = {
    'int': {'ints', 'bools'}, 'optint': {'ints', 'bools'}, 'float': {'ints', 'floats', 'bools', 'float-array'}, 'bool': {'bools'},
    'str': {'text', 'numeric-text', 'encoded-text'}, 'id': {'text', 'numeric-text', 'string-array'},
    'intlist': {'nested-ints', 'ragged-ints'}, 'qual': {'nested-ints', 'ragged-ints'}, 'table': {'table'}, 'dna': {'dna-text'}, 'strand': set(),
    'gt': {'genotype-text'},
}


def construct_case(declared, given, route):
    """-> (status, fail or None, calls); status in 'raises', 'ok', 'fail'"""
    T = _bnp()
    kind = ('table', 'Inner') if declared == 'table' else declared
    cls = T['make_dataclass']([('k', decl_type(kind)), ('anchor', int)], 'Construct')
    val = given_value(given)
    feats = {'op': 'construct', 'declared': feat_kind(declared), 'given': GIVEN_CLASS[given]}
    try:
        if route == 'ctor':
            t = cls(val, [10, 20])
        else:
            base = cls(py_column(kind, [tm.cell(kind, i, 0, specs()) for i in range(2)]), [10, 20])
            t = T['bnp'].replace(base, k=val)
    except observe.ObserverError:
        raise
    except Exception as e:
        if given in VALID_GIVEN.get(declared, ()):
            feats.update(_exc_features(e))
            return 'fail', ('construction-raises', feats, 'a column of the declared type', '%s: %s' % (type(e).__name__, str(e)[:200]), tb_string(e)), 1
        return 'raises:' + type(e).__name__, None, 1
    col = getattr(t, 'k')
    if not type_ok(kind, col):
        feats.update(type_features(kind, col))
        return 'fail', ('construction-stores-undeclared-type', feats, 'column of declared type %s, or an exception' % declared,
                        describe(col) + ' ' + repr(col)[:80], None), 1
    try:
        n = len(t)
        l = col_len(col)
    except Exception as e:
        return 'fail', ('columns-unequal-length', feats, 2, 'len raises %s' % type(e).__name__, tb_string(e)), 1
    if l != 2 or n != 2 or len(t.anchor) != 2:
        return 'fail', ('columns-unequal-length', feats, [2, 2], [l, len(t.anchor)], None), 1
    if declared in ('str', 'id', 'dna') and given in GIVEN_TEXT:
        # a text-like argument accepted for a text column: the column reads back as the argument's text, whatever encoding
        # the argument came in
        try:
            got = [str(x) for x in observe.column(col)]
        except observe.ObserverError:
            raise
        except Exception as e:
            got = 'unreadable: %s' % type(e).__name__
        if got != GIVEN_TEXT[given]:
            return 'fail', ('construction-stores-other-text', dict(feats, given_encoding='dna' if given == 'dna-text' else ('amino-acid' if given == 'amino-text' else 'ascii/str')),
                            GIVEN_TEXT[given], got, None), 1
    return 'ok:' + describe(col).split('[')[0].split('<')[0], None, 1


def run_construct(res, deadline):
    for declared in DECLARED:
        for given in GIVEN:
            for route in ('ctor', 'replace'):
                if deadline.expired():
                    res.capped = True
                    return
                res.evaluations += 1
                res.states += 1
                res.planned += 1
                res.traces += 1
                status, fail, calls = construct_case(declared, given, route)
                res.transitions += calls
                case = {'construct': {'declared': declared, 'given': given, 'route': route}}
                if status.startswith('raises'):
                    res.raising += 1
                else:
                    res.nontrivial += 1
                res.outcome('construct:%s<-%s:%s' % (declared, GIVEN_CLASS[given], status))
                if fail is not None:
                    res.fail(fail[0], case, fail[1], expected=_jsonable(fail[2]), observed=_jsonable(fail[3]), tb=_jsonable(fail[4]))
    res.sample({'construct': 'every declared kind x given argument x {ctor, replace}', 'declared': DECLARED, 'given': GIVEN})


# ====================================================================== tiers, shards
ROUTES = ['ctor', 'tuples', 'dict']
# multi-column types explored one level deeper (kind-rich or structurally distinct; the other datatypes repeat their column kinds)
DEEP_TYPES = ['DynAll', 'DynNested', 'DynMade', 'DynOptFloat', 'DynExtended', 'Bed6', 'Bed12', 'SequenceEntryWithQuality', 'BamEntry',
              'VCFEntry', 'VCFEntryWithGenotypes', 'VCFGenotypeEntry', 'GfaPath', 'Interval', 'SequenceEntry']
QUICK_DEEP_CORE = ['DynMade']
QUICK_DEEP_ROTATION = ['SequenceEntry', 'Interval', 'DynOptFloat', 'GfaPath', 'DynNested', 'SequenceEntryWithQuality']
SPLIT = 4
# one-column tables explored to depth 4 in the thorough tier: one per column representation (ragged text, string array,
# plain ndarray, ragged numbers, flat encoded)
THOROUGH_DEPTH4 = ['K_str', 'K_id', 'K_int', 'K_intlist', 'K_strand']


def bounds(tier, seed):
    names = type_names()
    singles = [n for n in names if n.startswith('K_')]
    if tier == 'quick':
        ext = QUICK_DEEP_ROTATION[seed % len(QUICK_DEEP_ROTATION)]
        return {'types': names, 'root_rows': [0, 1, 2, 3], 'routes': ROUTES + ['empty'],
                'core': 'every type: depth 2 from the 3-row constructor root, depth 1 from every other root (0,1,2,3 rows x '
                        'constructor/from_entry_tuples/from_dict, empty()); depth 3 for the one-column tables of every basic kind (%s) '
                        'and for %s' % (', '.join(singles), ', '.join(QUICK_DEEP_CORE)),
                'depth3_types': singles + QUICK_DEEP_CORE + [ext],
                'extension_slice': 'depth 3 for one further type rotated by seed: ' + ext,
                'construction': '%d declared kinds x %d given arguments x 2 routes' % (len(DECLARED), len(GIVEN))}
    return {'types': names, 'root_rows': [0, 1, 2, 3, 4], 'routes': ROUTES + ['empty'],
            'depth4_types': THOROUGH_DEPTH4, 'depth3_types': DEEP_TYPES + [n for n in singles if n not in THOROUGH_DEPTH4],
            'depth2_types': [n for n in names if n not in DEEP_TYPES and n not in singles],
            'other_roots': 'depth 1 from every root of 0,1,2,3,4 rows x 3 routes and empty(); depth 2 from empty() and the 4-row constructor root',
            'construction': '%d declared kinds x %d given arguments x 2 routes' % (len(DECLARED), len(GIVEN))}


def _cost(tname, depth, split=1):
    spec = specs()[tname]
    return (len(spec['fields']) + 2) * (len(op_alphabet(spec)) ** depth) / split


MAX_SHARDS = 56


def shards(tier, seed):
    """items = (type, roots, split part); items are packed greedily (largest first) into at most MAX_SHARDS shards of similar
    estimated cost; a shard descriptor lists its items"""
    b = bounds(tier, seed)
    items = []
    for tname in b['types']:
        if tier == 'quick':
            deep = 3 if tname in b['depth3_types'] else 2
            split = SPLIT if (deep == 3 and not tname.startswith('K_')) else 1
            small = [[0, 'empty', 1]] + [[n, r, 1] for n in (0, 1, 2) for r in ROUTES] + [[3, r, 1] for r in ROUTES[1:]]
        else:
            deep = 4 if tname in b['depth4_types'] else 3 if tname in b['depth3_types'] else 2
            split = SPLIT if deep >= 3 else 1
            small = [[0, 'empty', 2], [4, 'ctor', 2]] + [[n, r, 1] for n in (0, 1, 2) for r in ROUTES] + \
                    [[n, r, 1] for n in (3, 4) for r in ROUTES[1:]]
        for i in range(split):
            items.append((_cost(tname, deep, split), {'type': tname, 'roots': [[3, 'ctor', deep]], 'split': [i, split]}))
        items.append((sum(_cost(tname, r[2]) for r in small), {'type': tname, 'roots': small, 'split': [0, 1]}))
    items.sort(key=lambda x: (-x[0], x[1]['type'], x[1]['split']))
    total = sum(c for c, _ in items)
    cap = max(items[0][0], total / (MAX_SHARDS - 1))
    bins = []
    for c, it in items:
        for bn in bins:
            if bn[0] + c <= cap:
                bn[0] += c
                bn[1].append(it)
                break
        else:
            bins.append([c, [it]])
    bins.sort(key=lambda bn: -bn[0])
    return [{'part': 'construct'}] + [{'part': 'explore', 'items': bn[1]} for bn in bins]


def run_shard(desc, deadline):
    import time
    from . import common  # noqa: F401  (silences bionumpy's logging)
    res = Result()
    c0 = time.process_time()
    if desc['part'] == 'construct':
        run_construct(res, deadline)
    else:
        for item in desc['items']:
            for n, route, depth in item['roots']:
                if res.capped:
                    break
                explore(res, item['type'], n, route, depth, deadline, tuple(item.get('split', (0, 1))))
    res.extra['cpu_ms (measurement only)'] += int((time.process_time() - c0) * 1000)
    return res


# ====================================================================== replay
def replay_case(case):
    from . import common  # noqa: F401
    out = []
    if 'construct' in case:
        c = case['construct']
        status, fail, _ = construct_case(c['declared'], c['given'], c['route'])
        if fail is not None:
            out.append({'kind': fail[0], 'features': fail[1], 'expected': _jsonable(fail[2]), 'observed': _jsonable(fail[3]),
                        'traceback': _jsonable(fail[4])})
        return out
    r = run_history(case['type'], case['n'], case['route'], [tuple(o) for o in case['hist']], full_obs='always', judge_prefix=True)
    for (kind, feats, exp, obs, tb) in r['fails']:
        out.append({'kind': kind, 'features': feats, 'expected': _jsonable(exp), 'observed': _jsonable(obs), 'traceback': _jsonable(tb)})
    return out


_ADDRESS = None


def _jsonable(v):
    """JSON-able copy with memory addresses blanked (exception texts and object reprs carry them; the replay gate compares
    the observations of two fresh processes literally)"""
    import json
    import re
    global _ADDRESS
    if _ADDRESS is None:
        _ADDRESS = re.compile(r'0x[0-9a-fA-F]{3,}')
    if v is None:
        return None
    try:
        text = json.dumps(v, default=repr)
    except Exception:
        text = json.dumps(repr(v))
    return json.loads(_ADDRESS.sub('0x..', text))


def repro_py(case):
    """stand-alone snippet (public API only) that rebuilds the root and applies the history, printing the rows"""
    if 'construct' in case:
        c = case['construct']
        return ('# construct a 2-row table whose column k is declared %s from a %s argument (route %s)\n'
                '# see checks/c19_tables.py: construct_case(%r, %r, %r)\n' % (c['declared'], c['given'], c['route'],
                                                                           c['declared'], c['given'], c['route']))
    spec = specs()[case['type']]
    S = specs()
    rows = tm.rows_for(spec, case['n'], S)
    lines = ['import dataclasses, numpy as np, bionumpy as bnp',
             'from checks.c19_tables import specs, build_root   # class registry of the check (datatypes + dynamic classes)',
             'from models import tablemodel as tm',
             'spec = specs()[%r]; rows = tm.rows_for(spec, %d, specs())' % (case['type'], case['n']),
             '# rows = %r' % (rows[:3],),
             't = root = build_root(spec, rows, %r)' % case['route']]
    for op in case['hist']:
        op = tuple(op)
        k = op[0]
        if k in ('sl', 'step2', 'rev', 'mask', 'fancy'):
            lines.append('t = t[%s]   # %r' % (_index_src(op), op))
        elif k == 'cat':
            src = {'self': '[t, t]', 'root_r': '[t, root]', 'root_l': '[root, t]', 'view': '[t, t[1:]]', 'rev': '[t[::-1], t]',
                   'empty_r': '[t, type(t).empty()]', 'empty_l': '[type(t).empty(), t]'}[op[1]]
            lines.append('t = np.concatenate(%s)' % src)
        elif k == 'sort':
            lines.append('t = t.sort_by(%r)' % op[1])
        elif k == 'replace':
            lines.append('t = bnp.replace(t, %s=<new %s column of len(t) values, see replacement_cell>)   # %r' % (op[1], op[2], op))
        elif k == 'add':
            lines.append('t = t.add_fields({%r: <len(t) values>}%s)' % (ADD_FIELDS[op[1]][0], ', field_type_map={...: DNAEncoding}' if op[1] == 'dna' else ''))
        elif k == 'rt':
            lines.append({'tuples': 't = type(t).from_entry_tuples([tuple(getattr(e, f.name) for f in dataclasses.fields(e)) for e in t.tolist()])',
                          'dict': 't = type(t).from_dict(t.todict())', 'pandas': 't = type(t).from_data_frame(t.topandas())'}[op[1]])
        elif k == 'astype':
            lines.append('t = t.astype(specs()[%r]["cls"])' % op[1])
    lines.append('print(t); print([t[i] for i in range(len(t))]); print(t.tolist()); print(t.todict()); print(t.topandas())')
    return '\n'.join(lines) + '\n'


def _index_src(op):
    k = op[0]
    if k == 'sl':
        return '%s:%s' % ('' if op[1] is None else op[1], '' if op[2] is None else op[2])
    if k == 'step2':
        return '::2'
    if k == 'rev':
        return '::-1'
    if k == 'mask':
        return {'alt': 'np.arange(len(t)) % 2 == 0', 'none': 'np.zeros(len(t), bool)', 'all': 'np.ones(len(t), bool)'}[op[1]]
    return '[]' if op[1] == 'empty' else '[len(t) - 1, 0, 0]'
