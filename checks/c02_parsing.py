"""C02 — parsed columns mean what the format says.

Shape A (+ shape B for the VCF reader histories, see c02 part 'hist').
Space per delimited format: N = 1..Nmax records; ONE column sweeps every
tuple of its domain^N while the other columns take a baseline profile b
(all-short / all-long / mixed variant texts); x {LF, CRLF} x {lazy, eager}.
FASTA: every wrap width x sequence lengths around multiples of the width;
FASTQ; interior comments (GFF3 / wig) after every subset of records.
Oracle: constructive expectation (models/formats.py) == observed columns,
record count equal, and `tolist()` (explored operation) gives the same rows.
"""
import base64
import dataclasses
import itertools

import numpy as np

from engine import observe
from engine.result import Result, tb_string, raising_frame
from models.formats import FORMATS, DOMAINS, LF, CRLF, Rec, parse_field
from .common import make_reader, exc_name

PROPERTY = 'C02'
LEVEL = 'model_checking'
RULE = ('per format: every file of 1..N records in which one column takes every tuple of its domain^N and the other '
        'columns a baseline profile; every wrap width/sequence-length profile for FASTA/FASTQ; every comment placement; '
        'every VCF reader history up to length L; non-trivial = file has >= 2 records whose swept column texts differ in length '
        '(unequal widths in one column) or a header/comment line is present')
ASSUMPTIONS = [
    'expected values are computed constructively from the field texts with Python int()/float() (models/formats.py)',
    'float mantissas use "-" as the only sign ("+5" in a float column is not promised by the statement)',
    'typed VCF INFO: only keys present in a record (plus Flag keys) are compared; the value read for an absent key is not judged',
    'only one column at a time sweeps its full domain (others follow a baseline profile); thorough adds adjacent column pairs for N=2',
]
EXPLANATION = 'bounded exhaustive enumeration of format grammars through the real readers, lazy and eager'
MANIFEST_TEXT = ('Exhaustive enumeration of per-format grammars (BED3/6/12, bedGraph, wig with interior comments, narrowPeak, '
                 'chrom.sizes, VCF +/- header, typed INFO and genotype matrices (GT alone, with the same sub-fields on every sample, and one annotated next to one bare sample) through 5 VCF buffer types, SAM +/- tags, '
                 'GTF, GFF3 with comments, GFA, pairs, FASTA wrapped at every width 1..4/8, FASTQ): files of 1..3 (quick) / '
                 '1..4 (thorough) records where each column in turn takes every tuple of its domain (signed ints, leading '
                 'zeros, "." placeholders, list columns with/without trailing comma, scientific floats, very unequal widths) '
                 'x LF/CRLF x lazy/eager; plus every history of VCF reads (header x buffer type x mode) of length <= 2/3 in '
                 'one process. Oracle: constructive expectation from the field texts; tolist() as explored operation.')
MANIFEST_NOTE = ('Trusted: NumPy, CPython int()/float(), engine/observe.py, models/formats.py rendering (string joining). '
                 'Column interactions beyond one swept column + adjacent pairs are outside the bound.')
TECHNIQUE = 'bounded exhaustive enumeration of input grammars and reader histories against a constructive reference model'

SWEEP_FORMATS = ['bed3', 'bed6', 'bed12', 'bedgraph', 'wig', 'narrowpeak', 'chromsizes', 'vcf', 'vcf_header', 'sam',
                 'sam_notags', 'gtf', 'gff3', 'gfa', 'pairs']


def bounds(tier, seed):
    if tier == 'quick':
        return {'max_records': 3, 'baselines': [0, 1], 'fasta_widths': [1, 2, 3, 4], 'hist_len': 2,
                'domain_cap_for_N3': 5, 'seed_slice': seed % 3}
    return {'max_records': 4, 'baselines': [0, 1, 2], 'fasta_widths': list(range(1, 9)), 'hist_len': 3,
            'domain_cap_for_N3': None, 'seed_slice': None,
            'four_record_files': 'the swept column takes every 4-tuple over 4 values of its domain (first, second, middle, last)'}


def shards(tier, seed):
    out = []
    for fmt in SWEEP_FORMATS:
        dom = DOMAINS.get(fmt if fmt != 'vcf_header' else 'vcf', {})
        for col in sorted(dom):
            out.append({'part': 'sweep', 'fmt': fmt, 'col': col, 'tier': tier, 'seed': seed})
        if tier == 'thorough':
            cols = sorted(dom)
            for a, b in zip(cols, cols[1:]):
                if b == a + 1:
                    out.append({'part': 'pair', 'fmt': fmt, 'cols': [a, b], 'tier': tier, 'seed': seed})
    for w in bounds(tier, seed)['fasta_widths']:
        out.append({'part': 'fasta', 'width': w, 'tier': tier, 'seed': seed})
    out.append({'part': 'fastq', 'tier': tier, 'seed': seed})
    out.append({'part': 'comments', 'tier': tier, 'seed': seed})
    from . import c02_vcf
    out.extend(c02_vcf.shards(tier, seed))
    return out


# ---------------------------------------------------------------- core judge
def entry_tuple(e, fields):
    vals = []
    for n in fields:
        v = getattr(e, n)
        vals.append(_py(v))
    return tuple(observe.norm(v) for v in vals)


def _py(v):
    if dataclasses.is_dataclass(v) and not isinstance(v, type):
        return tuple(_py(getattr(v, f.name)) for f in dataclasses.fields(v))
    if isinstance(v, np.ndarray):
        return tuple(_py(x) for x in v.tolist())
    if isinstance(v, (list, tuple)):
        return tuple(_py(x) for x in v)
    if isinstance(v, np.generic):
        return v.item()
    if isinstance(v, bytes):
        return v.decode('latin1')
    return v


def expected_rows(f, recs, optint_missing=0):
    rows = []
    for r in recs:
        rows.append(tuple(observe.norm(optint_missing if v is None else v) for v in r.expected))
    return rows


def qual_as_list(rows, f):
    return rows


def judge_file(res, f, recs, data, lazy, case, feats, header_present=False, ops=('columns', 'tolist'), reread=False):
    """Run one file through the reader seam; returns True if judged OK."""
    fields = list(f.fields)
    exp = expected_rows(f, recs)
    res.evaluations += 1
    res.states += 1
    res.planned += 1
    res.traces += 1
    try:
        t = make_reader(data, f.buffer_type(), lazy).read()
        res.transitions += 1
        n = len(t)
        rows = observe.table_rows(t, fields)
    except observe.ObserverError:
        raise
    except (observe.MalformedLibraryValue, observe.ColumnLengthMismatch) as e:
        res.outcome('malformed-table')
        res.fail('malformed-table', case, feats, expected=exp, observed=repr(e)[:300])
        return False
    except Exception as e:
        res.outcome('raises:' + exc_name(e))
        fe = dict(feats)
        fe['exc'] = exc_name(e)
        res.fail('well-formed-file-raises', case, fe, expected=exp, observed=repr(e)[:300], tb=tb_string(e))
        return False
    if n != len(recs):
        res.fail('record-count', case, feats, expected=len(recs), observed=n)
        return False
    if rows != exp:
        bad = sorted({fields[j] for a, b in zip(rows, exp) for j in range(len(fields)) if a[j] != b[j]})
        fe = dict(feats)
        fe['bad_fields'] = ','.join(bad)
        res.fail('column-values', case, fe, expected=exp, observed=rows)
        res.outcome('wrong-values')
        return False
    if 'tolist' in ops:
        try:
            lst = t.tolist()
            res.transitions += 1
            got = [entry_tuple(e, fields) for e in lst]
        except observe.ObserverError:
            raise
        except Exception as e:
            fe = dict(feats)
            fe['exc'] = exc_name(e)
            fe['frame'] = '%s:%s' % raising_frame(e)
            res.fail('tolist-raises', case, fe, expected=exp, observed=repr(e)[:300], tb=tb_string(e))
            return False
        if got != exp:
            res.fail('tolist-values', case, feats, expected=exp, observed=got)
            return False
    if reread and n >= 2:
        # Parsing must stay a function of the bytes when the same chunk is looked at twice: first through a row slice,
        # then as a whole (lazy: the two tables share one buffer), or by parsing one buffer twice (eager).
        try:
            if lazy:
                t2 = make_reader(data, f.buffer_type(), True).read()
                first = observe.table_rows(t2[:1], fields)
                again = observe.table_rows(t2, fields)
            else:
                from bionumpy.io.parser import NumpyFileReader
                import io as _io
                buf = NumpyFileReader(_io.BytesIO(data), f.buffer_type()).read()
                first = observe.table_rows(buf.get_data(), fields)[:1]
                again = observe.table_rows(buf.get_data(), fields)
            res.transitions += 2
        except observe.ObserverError:
            raise
        except Exception as e:
            fe = dict(feats)
            fe['exc'] = exc_name(e)
            res.fail('second-look-at-the-same-chunk-raises', case, fe, expected=exp, observed=repr(e)[:300], tb=tb_string(e))
            return False
        if first != exp[:1] or again != exp:
            res.fail('second-look-at-the-same-chunk-differs', case, feats, expected=exp, observed={'slice': first, 'whole': again})
            return False
    res.outcome('ok:n=%d' % n)
    return True


def mk_case(part, fmt, texts, eol, lazy, extra=None):
    c = {'part': part, 'fmt': fmt, 'texts': texts, 'eol': eol, 'lazy': lazy}
    if extra:
        c.update(extra)
    return c


def run_texts_case(res, part, fmt, all_texts, eol, lazy, feats, comment_after=(), nontrivial=False, reread=False):
    f = FORMATS[fmt]
    recs = [f.record_from_texts(t) for t in all_texts]
    data = f.render(recs, LF if eol == 'LF' else CRLF, True, comment_after=comment_after)
    case = mk_case(part, fmt, all_texts, eol, lazy, {'comment_after': list(comment_after)})
    ok = judge_file(res, f, recs, data, lazy, case, feats, reread=reread)
    if nontrivial:
        res.nontrivial += 1
    if len(res.samples) < 2:
        res.sample({'format': fmt, 'file': data.decode('latin1'), 'eol': eol, 'lazy': lazy})
    return ok


def text_class(t):
    """coarse class of a field text, used as failure feature"""
    if t == '.':
        return 'dot'
    if t.startswith('+'):
        return 'plus-sign'
    if t.startswith('-'):
        return 'negative'
    if len(t) > 1 and t[0] == '0' and t.isdigit():
        return 'leading-zero'
    if t.endswith(','):
        return 'trailing-comma'
    if 'e' in t and t.replace('e', '').replace('-', '').replace('.', '').isdigit():
        return 'scientific'
    return 'plain'


def sweep_features(f, col, tup, eol):
    name, kind, _ = f.cols[col]
    classes = sorted({text_class(t) for t in tup})
    return {'format': f.name, 'column': name or ('col%d' % col), 'kind': kind, 'eol': eol,
            'text_classes': '+'.join(classes)}


def run_sweep(desc, deadline, res):
    fmt, col, tier, seed = desc['fmt'], desc['col'], desc['tier'], desc['seed']
    b = bounds(tier, seed)
    f = FORMATS[fmt]
    dom = DOMAINS[fmt if fmt != 'vcf_header' else 'vcf'][col]
    for n in range(1, b['max_records'] + 1):
        d = dom
        if n >= 3 and b['domain_cap_for_N3'] and len(dom) > b['domain_cap_for_N3']:
            # quick-tier extension slice: for 3 records a seed-rotated window of the domain (core = N<=2 in full)
            k = b['domain_cap_for_N3']
            s = (b['seed_slice'] * 2) % len(dom)
            d = [dom[(s + j) % len(dom)] for j in range(k)]
        if n >= 4 and len(d) > 4:
            d = [d[j] for j in sorted({0, 1, len(d) // 2, len(d) - 1})]
        for tup in itertools.product(d, repeat=n):
            if deadline.expired():
                res.capped = True
                return
            nontrivial = n >= 2 and len({len(t) for t in tup}) > 1
            for base in (b['baselines'] if n < 4 else b['baselines'][:2]):
                all_texts = []
                for i, t in enumerate(tup):
                    texts = f.texts(base, i)
                    texts[col] = t.replace('{i}', str(i))
                    all_texts.append(texts)
                for eol in ('LF', 'CRLF'):
                    feats = sweep_features(f, col, tup, eol)
                    for lazy in (False, True):
                        run_texts_case(res, 'sweep', fmt, all_texts, eol, lazy, feats, nontrivial=nontrivial,
                                       reread=(base == b['baselines'][0] and eol == 'LF'))


def run_pair(desc, deadline, res):
    fmt, (ca, cb) = desc['fmt'], desc['cols']
    f = FORMATS[fmt]
    D = DOMAINS[fmt if fmt != 'vcf_header' else 'vcf']
    for ta in itertools.product(D[ca], repeat=2):
        for tb in itertools.product(D[cb], repeat=2):
            if deadline.expired():
                res.capped = True
                return
            all_texts = []
            for i in range(2):
                texts = f.texts(0, i)
                texts[ca] = ta[i].replace('{i}', str(i))
                texts[cb] = tb[i].replace('{i}', str(i))
                all_texts.append(texts)
            for eol in ('LF', 'CRLF'):
                feats = sweep_features(f, ca, ta + tb, eol)
                feats['column'] += '+' + (f.cols[cb][0] or 'col%d' % cb)
                for lazy in (False, True):
                    run_texts_case(res, 'pair', fmt, all_texts, eol, lazy, feats, nontrivial=True)


# ---------------------------------------------------------------- FASTA / FASTQ
NAMES = ['s', 'seq_1 with a description']


def fasta_record(name, seq, width):
    lines = [b'>' + name.encode()] + [seq[k:k + width].encode() for k in range(0, len(seq), width)]
    return Rec(lines, (name, seq), (name, seq, width))


def seq_of(length, i):
    base = 'ACGTTGCA'
    return ''.join(base[(i + k) % 8] for k in range(length))


def run_fasta(desc, deadline, res):
    w = desc['width']
    tier = desc['tier']
    lengths = sorted({1, max(1, w - 1), w, w + 1, 2 * w, 2 * w + 1})
    f = FORMATS['fasta_wrapped']
    nmax = 3
    for n in range(1, nmax + 1):
        for prof in itertools.product(lengths, repeat=n):
            for names in itertools.product(range(2), repeat=n) if (tier == 'thorough' or n <= 2) else [tuple([0] * n), tuple([1] * n)]:
                if deadline.expired():
                    res.capped = True
                    return
                recs = [fasta_record(NAMES[names[i]] + str(i), seq_of(L, i), w) for i, L in enumerate(prof)]
                for eol in ('LF', 'CRLF'):
                    data = f.render(recs, LF if eol == 'LF' else CRLF, True)
                    case = {'part': 'fasta', 'width': w, 'lengths': list(prof), 'names': list(names), 'eol': eol}
                    feats = {'format': 'fasta_wrapped', 'eol': eol, 'width_class': 'w=1' if w == 1 else 'w>1',
                             'single_line_records': all(L <= w for L in prof)}
                    for lazy in (False, True):
                        c = dict(case, lazy=lazy)
                        judge_file(res, f, recs, data, lazy, c, feats)
                        if n >= 2 and len(set(prof)) > 1:
                            res.nontrivial += 1
                    # two-line layout through the one-line buffer when every record fits on one line
                    if all(L <= w for L in prof):
                        f2 = FORMATS['fasta2']
                        for lazy in (False, True):
                            c = dict(case, lazy=lazy, part='fasta2')
                            judge_file(res, f2, recs, data, lazy, c, dict(feats, format='fasta2'))
                if len(res.samples) < 1:
                    res.sample({'format': 'fasta_wrapped', 'file': data.decode('latin1')})


QUALS = '!#5I~+@>'


def run_fastq(desc, deadline, res):
    f = FORMATS['fastq']
    lengths = [1, 2, 5, 9]
    nmax = 3 if desc['tier'] == 'quick' else 4
    for n in range(1, nmax + 1):
        for prof in itertools.product(lengths, repeat=n):
            for qrot in range(3):
                for plus in (b'+', b'+name'):
                    if deadline.expired():
                        res.capped = True
                        return
                    recs = []
                    for i, L in enumerate(prof):
                        name = NAMES[(i + qrot) % 2] + str(i)
                        seq = seq_of(L, i)
                        q = ''.join(QUALS[(qrot * 3 + i + k) % len(QUALS)] for k in range(L))
                        pl = plus if plus == b'+' else b'+' + name.encode()
                        recs.append(Rec([b'@' + name.encode(), seq.encode(), pl, q.encode()],
                                        (name, seq, parse_field('qual', q)), (name, seq, q)))
                    for eol in ('LF', 'CRLF'):
                        data = f.render(recs, LF if eol == 'LF' else CRLF, True)
                        for lazy in (False, True):
                            case = {'part': 'fastq', 'lengths': list(prof), 'qrot': qrot, 'plus': plus.decode(), 'eol': eol,
                                    'lazy': lazy}
                            feats = {'format': 'fastq', 'eol': eol, 'plus_line': 'bare' if plus == b'+' else 'named'}
                            judge_file(res, f, recs, data, lazy, case, feats)
                            if n >= 2 and len(set(prof)) > 1:
                                res.nontrivial += 1
    res.sample({'format': 'fastq', 'file': data.decode('latin1')})


def run_comments(desc, deadline, res):
    for fmt in ('gff3', 'wig'):
        f = FORMATS[fmt]
        for n in range(1, 4):
            for vs in itertools.product(range(3), repeat=n):
                for k in range(n + 1):
                    for ca in itertools.combinations(range(n), k):
                        if deadline.expired():
                            res.capped = True
                            return
                        all_texts = [f.texts(v, i) for i, v in enumerate(vs)]
                        for eol in ('LF', 'CRLF'):
                            feats = {'format': fmt, 'eol': eol, 'comments': 'none' if not ca else
                                     ('after-last' if (n - 1) in ca else 'interior')}
                            for lazy in (False, True):
                                run_texts_case(res, 'comments', fmt, all_texts, eol, lazy, feats, comment_after=ca,
                                               nontrivial=bool(ca))


def run_shard(desc, deadline):
    res = Result()
    part = desc['part']
    if part == 'sweep':
        run_sweep(desc, deadline, res)
    elif part == 'pair':
        run_pair(desc, deadline, res)
    elif part == 'fasta':
        run_fasta(desc, deadline, res)
    elif part == 'fastq':
        run_fastq(desc, deadline, res)
    elif part == 'comments':
        run_comments(desc, deadline, res)
    else:
        from . import c02_vcf
        c02_vcf.run_shard(desc, deadline, res)
    return res


def replay_case(case):
    res = Result()
    part = case['part']
    if part in ('sweep', 'pair', 'comments'):
        f = FORMATS[case['fmt']]
        feats = {'format': case['fmt']}
        run_texts_case(res, part, case['fmt'], case['texts'], case['eol'], case['lazy'], feats,
                       comment_after=tuple(case.get('comment_after', ())), reread=True)
    elif part in ('fasta', 'fasta2'):
        w = case['width']
        recs = [fasta_record(NAMES[case['names'][i]] + str(i), seq_of(L, i), w) for i, L in enumerate(case['lengths'])]
        f = FORMATS['fasta_wrapped' if part == 'fasta' else 'fasta2']
        data = FORMATS['fasta_wrapped'].render(recs, LF if case['eol'] == 'LF' else CRLF, True)
        judge_file(res, f, recs, data, case['lazy'], case, {'format': f.name})
    elif part == 'fastq':
        f = FORMATS['fastq']
        recs = []
        for i, L in enumerate(case['lengths']):
            name = NAMES[(i + case['qrot']) % 2] + str(i)
            seq = seq_of(L, i)
            q = ''.join(QUALS[(case['qrot'] * 3 + i + k) % len(QUALS)] for k in range(L))
            pl = b'+' if case['plus'] == '+' else b'+' + name.encode()
            recs.append(Rec([b'@' + name.encode(), seq.encode(), pl, q.encode()], (name, seq, parse_field('qual', q))))
        data = f.render(recs, LF if case['eol'] == 'LF' else CRLF, True)
        judge_file(res, f, recs, data, case['lazy'], case, {'format': 'fastq'})
    else:
        from . import c02_vcf
        c02_vcf.replay_case(case, res)
    return [{'kind': g['kind'], 'features': g['features'], 'observed': g['exemplars'][0]['observed'],
             'expected': g['exemplars'][0]['expected'], 'traceback': g['exemplars'][0]['traceback']}
            for g in res.fail_groups.values()]


def repro_py(case):
    if case.get('part') in ('sweep', 'pair', 'comments'):
        f = FORMATS[case['fmt']]
        mod, cls = f.buffer.split(':')
        recs = [f.record_from_texts(t) for t in case['texts']]
        data = f.render(recs, LF if case['eol'] == 'LF' else CRLF, True, comment_after=tuple(case.get('comment_after', ())))
        return ('import io\nfrom bionumpy.io.parser import NumpyFileReader\nfrom bionumpy.io.npdataclassreader import NpDataclassReader\n'
                'from %s import %s as B\nt = NpDataclassReader(NumpyFileReader(io.BytesIO(%r), B), lazy=%r).read()\nprint(t)\n'
                '# expected rows: %r\n' % (mod, cls, data, case['lazy'], [list(r.expected) for r in recs]))
    return '# see bin/vcheck replay <file>; case: %r' % (case,)
