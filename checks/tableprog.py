"""Register machine over bionumpy tables, shared by C04 (lazy write-back) and C05 (lazy == eager).

Registers: t (current table), u (saved table).  A state is the HISTORY that
reaches it: every path is replayed on fresh objects read from the root bytes
(live lazy tables mutate hidden caches on field access, so objects are never
shared between paths).  States are deduplicated on
    (model rows of t and u, lazy representation signature of t and u)
so that every operation is applied to every reachable representation.
"""
import io

import numpy as np

from engine import observe


# ---------------------------------------------------------------- operations
def transform_ops(n):
    """index-dependent menu of transformations for a table of n rows (simplest first)"""
    ops = [('slice', 1, None), ('slice', None, -1), ('step2',), ('rev',), ('mask', 'alt'), ('mask', 'none'), ('mask', 'all'),
           ('fancy', 'rep'), ('fancy', 'empty'), ('save',), ('cat_tu',), ('cat_ut',), ('write',)]
    # ('write',): writing is also an explored operation, not only an observation: it compacts the lazy buffer of t in
    # place (hidden state) and must not disturb the saved register u or later operations on t
    return ops


def index_for(op, n):
    k = op[0]
    if k == 'slice':
        return slice(op[1], op[2])
    if k == 'step2':
        return slice(None, None, 2)
    if k == 'rev':
        return slice(None, None, -1)
    if k == 'mask':
        if op[1] == 'alt':
            return np.arange(n) % 2 == 0
        if op[1] == 'none':
            return np.zeros(n, dtype=bool)
        return np.ones(n, dtype=bool)
    if k == 'fancy':
        if op[1] == 'empty' or n == 0:
            return np.zeros(0, dtype=int)
        return np.array([n - 1, 0, 0], dtype=int)
    raise ValueError(op)


def model_index(rows, op):
    n = len(rows)
    idx = index_for(op, n)
    if isinstance(idx, slice):
        return rows[idx]
    if idx.dtype == bool:
        return [r for r, m in zip(rows, idx) if m]
    return [rows[int(i)] for i in idx]


def replacement_values(kind, n):
    """model values of the new column of length n for a field of that kind"""
    if kind in ('int', 'optint', 'vcfpos'):
        return [1000 + 7 * i for i in range(n)]
    if kind == 'float':
        return [0.25 + i for i in range(n)]
    if kind in ('str', 'id', 'seq'):
        return ['zz%d' % i + 'y' * i for i in range(n)]
    if kind == 'strand':
        return ['-' if i % 2 == 0 else '+' for i in range(n)]
    return None


def replacement_array(kind, vals):
    import bionumpy as bnp
    if kind in ('int', 'optint', 'vcfpos'):
        return np.array(vals, dtype=int)
    if kind == 'float':
        return np.array(vals, dtype=float)
    if kind == 'id':
        # declared type of identifier columns is SequenceID (a string array)
        from bionumpy.string_array import as_string_array
        return as_string_array(list(vals))
    if kind in ('str', 'seq'):
        return bnp.as_encoded_array(list(vals))
    if kind == 'strand':
        from bionumpy.encodings import StrandEncoding
        return bnp.as_encoded_array(''.join(vals), StrandEncoding)
    raise ValueError(kind)


class Model:
    """t, u: lists of rows; a row = tuple of field values (model values, normalised)"""

    def __init__(self, rows, fields, kinds, src_ids=None):
        self.fields = list(fields)
        self.kinds = list(kinds)
        # each row: (values tuple, source record id or None, frozenset of replaced field names)
        self.t = [(tuple(observe.norm(v) for v in r), i, frozenset()) for i, r in enumerate(rows)]
        self.u = None
        self.index_only = True        # path so far consists only of indexing operations (C04 clause i)

    def enabled(self, op):
        k = op[0]
        if k in ('cat_tu', 'cat_ut'):
            return self.u is not None
        if k == 'replace':
            return replacement_values(self.kinds[self.fields.index(op[1])], 1) is not None
        return True

    def apply(self, op):
        k = op[0]
        if k in ('slice', 'step2', 'rev', 'mask', 'fancy'):
            self.t = model_index(self.t, op)
        elif k == 'save':
            self.u = list(self.t)
            self.u_index_only = self.index_only
        elif k == 'cat_tu':
            self.t = list(self.t) + list(self.u)
            self.index_only = False
        elif k == 'cat_ut':
            self.t = list(self.u) + list(self.t)
            self.index_only = False
        elif k in ('write', 'get'):
            pass            # no effect on the value: 'get' parses a field (hidden state of a lazy table), 'write' compacts it
        elif k == 'replace':
            j = self.fields.index(op[1])
            vals = replacement_values(self.kinds[j], len(self.t))
            new = []
            for (row, sid, rep), v in zip(self.t, vals):
                row = list(row)
                row[j] = observe.norm(v)
                new.append((tuple(row), sid, rep | {op[1]}))
            self.t = new
            self.index_only = False
        else:
            raise ValueError(op)

    def values(self, which='t'):
        rows = self.t if which == 't' else self.u
        return [r[0] for r in rows]

    def key(self):
        return (tuple(self.t), None if self.u is None else tuple(self.u), self.index_only)


def apply_impl(t, u, op, fields, kinds, buffer_type=None):
    """apply a transformation to implementation registers; returns (t, u)"""
    import bionumpy as bnp
    k = op[0]
    if k == 'write':
        from bionumpy.io.parser import NpBufferedWriter
        NpBufferedWriter(io.BytesIO(), buffer_type).write(t)
        return t, u
    if k in ('slice', 'step2', 'rev', 'mask', 'fancy'):
        return t[index_for(op, len(t))], u
    if k == 'get':
        getattr(t, op[1])
        return t, u
    if k == 'save':
        return t, t
    if k == 'cat_tu':
        return np.concatenate([t, u]), u
    if k == 'cat_ut':
        return np.concatenate([u, t]), u
    if k == 'replace':
        j = fields.index(op[1])
        vals = replacement_values(kinds[j], len(t))
        return bnp.replace(t, **{op[1]: replacement_array(kinds[j], vals)}), u
    raise ValueError(op)


def observe_impl(t, obs, fields, buffer_type=None):
    """observation operations: ('len',) ('get', f) ('rows',) ('tolist',) ('write',)"""
    k = obs[0]
    if k == 'len':
        return len(t)
    if k == 'get':
        return [observe.norm(v) for v in observe.column(getattr(t, obs[1]))]
    if k == 'rows':
        return observe.table_rows(t, fields)
    if k == 'tolist':
        from .c02_parsing import entry_tuple
        return [entry_tuple(e, fields) for e in t.tolist()]
    if k == 'write':
        from bionumpy.io.parser import NpBufferedWriter
        b = io.BytesIO()
        if buffer_type.__name__.startswith('Bam'):
            b.name = 'x.bam'
        NpBufferedWriter(b, buffer_type).write(t)
        return b.getvalue()
    raise ValueError(obs)


def lazy_signature(t):
    """best-effort representation signature of a lazy table (which fields are cached / set, contiguity)"""
    try:
        comp = tuple(sorted(getattr(t, '_computed_values', {}).keys()))
        sett = tuple(sorted(getattr(t, '_set_values', {}).keys()))
        buf = getattr(getattr(t, '_itemgetter', None), 'buffer', None)
        ext = getattr(buf, '_buffer_extractor', None)
        contig = getattr(ext, '_is_contigous', None)
        return (type(t).__mro__[2].__name__ if len(type(t).__mro__) > 2 else '', comp, sett, contig)
    except Exception:
        return None
