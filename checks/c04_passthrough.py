"""C04 — unmodified records and fields are written back byte-for-byte (lazy tables).

Explicit-state exploration of the register machine (checks/tableprog.py) on
lazily read tables whose source text is NOT the canonical spelling of its
values.  Oracle at `write` after every history:
 (i) history consists only of indexing operations -> output (header lines
     aside) == concatenation of the selected source records' original bytes;
 (ii) history contains a concatenation or replacement -> per record, every
     non-replaced field of the entry type keeps its source text, replaced
     fields carry the canonical text of the new value.
"""
import numpy as np

from engine import observe
from engine.result import Result, tb_string, raising_frame
from models.formats import FORMATS, LF, CRLF, Rec
from models import tables as T
from . import tableprog as tp
from .common import make_reader, exc_name

PROPERTY = 'C04'
LEVEL = 'model_checking'
RULE = ('roots = files with non-canonical but valid spellings per format x {whole read, first chunk}; histories = every sequence '
        'of {slice, step, reverse, mask, integer list with repeats, empty selection, save, concatenate both orders, replace '
        'field} up to the depth bound, deduplicated on (model rows, lazy representation signature); write is checked after '
        'every history; non-trivial = history of >= 2 operations reaching a non-empty table')
ASSUMPTIONS = [
    'header lines written before the records are not part of the byte clause (the statement speaks of the selected records)',
    'after a concatenation or replacement nothing is demanded of line terminators, of FASTQ "+name" lines or of columns beyond the entry type',
    'replacement values are arrays of the column\'s declared type',
    'GTF is read eagerly by design and is excluded; BAM roots are explored in C16',
]
EXPLANATION = 'explicit-state search over selection/concatenation/replacement histories on lazily read tables, byte-level oracle'
MANIFEST_TEXT = ('Explicit-state exploration of every history up to depth 3 (quick) / 4 (thorough) over {slice, step, reverse, '
                 'mask, integer list with repeats, empty selection, save, concatenate both orders, replace field, write, read a field} plus probes '
                 'one step deeper [select; read a field | replace; write; replace] on lazily read '
                 'BED6/BED12/narrowPeak/VCF with sample columns/SAM +/- tags/FASTQ with "+name"/two-line FASTA files (LF and CRLF) '
                 'written in non-canonical spellings (leading zeros, "+5", "1e3", "-0"): index-only histories must write exactly '
                 'the source bytes of the selected records; after concatenation/replacement every non-replaced entry field '
                 'keeps its source text and replaced fields carry canonical text.')
MANIFEST_NOTE = 'Trusted: NumPy, models/formats.py, the output splitter in this check. Depth and root files bound the space.'
TECHNIQUE = 'explicit-state BFS over operation histories on the real lazy tables with a byte-level reference model'

# roots: format -> list of records as field texts (non-canonical spellings)
ROOTS = {
    'bed6': [['c', '007', '10', 'n0', '+5', '+'], ['chr10', '12', '0034', 'a_long_name', '100', '-'],
             ['chrX', '5', '6', 'x', '-0', '.']],
    'narrowpeak': [['c', '007', '10', 'n0', '+5', '+', '1e3', '-1', '0', '03'],
                   ['chr10', '12', '0034', 'nm', '100', '-', '2.50', '3', '1.5e-2', '-1'],
                   ['chrX', '5', '6', 'x', '0', '.', '0.0', '10', '22.125', '+7']],
    'vcf_samples': [['c', '010', '.', 'A', 'T', '.', 'PASS', '.', 'GT', '0|1', '1/1'],
                    ['chr10', '12345', 'rs1', 'AC', 'G,GT', '40', '.', 'DP=1', 'GT:DP', '0|0:5', './.:0'],
                    ['2', '5', 'x;y', 'G', 'ACGT', '29.50', 'q10', 'NS=3;DB', 'GT', '1|1', '0/1']],
    'sam': [['r0', '00', 'chr1', '007', '60', '1M', '*', '0', '+0', 'A', '!', 'NM:i:0'],
            ['read1', '16', 'c', '1001', '0', '2M1I3M', '=', '0121', '-15', 'ACGTAC', 'IIII#~', 'NM:i:1\tMD:Z:6'],
            ['q', '99', '*', '0', '255', '*', 'chr1', '7', '302', '*', '*', 'RG:Z:g']],
    'sam_notags': [['r0', '00', 'chr1', '007', '60', '1M', '*', '0', '+0', 'A', '!'],
                   ['read1', '16', 'c', '1001', '0', '2M1I3M', '=', '0121', '-15', 'ACGTAC', 'IIII#~'],
                   ['q', '99', '*', '0', '255', '*', 'chr1', '7', '302', '*', '*']],
}
ROOTS['bed12'] = [['c', '007', '10', 'n0', '+5', '+', '007', '010', '0,255,0', '2', '01,2', '0,02'],
                  ['chr10', '12', '0034', 'a_long_name', '100', '-', '12', '34', '0', '1', '022', '00'],
                  ['chrX', '5', '6', 'x', '-0', '.', '5', '6', '1,2,3', '3', '1,1,1', '0,1,2']]
SEQ_ROOTS = {
    'fastq': [('s0', 'A', '!', '+s0'), ('seq_1 d', 'ACGTT', 'II#~5', '+'), ('x', 'GG', '+@', '+x')],
    'fasta2': [('s0', 'A'), ('seq_1 d', 'acgtnACGTN'), ('x', 'GG')],
}
EOLS = {'bed12': ['LF'], 'bed6': ['LF', 'CRLF'], 'fastq': ['LF', 'CRLF'], 'sam': ['LF', 'CRLF'], 'sam_notags': ['LF', 'CRLF'], 'vcf_samples': ['LF', 'CRLF'], 'fasta2': ['LF', 'CRLF']}


def root_formats():
    return list(ROOTS) + list(SEQ_ROOTS)


def fmt_obj(name):
    return FORMATS['vcf_header' if name == 'vcf_samples' else name]


def build_root(name, eol):
    """-> (format object, data bytes, per-record source bytes, model rows, fields, kinds, per-record field texts)"""
    e = LF if eol == 'LF' else CRLF
    f = fmt_obj(name)
    if name in ROOTS:
        recs = []
        texts_per_rec = []
        for texts in ROOTS[name]:
            if name == 'vcf_samples':
                r = f.record_from_texts(texts[:8])
                r = Rec([b'\t'.join(t.encode() for t in texts)], r.expected, texts)
            else:
                r = f.record_from_texts(texts)
            recs.append(r)
            texts_per_rec.append(list(texts))
        header = f.header
        if name == 'vcf_samples':
            header = (b'##fileformat=VCFv4.2', b'#CHROM\tPOS\tID\tREF\tALT\tQUAL\tFILTER\tINFO\tFORMAT\ts1\ts2')
        data = f.render(recs, e, True, header=header)
    else:
        recs = []
        texts_per_rec = []
        for tup in SEQ_ROOTS[name]:
            if name == 'fastq':
                n, s, q, plus = tup
                recs.append(Rec([b'@' + n.encode(), s.encode(), plus.encode(), q.encode()],
                                (n, s, tuple(ord(c) - 33 for c in q))))
                texts_per_rec.append([n, s, q])
            else:
                n, s = tup
                recs.append(Rec([b'>' + n.encode(), s.encode()], (n, s)))
                texts_per_rec.append([n, s])
        data = f.render(recs, e, True)
    src = [e.join(r.lines) + e for r in recs]
    rows = f.expected(recs)
    return f, data, src, rows, list(f.fields), list(f.kinds), texts_per_rec


def bounds(tier, seed):
    return {'depth': 3 if tier == 'quick' else 4, 'roots': root_formats(), 'modes': ['whole', 'first_chunk'],
            'quick_note': 'depth 3 on whole reads, depth 2 on first-chunk reads' if tier == 'quick' else None}


def shards(tier, seed):
    out = []
    for name in root_formats():
        for eol in EOLS.get(name, ['LF']):
            for mode in ('whole', 'first_chunk'):
                if tier == 'quick':
                    depth = 3 if mode == 'whole' else 2
                else:
                    depth = 4 if mode == 'whole' else 3
                out.append({'root': name, 'eol': eol, 'mode': mode, 'depth': depth})
    out.sort(key=lambda d: -d['depth'])
    return out


def read_root(f, data, mode):
    r = make_reader(data, f.buffer_type(), True)
    if mode == 'whole':
        return r.read()
    return r.read_chunk(max(1, (len(data) * 2) // 3))


def strip_header(name, out):
    m = {'vcf_samples': b'#', 'sam': b'@', 'sam_notags': b'@'}.get(name)
    if m is None:
        return out
    lines = out.split(b'\n')
    i = 0
    while i < len(lines) and lines[i].startswith(m):
        i += 1
    return b'\n'.join(lines[i:])


def split_records(name, body):
    """output bytes -> list of per-record field texts (entry-type fields only), terminators ignored"""
    text = body.decode('latin1')
    lines = [l[:-1] if l.endswith('\r') else l for l in text.split('\n')]
    if lines and lines[-1] == '':
        lines = lines[:-1]
    if name == 'fastq':
        if len(lines) % 4:
            return None
        return [[lines[i][1:], lines[i + 1], lines[i + 3]] for i in range(0, len(lines), 4)]
    if name == 'fasta2':
        if len(lines) % 2:
            return None
        return [[lines[i][1:], lines[i + 1]] for i in range(0, len(lines), 2)]
    out = []
    for l in lines:
        cells = l.split('\t')
        if name == 'sam':
            cells = cells[:11] + ['\t'.join(cells[11:])]
        elif name == 'vcf_samples':
            cells = cells[:8]
        out.append(cells)
    return out


def judge_write(name, out, model, src, texts_per_rec, fields, kinds):
    """-> None | (clause, expected, observed)"""
    body = strip_header(name, out)
    if model.index_only:
        exp = b''.join(src[sid] for (_, sid, _) in model.t)
        if body != exp:
            return ('index-only-bytes', exp.decode('latin1'), body.decode('latin1'))
        return None
    recs = split_records(name, body)
    if recs is None or len(recs) != len(model.t):
        return ('record-count', len(model.t), None if recs is None else len(recs))
    for i, (cells, (vals, sid, replaced)) in enumerate(zip(recs, model.t)):
        if name == 'sam_notags' and len(cells) == len(fields) + 1 and cells[-1] == '':
            cells = cells[:-1]      # a trailing empty column is beyond the entry-type fields: not judged
        if len(cells) != len(fields):
            return ('field-count', len(fields), cells)
        for j, (fn, kind) in enumerate(zip(fields, kinds)):
            if fn in replaced:
                v = vals[j]
                if kind == 'qual':
                    ok = True
                else:
                    k2 = {'id': 'str', 'seq': 'str', 'optint': 'int', 'vcfpos': 'vcfpos'}.get(kind, kind)
                    ok = T.cell_text_ok(k2, cells[j], v)
                if not ok:
                    return ('replaced-field-text', '%s=%r' % (fn, v), cells[j])
            else:
                if cells[j] != texts_per_rec[sid][j]:
                    return ('unreplaced-field-text', '%s: %r' % (fn, texts_per_rec[sid][j]), cells[j])
    return None


class _View:
    """the saved register seen as the current one (for judge_write)"""

    def __init__(self, model):
        self.t = model.u
        self.index_only = getattr(model, 'u_index_only', True)


def judge_saved(name, out_u, model, src, texts, fields, kinds):
    v = judge_write(name, out_u, _View(model), src, texts, fields, kinds)
    if v is not None:
        return ('saved-register:' + v[0], v[1], v[2])
    return None


def op_alphabet(fields, kinds):
    ops = list(tp.transform_ops(0))
    seen = set()
    for fn, k in zip(fields, kinds):
        if tp.replacement_values(k, 1) is not None and k not in seen:
            seen.add(k)
            ops.append(('replace', fn))
    # field access as an explored operation (it parses the field and may touch the offset tables the write relies on):
    # the list-valued / INFO-like columns, else the last column
    gets = [fn for fn, k in zip(fields, kinds) if k in ('intlist', 'info')] or [fields[-1]]
    ops += [('get', fn) for fn in gets[:2]]
    return ops


def run_history(name, f, data, mode, hist, fields, kinds, rows):
    t, u = read_root(f, data, mode), None
    n0 = len(t)
    model = tp.Model(rows[:n0], fields, kinds)
    for op in hist:
        if not model.enabled(op):
            return {'status': 'disabled'}
        try:
            t, u = tp.apply_impl(t, u, op, fields, kinds, f.buffer_type())
        except observe.ObserverError:
            raise
        except Exception as e:
            return {'status': 'raises', 'op': op, 'exc': e, 'model': model}
        model.apply(op)
    try:
        out = tp.observe_impl(t, ('write',), fields, f.buffer_type())
        out_u = tp.observe_impl(u, ('write',), fields, f.buffer_type()) if u is not None else None
    except observe.ObserverError:
        raise
    except Exception as e:
        return {'status': 'raises', 'op': ('write',), 'exc': e, 'model': model}
    return {'status': 'ok', 'out': out, 'out_u': out_u, 'model': model, 't': t, 'u': u}


def explore(res, name, eol, mode, depth, deadline):
    f, data, src, rows, fields, kinds, texts = build_root(name, eol)
    ops = op_alphabet(fields, kinds)
    seen = set()
    frontier = [()]
    for d in range(depth + 1):
        nxt = []
        for hist in frontier:
            if deadline.expired():
                res.capped = True
                return
            r = run_history(name, f, data, mode, list(hist), fields, kinds, rows)
            if r['status'] == 'disabled':
                continue
            res.evaluations += 1
            res.traces += 1
            res.planned += 1
            res.transitions += len(hist) + 1
            case = {'root': name, 'eol': eol, 'mode': mode, 'hist': [list(o) for o in hist]}
            opk = {o[0] for o in hist}
            feats = {'root': name, 'eol': eol, 'index_only': r['model'].index_only, 'has_replace': 'replace' in opk,
                     'has_concat': bool({'cat_tu', 'cat_ut'} & opk), 'empty_table': len(r['model'].t) == 0}
            if r['status'] == 'raises':
                e = r['exc']
                fe = dict(feats, failing_op=r['op'][0], exc=exc_name(e), frame='%s:%s' % raising_frame(e))
                res.fail('operation-raises-where-model-defines-a-result', case, fe, expected='a table / bytes',
                         observed=repr(e)[:300], tb=tb_string(e))
                res.outcome('raises:' + r['op'][0])
                continue
            v = judge_write(name, r['out'], r['model'], src, texts, fields, kinds)
            if v is None and r.get('out_u') is not None:
                v = judge_saved(name, r['out_u'], r['model'], src, texts, fields, kinds)
            if v is not None:
                res.fail(v[0], case, feats, expected=v[1], observed=v[2])
                res.outcome('bad:' + v[0])
                continue
            model = r['model']
            key = (model.key(), tp.lazy_signature(r['t']), tp.lazy_signature(r['u']) if r['u'] is not None else None)
            if key in seen:
                res.outcome('ok:merged')
                continue
            seen.add(key)
            res.states += 1
            if len(hist) >= 2 and len(model.t) > 0:
                res.nontrivial += 1
            res.outcome('ok:index-only' if model.index_only else 'ok:modified')
            if d < depth:
                for op in ops:
                    nxt.append(hist + (op,))
        frontier = nxt
    # hidden-state probes one step beyond the depth bound: [select rows ; read a field ; write (compacts the selection in
    # place) ; replace another field] and [select ; replace ; write ; replace] -- the written bytes are judged as above
    idx_ops = [o for o in ops if o[0] in ('slice', 'step2', 'rev', 'mask', 'fancy')]
    gets = [o for o in ops if o[0] == 'get']
    reps = [o for o in ops if o[0] == 'replace']
    probes = [(i, g, ('write',), r_) for i in idx_ops for g in gets for r_ in reps[:2]]
    probes += [(i, r1, ('write',), r2) for i in idx_ops for r1 in reps[:2] for r2 in reps[:2] if r1 != r2]
    for hist in probes if depth < 4 else []:
        if deadline.expired():
            res.capped = True
            return
        r = run_history(name, f, data, mode, list(hist), fields, kinds, rows)
        if r['status'] == 'disabled':
            continue
        res.evaluations += 1
        res.traces += 1
        res.planned += 1
        res.transitions += len(hist) + 1
        case = {'root': name, 'eol': eol, 'mode': mode, 'hist': [list(o) for o in hist]}
        feats = {'root': name, 'eol': eol, 'index_only': False, 'has_replace': True, 'has_concat': False,
                 'empty_table': len(r['model'].t) == 0, 'probe': 'select;%s;write;replace' % hist[1][0]}
        if r['status'] == 'raises':
            e = r['exc']
            res.fail('operation-raises-where-model-defines-a-result', case,
                     dict(feats, failing_op=r['op'][0], exc=exc_name(e), frame='%s:%s' % raising_frame(e)),
                     expected='a table / bytes', observed=repr(e)[:300], tb=tb_string(e))
            res.outcome('raises:' + r['op'][0])
            continue
        v = judge_write(name, r['out'], r['model'], src, texts, fields, kinds)
        if v is not None:
            res.fail(v[0], case, feats, expected=v[1], observed=v[2])
            res.outcome('bad:' + v[0])
        else:
            res.outcome('ok:probe')
    res.sample({'root': name, 'eol': eol, 'mode': mode, 'file': data.decode('latin1'), 'depth': depth, 'states': len(seen)})


def run_shard(desc, deadline):
    res = Result()
    explore(res, desc['root'], desc['eol'], desc['mode'], desc['depth'], deadline)
    return res


def replay_case(case):
    name = case['root']
    f, data, src, rows, fields, kinds, texts = build_root(name, case['eol'])
    r = run_history(name, f, data, case['mode'], [tuple(o) for o in case['hist']], fields, kinds, rows)
    if r['status'] == 'raises':
        return [{'kind': 'operation-raises-where-model-defines-a-result', 'features': {'root': name}, 'expected': 'a result',
                 'observed': repr(r['exc'])[:300], 'traceback': tb_string(r['exc'])}]
    if r['status'] == 'ok':
        v = judge_write(name, r['out'], r['model'], src, texts, fields, kinds)
        if v is None and r.get('out_u') is not None:
            v = judge_saved(name, r['out_u'], r['model'], src, texts, fields, kinds)
        if v is not None:
            return [{'kind': v[0], 'features': {'root': name}, 'expected': v[1], 'observed': v[2], 'traceback': None}]
    return []
