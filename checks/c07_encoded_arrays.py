"""C07 — encoded arrays behave like NumPy arrays of characters.

Shape B (explicit-state search over operation histories).  A state is the
history that reaches it, replayed on fresh objects returned by
bnp.as_encoded_array; registers t (current) and u (saved).  Every operation is
rendered as one line of Python source over the public API (so the replay
artefact *is* the stand-alone reproduction); the reference model
(models/strings.py) works on Python str / tuples of str.  After every history:
the value and encoding of t (and u) are compared with the model, then a battery
of observation expressions (scalar / element / column indexing, comparisons,
conversions, concatenation, copy, strops) is evaluated, each on the
*unperturbed* representation: npstructures' ravel() flattens a view in place,
so every observation runs on shallow snapshots of the registers (same
attribute objects, same representation) and the real registers' signature is
re-checked afterwards.  States are merged on
(model t, model u, sharing link, representation signature of t and u).
"""
import numpy as np

from engine import observe
from engine.result import Result, tb_string, raising_frame
from models import strings as S

PROPERTY = 'C07'
LEVEL = 'model_checking'
RULE = ('roots = every length profile of 0..N rows of length 0..M (contents fixed per profile) x {ASCII, ACGT, ACGTN} as '
        'EncodedRaggedArray, plus 1-d EncodedArrays of length 0..L and 2-d EncodedArrays; histories = every sequence, up to the '
        'depth bound, of the enabled operations {row slice/step/reverse/negative slice, boolean mask, index list (repeats, '
        'negative, empty), column slice/reverse/step/negative stop, [rows, cols], scalar row, scalar column, ravel, in-place '
        'flatten, copy, save, concatenate in both orders, item assignments}, deduplicated on (model values, sharing link, '
        'representation signature); after every history t and u are decoded and compared with the model and the observation '
        'battery is evaluated on the unperturbed representation. non-trivial = a NEW state reached by a history of >= 2 '
        'operations whose value holds at least one character (operations were applied to a non-initial representation)')
ASSUMPTIONS = [
    'contents are a fixed aperiodic fill per encoding and profile (every length profile is enumerated, not every string)',
    'only in-range indices, same-shape comparisons and assignments are generated (the quantifier excludes out-of-range indices); '
    'a column index is used only when every row is long enough',
    'memory sharing between an array and one derived from it by indexing is not judged (NumPy views vs Python copies differ and '
    'npstructures copies on ravel); only "same object" and "after copy() the source must not change" are',
    'broadcasting one character over a row-slice or column-slice of a RAGGED array is not exercised (IndexableArray.__setitem__ has no '
    'branch for it and the statement says "supported operations"); 2-d and 1-d arrays do exercise it',
    'bnp.ragged_slice is judged on 1-d input only (the docstring says column-wise, the repository test and callers use flat offsets: '
    'ambiguous for ragged input)',
    'to_string() of a 2-d array is not judged (no list-of-strings reading of it is stated)',
    'state merging reads the ragged shape class, contiguity flag, column step and start ordering via getattr; if unavailable the '
    'signature degrades to the type name (finer keys are never unsound)',
    'split/join/str_equal/string_array (io/strops.py, string_array.py: named in the mechanisms) are evaluated as observations, '
    'never as transitions',
]
EXPLANATION = ('explicit-state search over operation histories on fresh encoded arrays with a list-of-strings model stepped in '
               'lock-step; every operation is applied to every reachable representation (contiguous, row view, strided column view)')
MANIFEST_TEXT = ('Explicit-state exploration of every operation history over row/column/element indexing (int, negative, slice, '
                 'step, reversal, mask, index list with repeats, empty), ravel, in-place flatten, copy, save, concatenation in both '
                 'orders and item assignment on EncodedRaggedArray roots of every length profile (quick: <= 3 rows x length <= 3, '
                 'depth 3 for <= 1 row, 2 for 2 rows and a seed-rotated quarter of the 3-row profiles, 1 for the other 3-row '
                 'profiles; thorough: <= 4 rows x length <= 4, depth 4 / 3 / 2 / 1 by size) x {ASCII, ACGT, ACGTN}, on 1-d '
                 'EncodedArrays (length <= 4 depth 3 / <= 5 depth 4) and 2-d EncodedArrays (depth 2 / 3). After every history the '
                 'decoded value and the encoding of the result must equal the list-of-strings model, and ~40 observation '
                 'expressions per new state (scalar/element/column indexing incl. negative, ==/!= with character, string, list, '
                 'array, str_equal, split, join, ragged_slice, to_string, tolist, string_array, np.concatenate, copy '
                 'independence) are checked on the unperturbed representation. States merged on (model values, sharing, '
                 'representation signature: shape class, contiguity, column step, row order, writeability).')
MANIFEST_NOTE = ('Trusted: NumPy, CPython, engine/observe.py (ravel/raw/lengths only), the encodings\' decode tables (C06). '
                 'Bounds: rows, row length, depth, one content fill per profile.')
TECHNIQUE = 'explicit-state BFS over operation histories with a reference model in lock-step, replay on fresh objects'

ENCS = ['ascii', 'dna', 'acgtn']
ENC_SRC = {'ascii': 'None', 'dna': 'bnp.DNAEncoding', 'acgtn': 'ACGTnEncoding'}
_T2U = str.maketrans('T', 'U')
_ID = str.maketrans('', '')
OTHER_ALPHABETS = {'dna': [('ACGTnEncoding', _ID), ('bnp.encodings.alphabet_encoding.ACUGEncoding', _T2U)],
                   'acgtn': [('bnp.DNAEncoding', _ID), ('bnp.encodings.alphabet_encoding.ACUGEncoding', _T2U)]}
OTHER_LETTERS = {'ACGTnEncoding': 'ACGTN', 'bnp.DNAEncoding': 'ACGT', 'bnp.encodings.alphabet_encoding.ACUGEncoding': 'ACUG'}
N_SHARDS_PER_ENC = 16


# ------------------------------------------------------------------ bounds / roots / shards
def bounds(tier, seed):
    if tier == 'quick':
        return {'ragged_rows_max': 3, 'row_len_max': 3, 'flat_len_max': 4, 'matrix_shapes': [[2, 2], [3, 2], [1, 3], [0, 2]],
                'depth': {'ragged, <= 1 row': 3, 'ragged, 2 rows': 2,
                          'ragged, 3 rows (core)': 1, 'ragged, 3 rows, extension slice (profile index + seed) % 4 == 0': 2,
                          'flat': 3, 'matrix': 2},
                'encodings': ENCS}
    return {'ragged_rows_max': 4, 'row_len_max': 4, 'flat_len_max': 5,
            'matrix_shapes': [[2, 2], [3, 2], [1, 3], [0, 2], [2, 3], [3, 3]],
            'depth': {'ragged, <= 1 row': 4, 'ragged, 2 rows': 3, 'ragged, 3 rows of length <= 1': 3, 'ragged, other 3 rows': 2,
                      'ragged, 4 rows of length <= 1': 2, 'ragged, other 4 rows': 1, 'flat': 4, 'matrix': 3},
            'encodings': ENCS}


def _ragged_depth(tier, seed, prof, idx_in_n):
    n = len(prof)
    mx = max(prof, default=0)
    if tier == 'quick':
        if n <= 1:
            return 3
        if n == 2:
            return 2
        return 2 if (idx_in_n + seed) % 4 == 0 else 1
    if n <= 1:
        return 4
    if n == 2:
        return 3
    if n == 3:
        return 3 if mx <= 1 else 2
    return 2 if mx <= 1 else 1


def roots(tier, seed):
    """list of (root descriptor, depth), simplest first"""
    import itertools
    b = bounds(tier, seed)
    out = []
    N, M = b['ragged_rows_max'], b['row_len_max']
    for n in range(0, N + 1):
        for k, prof in enumerate(itertools.product(range(M + 1), repeat=n)):
            out.append(({'kind': 'R', 'profile': list(prof)}, _ragged_depth(tier, seed, prof, k)))
    for L in range(0, b['flat_len_max'] + 1):
        out.append(({'kind': 'S', 'len': L}, b['depth']['flat']))
        if L >= 2:
            # the same root with its conversions already used once ("warm"): anything an object memoises about
            # its own text must not survive later writes through views that share its memory
            out.append(({'kind': 'S', 'len': L, 'warm': True}, b['depth']['flat']))
    for shp in b['matrix_shapes']:
        out.append(({'kind': 'M', 'shape': list(shp)}, b['depth']['matrix']))
    for n, prof in ((2, (2, 1)), (2, (1, 2))):
        out.append(({'kind': 'R', 'profile': list(prof), 'warm': True}, b['depth'].get('ragged_warm', 2)))
    return out


def _cost(root, depth):
    """rough CPU-seconds (measured on this image) used only to balance shards"""
    if root['kind'] == 'R':
        c = 1 + len(root['profile']) + sum(root['profile'])
    elif root['kind'] == 'S':
        c = 0.4 * (2 + root['len'])
    else:
        c = 0.5 * (2 + root['shape'][0] * root['shape'][1])
    return c * {0: 0.01, 1: 0.03, 2: 0.25, 3: 1.8, 4: 14.0}[depth]


def shards(tier, seed):
    rs = roots(tier, seed)
    order = sorted(range(len(rs)), key=lambda i: -_cost(*rs[i]))
    out = []
    for enc in ENCS:
        bins = [[] for _ in range(N_SHARDS_PER_ENC)]
        load = [0.0] * N_SHARDS_PER_ENC
        for i in order:                       # greedy balancing by estimated cost
            k = load.index(min(load))
            bins[k].append(i)
            load[k] += _cost(*rs[i])
        for k in range(N_SHARDS_PER_ENC):
            out.append({'enc': enc, 'part': '%s-%d' % (enc, k), 'roots': sorted(bins[k]), 'tier': tier, 'seed': seed,
                        'est_cpu_s': round(load[k], 1)})
    out.sort(key=lambda d: -d['est_cpu_s'])
    return out


def root_value(root, enc):
    if root['kind'] == 'R':
        return ('R', S.fill_rows(root['profile'], enc))
    if root['kind'] == 'S':
        return ('S', S.fill_rows([root['len']], enc)[0])
    n, w = root['shape']
    return ('M', S.fill_rows([w] * n, enc), w)


def root_code(root, enc):
    v = root_value(root, enc)
    warm = '; t.to_string() if hasattr(t, "to_string") else None; t.tolist(); str(t); repr(t); len(t)' if root.get('warm') else ''
    if v[0] == 'R':
        return 't = bnp.as_encoded_array(%r, ENC)' % (list(v[1]),) + warm.replace('t.to_string() if hasattr(t, "to_string") else None; ', '')
    if v[0] == 'S':
        return 't = bnp.as_encoded_array(%r, ENC)' % (v[1],) + warm
    return 't = bnp.as_encoded_array(%r, ENC).reshape(%d, %d)' % (''.join(v[1]), len(v[1]), v[2])


# ------------------------------------------------------------------ operations as source text
def _idx_code(v, op):
    ik, idx = S.rows_select(v, op)
    if ik == 'slice':
        return S.sl_text(op[1], op[2], op[3])
    if ik == 'mask':
        return 'np.array(%r, dtype=bool)' % (idx,)
    if op[1] == 'neg':
        return 'np.array(%r)' % (idx,)
    return repr(idx)


def code_for(op, st, enc):
    """one line of Python for `op` applied in model state `st`"""
    v = st.t
    k = op[0]
    if k == 'save':
        return 'u = t'
    if k == 'copy':
        return 't = t.copy()'
    if k == 'touch':
        return 't.ravel()'
    if k == 'ravel':
        return 't = t.ravel()'
    if k == 'cat_tu':
        return 't = np.concatenate([t, u])'
    if k == 'cat_ut':
        return 't = np.concatenate([u, t])'
    if k in ('rs', 'rm', 'rf', 's', 'm', 'f'):
        return 't = t[%s]' % _idx_code(v, op)
    if k == 'cs':
        return 't = t[:, %s]' % S.sl_text(op[1], op[2], op[3])
    if k == 'rc':
        return 't = t[%s, %s]' % (_idx_code(v, op[1]), S.sl_text(*op[2]))
    if k == 'row':
        return 't = t[%d]' % op[1]
    if k == 'col':
        return 't = t[:, %d]' % op[1]
    # ---- assignments: the character / text written is chosen by the model so that a cell changes
    if v[0] == 'S':
        text = v[1]
        if k == 'set_i':
            return 't[%d] = %r' % (op[1], S.mut_char(enc, text[op[1]]))
        if k == 'set_s':
            s = S.sl(op[1], op[2], op[3])
            val = S.mut_char(enc, text[s]) if op[4] == 'char' else S.alt_text(enc, text[s])
            return 't[%s] = %r' % (S.sl_text(op[1], op[2], op[3]), val)
        if k == 'set_f':
            return 't[[0, -1]] = %r' % S.mut_char(enc, text[0] + text[-1])
        if k == 'set_m':
            mask = S.mask_for('alt', len(text))
            return 't[np.array(%r, dtype=bool)] = %r' % (mask, S.mut_char(enc, [c for c, m in zip(text, mask) if m]))
        raise ValueError(op)
    rows = v[1]
    if k == 'set_elem':
        i, j = S.elem_pos(rows, op[1])
        return 't[%d, %d] = %r' % (i, j, S.mut_char(enc, rows[i][j]))
    if k == 'set_col':
        return 't[:, %d] = %r' % (op[1], S.mut_char(enc, [r[op[1]] for r in rows]))
    if k == 'set_row':
        val = S.mut_char(enc, rows[op[1]]) if op[2] == 'char' else S.alt_text(enc, rows[op[1]])
        return 't[%d] = %r' % (op[1], val)
    if k == 'set_rows':
        return 't[%s] = %r' % (S.sl_text(op[1], op[2], op[3]), S.mut_char(enc, ''.join(rows[S.sl(op[1], op[2], op[3])])))
    if k == 'set_cs':
        s = S.sl(op[1], op[2], op[3])
        if op[4] == 'char':
            return 't[:, %s] = %r' % (S.sl_text(op[1], op[2], op[3]), S.mut_char(enc, ''.join(r[s] for r in rows)))
        return 't[:, %s] = bnp.as_encoded_array(%r, ENC)' % (S.sl_text(op[1], op[2], op[3]), S.set_cs_values(rows, s, enc))
    raise ValueError(op)


# ------------------------------------------------------------------ observation battery
def _eq(a, c):
    return [[x == c for x in r] for r in a]


def battery(st, enc):
    """[(clause name, expression source, result kind, expected model value)] for state st.
    Result kinds: R rows, S text, C char, M matrix rows, T python str, L python list of str, I int,
    B1 flat bools, BR nested bools, b one bool"""
    v = st.t
    out = []
    add = lambda *a: out.append(a)
    present, absent = S.compare_chars(v, enc)
    chars = [present] + ([absent] if absent else [])
    sep = S.SEP[enc]
    if v[0] == 'S':
        s = v[1]
        m = len(s)
        add('to-string', 't.to_string()', 'T', s)
        add('tolist', 't.tolist()', 'T', s)
        add('len', 'len(t)', 'I', m)
        for i in range(-m, m):
            add('idx', 't[%d]' % i, 'C', s[i])
        for i in ((0, -1) if m else ()):
            add('idx', 't[%d].to_string()' % i, 'T', s[i])
        for c in chars:
            add('eq-char', 't == %r' % c, 'B1', [x == c for x in s])
        add('ne-char', 't != %r' % present, 'B1', [x != present for x in s])
        add('eq-char-reflected', '%r == t' % present, 'B1', [x == present for x in s])
        p = S.perturbed_text(s, enc)
        add('eq-str', 't == %r' % s, 'B1', [True] * m)
        if m:
            add('eq-str', 't == %r' % p, 'B1', [a == b for a, b in zip(s, p)])
            add('ne-str', 't != %r' % p, 'B1', [a != b for a, b in zip(s, p)])
        add('eq-array', 't == bnp.as_encoded_array(%r, ENC)' % p, 'B1', [a == b for a, b in zip(s, p)])
        if m and enc in OTHER_ALPHABETS:
            # operand already encoded in ANOTHER alphabet (prefix-compatible or diverging in the middle): the library may
            # refuse ('?' = a raise is accepted); if it answers, the answer is the one for the operand's LETTERS
            for other_src, tr in OTHER_ALPHABETS[enc]:
                q = p.upper().translate(tr)
                if any(c not in OTHER_LETTERS[other_src] for c in q):
                    continue
                add('eq-array-other-alphabet?', 't == bnp.as_encoded_array(%r, %s)' % (q, other_src), 'B1',
                    [a.upper() == b for a, b in zip(s, q)])
                ok = all(c in S.ALPHABET[enc] for c in q) if hasattr(S, 'ALPHABET') else all(c in 'ACGT' + ('N' if enc == 'acgtn' else '') for c in q)
                add('set-from-other-alphabet?', 'c = t.copy(); c[:] = bnp.as_encoded_array(%r, %s); c' % (q, other_src), 'S',
                    q if ok else '<must refuse: letter not in the alphabet>')
        add('mask-elem', 't[t == %r]' % present, 'S', ''.join(x for x in s if x == present))
        add('copy', 't.copy()', 'S', s)
        if m:
            add('copy-independent', 'c = t.copy(); c[:] = %r; t' % S.mut_char(enc, s), 'S', s)
        if m >= 2:
            # NumPy semantics of basic slices: a write through a view (tail slice / reversed view) is seen by the
            # array it views, also by conversions that were already used once on that array.  All on a copy.
            c1 = S.mut_char(enc, s[1])
            c2 = S.mut_char(enc, s[-1])
            add('write-through-view', 'b = t.copy(); b.to_string(); b.tolist(); v = b[1:]; v[0] = %r; b.to_string()' % c1,
                'T', s[0] + c1 + s[2:])
            add('write-through-view', 'b = t.copy(); b.to_string(); r = b[::-1]; r[0] = %r; b.to_string()' % c2,
                'T', s[:-1] + c2)
            add('write-through-view', 'b = t.copy(); v = b[1:]; v.to_string(); b[1] = %r; v.to_string()' % c1,
                'T', c1 + s[2:])
        add('ravel', 't.ravel()', 'S', s)
        add('concat-self', 'np.concatenate([t, t])', 'S', s + s)
        add('split', 'split(t, %r)' % sep, 'R', s.split(sep))
        two = sorted({sep, present} | ({absent} if absent else set()), reverse=True)
        if len(two) >= 2:
            # a LIST of separator characters, written in descending code order, and the same list ascending
            import re as _re
            pieces = _re.split('[' + ''.join(_re.escape(c) for c in two) + ']', s)
            add('split-on-any-of', 'split(t, %r)' % (two,), 'R', pieces)
            add('split-on-any-of', 'split(t, %r)' % (two[::-1],), 'R', pieces)
        add('str-equal', 'str_equal(t, %r)' % s, 'b', True)
        if m:
            add('str-equal', 'str_equal(t, %r)' % p, 'b', False)
            add('str-equal', 'str_equal(t, %r)' % (s + present), 'b', False)
            pieces = [(0, m), (m // 2, m), (0, 1), (m - 1, m), (1, 1)]
            add('ragged-slice', 'bnp.ragged_slice(t, np.array(%r), np.array(%r))' % ([a for a, b in pieces], [b for a, b in pieces]),
                'R', [s[a:b] for a, b in pieces])
    else:
        kind = v[0]
        rows = list(v[1])
        n = len(rows)
        flat = ''.join(rows)
        if kind == 'R':
            add('tolist', 't.tolist()', 'L', rows)
            add('string-array', 'string_array(t).tolist()', 'L', rows)
        add('len', 'len(t)', 'I', n)
        add('ravel', 't.ravel()', 'S', flat)
        if kind == 'R':
            add('to-string', 't.ravel().to_string()', 'T', flat)
        add('copy', 't.copy()', kind, rows)
        if n and min(len(r) for r in rows) >= 1:
            add('copy-independent', 'c = t.copy(); c[:, -1] = %r; t' % S.mut_char(enc, [r[-1] for r in rows]), kind, rows)
        elif flat:
            i = [k for k in range(n) if rows[k]][0]
            add('copy-independent', 'c = t.copy(); c[%d] = %r; t' % (i, S.alt_text(enc, rows[i])), kind, rows)
        for i in range(-n, n):
            add('row-int', 't[%d]' % i, 'S', rows[i])
        for i in ((0, -1) if n else ()):
            add('row-int', 't[%d].to_string()' % i, 'T', rows[i])
        cells = [(i, j) for i in range(n) for j in range(len(rows[i]))]
        for i, j in cells:
            add('elem', 't[%d, %d]' % (i, j), 'C', rows[i][j])
        if n and rows[-1]:
            add('elem', 't[-1, -1]', 'C', rows[-1][-1])
        if n and rows[0]:
            add('elem', 't[%d, %d]' % (-n, -len(rows[0])), 'C', rows[0][0])
        if cells:
            add('elem-fancy', 't[%r, %r]' % ([i for i, j in cells], [j for i, j in cells]), 'S', ''.join(rows[i][j] for i, j in cells))
        minlen = min((len(r) for r in rows), default=0)
        if n:
            for j in range(-minlen, minlen):
                add('col-int', 't[:, %d]' % j, 'S', ''.join(r[j] for r in rows))
        nz = [i for i in range(n) if rows[i]]
        if nz and len(nz) < n:
            add('rows-col', 't[%r, 0]' % (nz,), 'S', ''.join(rows[i][0] for i in nz))
            add('rows-col', 't[%r, -1]' % (nz,), 'S', ''.join(rows[i][-1] for i in nz))
        if n:
            add('row-colslice', 't[0, 1:]', 'S', rows[0][1:])
            add('row-colslice', 't[%d, ::-1]' % (n - 1), 'S', rows[n - 1][::-1])
        bk = 'BR'
        add('eq-char', 't == %r' % present, bk, _eq(rows, present))
        add('ne-char', 't != %r' % chars[-1], bk, [[x != chars[-1] for x in r] for r in rows])
        add('eq-char-reflected', '%r == t' % present, bk, _eq(rows, present))
        other = S.perturbed_rows(rows, enc)
        if kind == 'R':
            other_src = 'bnp.as_encoded_array(%r, ENC)' % (other,)
            add('eq-list', 't == %r' % (rows,), bk, [[True] * len(r) for r in rows])
        else:
            other_src = 'bnp.as_encoded_array(%r, ENC).reshape(%d, %d)' % (''.join(other), n, v[2])
        if kind == 'M':
            add('eq-array', 't == ' + other_src, bk, [[a == b for a, b in zip(r, o)] for r, o in zip(rows, other)])
        add('ne-array', 't != ' + other_src, bk, [[a != b for a, b in zip(r, o)] for r, o in zip(rows, other)])
        add('mask-elem', 't[t == %r]' % present, 'S', ''.join(x for x in flat if x == present))
        add('concat-self', 'np.concatenate([t, t])', kind, rows + rows)
        if kind == 'R':
            targets = sorted(set(rows), key=lambda r: (-len(r), r))[:1] + ['']
            for s in targets:
                add('str-equal', 'str_equal(t, %r)' % s, 'B1', [r == s for r in rows])
            add('str-equal-array', 'str_equal(t, %s)' % other_src, 'B1', [a == b for a, b in zip(rows, other)])
            add('join', 'join(t, %r)' % sep, 'S', sep.join(rows))
    if st.u is not None:
        add('saved-value', 'u', st.u[0], st.u[1] if st.u[0] == 'S' else list(st.u[1]))
        # conversions of the SAVED register as well: it may share memory with t and may have been converted before
        # (warm roots); whatever it memoised must not be served after a write through t
        if st.u[0] == 'S':
            add('saved-to-string', 'u.to_string()', 'T', st.u[1])
        elif st.u[0] == 'R':
            add('saved-tolist', 'u.tolist()', 'L', list(st.u[1]))
    # the only observation that writes (into a copy) goes last: if copy() shared memory it must not disturb the others
    out.sort(key=lambda o: o[0] in ('copy-independent', 'write-through-view'))
    return out


# ------------------------------------------------------------------ implementation side
_NS_CACHE = {}
_CODE_CACHE = {}


def _base_ns(enc):
    ns = _NS_CACHE.get(enc)
    if ns is None:
        import bionumpy as bnp
        from bionumpy.encodings.alphabet_encoding import ACGTnEncoding
        from bionumpy.io.strops import split, join, str_equal
        from bionumpy.string_array import string_array
        ns = {'np': np, 'bnp': bnp, 'ACGTnEncoding': ACGTnEncoding, 'split': split, 'join': join, 'str_equal': str_equal,
              'string_array': string_array}
        ns['ENC'] = eval(ENC_SRC[enc], ns)
        _NS_CACHE[enc] = ns
    return dict(ns)


def _compiled(src, mode):
    c = _CODE_CACHE.get((src, mode))
    if c is None:
        c = _CODE_CACHE[(src, mode)] = compile(src, '<c07>', mode)
    return c


class HarnessBug(Exception):
    pass


def _guard(e):
    """errors that can only come from the generated source itself are harness errors, not observations"""
    if isinstance(e, (NameError, SyntaxError)):
        raise HarnessBug('generated code is broken: %r' % (e,)) from e


def signature(x):
    """representation signature, read without touching the object (no ravel)"""
    if x is None:
        return None
    from bionumpy.encoded_array import EncodedArray, EncodedRaggedArray
    try:
        if isinstance(x, EncodedRaggedArray):
            sh = x._shape
            cls = type(sh).__name__
            step = getattr(sh, 'col_step', None)
            if step is None:
                step = getattr(sh, '_step', None)
            step = 1 if step is None else int(step)
            starts = np.asarray(sh.starts).ravel()
            ordered = bool(np.all(starts[1:] >= starts[:-1]))
            buf = getattr(x, '_RaggedBase__data', None)
            ro = getattr(getattr(buf, 'flags', None), 'writeable', True) is False
            return 'ragged/%s/%s/step=%d/%s%s' % (cls, 'contiguous' if x.is_contigous else 'view', step,
                                                 'ordered' if ordered else 'unordered', '/read-only' if ro else '')
        if isinstance(x, EncodedArray):
            d = x.data
            signs = ','.join('+' if s > 0 else ('-' if s < 0 else '0') for s in d.strides)
            return 'array%dd/%s/%s%s' % (d.ndim, 'contiguous' if d.flags.c_contiguous else 'strided', signs,
                                        '' if d.flags.writeable else '/read-only')
    except Exception:
        pass
    return type(x).__name__


def repr_features(sig):
    """(representation class, column step) out of a signature string: facts about the operand for failure grouping"""
    if sig is None:
        return None, None
    p = sig.split('/')
    if p[0] == 'ragged':
        return p[1], int(p[3].split('=')[1])
    return 'ndarray', None


def decode(x, enc_obj):
    """library value -> (result kind, python value, encoding ok or None)"""
    from bionumpy.encoded_array import EncodedArray, EncodedRaggedArray
    from npstructures import RaggedArray
    if isinstance(x, (EncodedRaggedArray, EncodedArray)):
        same = x.encoding is enc_obj
        if not same:
            try:
                same = bool(x.encoding == enc_obj)
            except Exception:
                same = False
        try:
            if isinstance(x, EncodedRaggedArray):
                return 'R', list(observe.column(x)), same
            codes = np.asarray(observe.decode_flat(x), dtype=np.uint8)
        except observe.MalformedLibraryValue as e:
            return '?', 'malformed: %s' % e, same
        except observe.ObserverError:
            raise
        except Exception as e:       # the result's raw codes are not decodable by its own encoding
            return '?', 'undecodable: %s: %s' % (type(e).__name__, str(e)[:80]), same
        if codes.ndim == 0:
            return 'C', chr(int(codes)), same
        if codes.ndim == 1:
            return 'S', bytes(codes).decode('latin1'), same
        if codes.ndim == 2:
            return 'M', [bytes(np.ascontiguousarray(r)).decode('latin1') for r in codes], same
        return '?', 'ndim %d' % codes.ndim, same
    if isinstance(x, RaggedArray):
        if x.dtype != bool:
            return '?', 'ragged %s' % x.dtype, None
        return 'BR', [[bool(b) for b in r] for r in observe.column(x)], None
    if isinstance(x, np.ndarray):
        if x.dtype != bool:
            return '?', 'ndarray %s %r' % (x.dtype, x.tolist()), None
        if x.ndim == 0:
            return 'b', bool(x), None
        if x.ndim == 1:
            return 'B1', [bool(b) for b in x.tolist()], None
        return 'BR', [[bool(b) for b in r] for r in x.tolist()], None
    if isinstance(x, (bool, np.bool_)):
        return 'b', bool(x), None
    if isinstance(x, str):
        return 'T', x, None
    if isinstance(x, list):
        return 'L', list(x), None
    if isinstance(x, (int, np.integer)):
        return 'I', int(x), None
    return '?', 'type %s' % type(x).__name__, None


def _norm(rk, val):
    """value-level comparison: a 0-d and a 1-element 1-d result hold the same character"""
    if rk in ('C', 'S'):
        return ('S', val)
    if rk in ('R', 'M', 'L'):
        return (rk, list(val))
    return (rk, val)


def _snap(ns):
    """namespace in which t and u are shallow copies (same attribute objects, same representation) of the real registers:
    an observation that flattens its operand in place (npstructures ravel()) then leaves the real register unperturbed"""
    import copy
    out = dict(ns)
    out['t'] = copy.copy(ns['t'])
    if ns.get('u') is not None:
        out['u'] = out['t'] if ns['u'] is ns['t'] else copy.copy(ns['u'])
    return out


class Run:
    """replays one history on fresh objects"""

    def __init__(self, root, enc, hist):
        self.root, self.enc, self.hist = root, enc, [_thaw(o) for o in hist]
        st = S.State(root_value(root, enc))
        self.states = [st]
        self.codes = []
        for op in self.hist:
            self.codes.append(code_for(op, st, enc))
            st = S.apply(st, op, enc)
            self.states.append(st)
        self.final = st

    def execute(self):
        """-> ns, or raises ImplRaised(step, exception)"""
        ns = _base_ns(self.enc)
        ns['u'] = None
        exec(_compiled(root_code(self.root, self.enc), 'exec'), ns)
        for step, src in enumerate(self.codes):
            try:
                exec(_compiled(src, 'exec'), ns)
            except Exception as e:
                _guard(e)
                raise ImplRaised(step, e)
        return ns

    def source(self):
        return [root_code(self.root, self.enc)] + list(self.codes)


class ImplRaised(Exception):
    def __init__(self, step, exc):
        self.step, self.exc = step, exc


def _is_unsupported(e):
    return isinstance(e, TypeError) and 'no implementation found' in str(e)


def _empty_class(v):
    if v[0] == 'S':
        return 'zero-length' if not v[1] else 'non-empty'
    rows = v[1]
    if not rows:
        return 'zero-rows'
    if all(not r for r in rows):
        return 'all-rows-empty'
    if any(not r for r in rows):
        return 'some-row-empty'
    return 'no-empty-row'


CONVERSIONS = ('string-array', 'tolist', 'to-string', 'join', 'split', 'ravel', 'copy', 'concat-self', 'saved-to-string', 'saved-tolist')


def _features(op_name, phase, operand_value, operand_sig, exc=None):
    """facts about the case: which operation, on what kind of operand in which representation.  Coarse on purpose:
    one root cause should give few signatures, different root causes different ones."""
    cls, step = repr_features(operand_sig)
    if op_name in ('set_i', 'set_elem'):
        op_name = 'assign-scalar-index'
    elif op_name.startswith('set_'):
        op_name = 'assign'
    f = {'op': op_name, 'phase': phase, 'on': operand_value[0], 'repr': cls,
         'col_step': None if step is None else ('1' if step == 1 else 'not 1'),
         'no_characters': (S.size(operand_value) == 0) if op_name in CONVERSIONS else None, 'exc': None, 'frame': None}
    if exc is not None:
        f['exc'] = type(exc).__name__
        f['frame'] = '%s:%s' % raising_frame(exc)
    return f


def judge_transition(run):
    """Execute the history on fresh objects and judge its last transition (value + encoding of t and u).
    -> dict(status='ok'|'transition-failed'|'unsupported', fails=[(kind, features, expected, observed, exc, obs)], calls, sig, state, ns)"""
    fails = []
    prev = run.states[-2] if run.hist else None
    last_op = run.hist[-1][0] if run.hist else 'root'
    try:
        ns = run.execute()
    except ImplRaised as e:
        if e.step != len(run.hist) - 1:
            raise HarnessBug('history %r raised at inner step %d: %r' % (run.hist, e.step, e.exc))
        if _is_unsupported(e.exc):
            return {'status': 'unsupported', 'fails': [], 'calls': len(run.hist) + 1}
        osig = _operand_signature(run)
        if last_op.startswith('set_') and osig is not None and osig.endswith('/read-only'):
            # as_encoded_array(str) wraps np.frombuffer for ASCII: the NumPy array itself is read-only, and a read-only NumPy
            # array refuses assignment too -- "behaves like the NumPy array" holds; not judged
            return {'status': 'unsupported', 'fails': [], 'calls': len(run.hist) + 1, 'why': 'assignment-to-read-only-buffer'}
        f = _features(last_op, 'transition', prev.t, osig, e.exc)
        fails.append(('raises', f, 'succeeds', '%s: %s' % (type(e.exc).__name__, str(e.exc)[:200]), e.exc, None))
        return {'status': 'transition-failed', 'fails': fails, 'calls': len(run.hist) + 1}
    enc_obj = ns['ENC'] if ns['ENC'] is not None else ns['bnp'].BaseEncoding
    st = run.final
    sigs = _sigs(ns, st)
    snap = _snap(ns)
    for reg, mv in (('t', st.t), ('u', st.u)):
        if mv is None:
            continue
        rk, val, same = decode(snap[reg], enc_obj)
        exp = _norm(mv[0], mv[1] if mv[0] == 'S' else list(mv[1]))
        if _norm(rk, val) != exp or same is False:
            opv = prev.t if prev is not None else st.t
            f = _features(last_op, 'transition', opv, _operand_signature(run))
            if _norm(rk, val) != exp:
                fails.append(('value' if reg == 't' else 'saved-value', f, exp, _norm(rk, val), None, None))
            else:
                fails.append(('encoding', f, repr(enc_obj), 'result has a different encoding', None, None))
    if _sigs(ns, st) != sigs:
        raise HarnessBug('observer perturbed the registers of %r' % (run.hist,))
    return {'status': 'transition-failed' if fails else 'ok', 'fails': fails, 'calls': len(run.hist) + 1, 'sig': sigs, 'state': st,
            'ns': ns}


def _sigs(ns, st):
    return (signature(ns['t']), signature(ns['u']) if st.u is not None else None)


def judge_battery(run, ns, sigs, only_obs=None):
    """Evaluate the observation expressions of the final state, each on the unperturbed representation
    (shallow snapshots of the registers; checked afterwards).  -> (fails, number of library calls, outcome labels)"""
    fails, outcomes = [], []
    enc = run.enc
    st = run.final
    n_calls = 0
    enc_obj = ns['ENC'] if ns['ENC'] is not None else ns['bnp'].BaseEncoding
    for name, src, rk_exp, exp in battery(st, enc):
        if only_obs is not None and [name, src] != list(only_obs):
            continue
        n_calls += 1
        try:
            env = _snap(ns)
            if ';' in src:          # statements first (on the snapshot namespace), the last part is the observed expression
                pre, src_expr = src.rsplit(';', 1)
                exec(_compiled(pre.strip(), 'exec'), env)
            else:
                src_expr = src
            x = eval(_compiled(src_expr.strip(), 'eval'), env)
        except Exception as e:
            _guard(e)
            if _is_unsupported(e):
                outcomes.append(name + ':unsupported')
                continue
            if name.endswith('?'):
                outcomes.append(name + ':refused')
                continue
            f = _features(name, 'observation', st.t, sigs[0], e)
            fails.append(('raises', f, _norm(rk_exp, exp), '%s: %s' % (type(e).__name__, str(e)[:200]), e, [name, src]))
            outcomes.append(name + ':raises')
            continue
        rk, val, same = decode(x, enc_obj)
        got, want = _norm(rk, val), _norm(rk_exp, exp)
        if got != want:
            f = _features(name, 'observation', st.t, sigs[0])
            fails.append(('saved-value' if name in ('saved-value', 'copy-independent') else 'value', f, want, got, None, [name, src]))
            outcomes.append(name + ':differs')
        elif same is False:
            f = _features(name, 'observation', st.t, sigs[0])
            fails.append(('encoding', f, repr(enc_obj), 'result has a different encoding', None, [name, src]))
            outcomes.append(name + ':encoding')
        else:
            outcomes.append(name + ':ok')
    if _sigs(ns, st) != sigs:
        raise HarnessBug('an observation perturbed the registers of %r' % (run.hist,))
    return fails, n_calls, outcomes


def _operand_signature(run):
    """signature of t just before the last operation (fresh replay of the prefix)"""
    if not run.hist:
        return None
    pre = Run(run.root, run.enc, run.hist[:-1])
    try:
        return signature(pre.execute()['t'])
    except ImplRaised:
        return None


# ------------------------------------------------------------------ exploration
def explore(res, root, enc, depth, deadline):
    seen = set()
    battery_seen = set()
    frontier = [()]
    n_states = 0
    for d in range(depth + 1):
        nxt = []
        for hist in frontier:
            if deadline.expired():
                res.capped = True
                return
            run = Run(root, enc, hist)
            r = judge_transition(run)
            res.evaluations += 1
            res.traces += 1
            res.planned += 1
            res.transitions += r['calls']
            case = {'root': root, 'enc': enc, 'hist': run.hist}
            if r['status'] == 'unsupported':
                res.unsupported += 1
                res.outcome('not-judged:%s:%s' % (r.get('why', 'numpy-reports-no-implementation'), run.hist[-1][0] if run.hist else 'root'))
                continue
            if r['status'] == 'transition-failed':
                for kind, f, exp, obs, exc, ob in r['fails']:
                    _record(res, kind, dict(case, obs=ob), f, exp, obs, exc)
                res.outcome('pruned:%s:%s' % (r['fails'][0][0], run.hist[-1][0] if run.hist else 'root'))
                continue
            st = r['state']
            key = (st.key(), r['sig'])
            if key in seen:
                res.outcome('merged')
                continue
            seen.add(key)
            bkey = (st.t, r['sig'][0])
            if bkey in battery_seen:          # same value and representation of t under another saved register: only u is new
                fails, calls, outcomes = judge_battery(run, r['ns'], r['sig'], only_obs=['saved-value', 'u'])
            else:
                battery_seen.add(bkey)
                fails, calls, outcomes = judge_battery(run, r['ns'], r['sig'])
            res.transitions += calls
            res.states += 1
            n_states += 1
            if len(hist) >= 2 and S.size(st.t) >= 1:
                res.nontrivial += 1
            for kind, f, exp, obs, exc, ob in fails:
                _record(res, kind, dict(case, obs=ob), f, exp, obs, exc)
            res.outcome('state:%s:%s%s' % (st.t[0], r['sig'][0], ':obs-failures' if fails else ''))
            for o in outcomes:
                res.extra['observation ' + o] += 1
            if d < depth:
                for op in S.menu(st, enc):
                    nxt.append(hist + (_freeze(op),))
        frontier = nxt
    res.sample({'root': root, 'enc': enc, 'depth': depth, 'states': n_states,
                'source_of_one_deepest_history': Run(root, enc, frontier[len(frontier) // 2]).source() if frontier else None})


def _record(res, kind, case, features, expected, observed, exc):
    from engine.result import sig_key, MAX_EXEMPLARS
    g = res.fail_groups.get(sig_key(kind, features))
    need_tb = exc is not None and (g is None or len(g['exemplars']) < MAX_EXEMPLARS)     # tracebacks are costly to format
    res.fail(kind, case, features, expected=expected, observed=observed, tb=tb_string(exc) if need_tb else None)


def _freeze(op):
    return tuple(_freeze(x) if isinstance(x, (list, tuple)) else x for x in op)


def _thaw(op):
    return [_thaw(x) if isinstance(x, (list, tuple)) else x for x in op]


def run_shard(desc, deadline):
    import time
    res = Result()
    rs = roots(desc['tier'], desc.get('seed', 0))
    t0 = time.process_time()
    for i in desc['roots']:
        root, depth = rs[i]
        explore(res, root, desc['enc'], depth, deadline)
        if res.capped:
            break
    res.extra['cpu_seconds (sum over shards)'] += round(time.process_time() - t0, 2)
    return res


def replay_case(case):
    run = Run(case['root'], case['enc'], case['hist'])
    r = judge_transition(run)
    fails = r['fails']
    if r['status'] == 'ok' and case.get('obs') is not None:
        fails, _, _ = judge_battery(run, r['ns'], r['sig'], only_obs=case['obs'])
    return [{'kind': kind, 'features': f, 'expected': exp, 'observed': obs, 'traceback': tb_string(exc) if exc is not None else None}
            for kind, f, exp, obs, exc, _ in fails]


def repro_py(case):
    run = Run(case['root'], case['enc'], case['hist'])
    lines = ['import numpy as np, bionumpy as bnp',
             'from bionumpy.encodings.alphabet_encoding import ACGTnEncoding',
             'from bionumpy.io.strops import split, join, str_equal',
             'from bionumpy.string_array import string_array',
             'ENC = %s' % ENC_SRC[case['enc']], 'u = None'] + run.source()
    st = run.final
    if case.get('obs'):
        name, src = case['obs']
        exp = [e for e in battery(st, case['enc']) if [e[0], e[1]] == [name, src]]
        if ';' in src:
            pre, src = src.rsplit(';', 1)
            lines += [x.strip() for x in pre.split(';')]
        lines.append('print(repr(%s))' % src.strip())
        if exp:
            lines.append('# expected (%s): %r' % (name, exp[0][3]))
    else:
        lines.append('print(repr(t))')
        lines.append('# expected: %r' % (st.t[1],))
    return '\n'.join(lines) + '\n'
