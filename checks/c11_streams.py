"""C11 — streamed evaluation equals in-memory evaluation for every chunking.

Histories: a sorted dataset of n entries (every composition of n into <= 3
key groups) x ALL 2^(n-1) ways of cutting it into consecutive chunks x every
listed computation, evaluated on the stream of chunks and on the concatenated
table.  Re-chunking: order and total preserved, every chunk but the last has
exactly n' entries, the last has 1..n'.  Per-chromosome pipelines
(stream=True style, evaluated with bnp.compute) against the in-memory
pipeline on the same genome.
"""
import io
import itertools

import numpy as np

from engine import observe
from engine.result import Result, tb_string, raising_frame
from .common import exc_name

PROPERTY = 'C11'
LEVEL = 'model_checking'
RULE = ('dataset = n sorted entries with a group-size profile (composition of n into <= 3 groups); chunking = one of all '
        '2^(n-1) cut sets; computation = one of the registry; a case = (profile, cut set, computation); non-trivial = the cut '
        'set is non-empty (>= 2 chunks); cut sets that split a group and single-entry chunks are all included')
ASSUMPTIONS = [
    'histogram is called with explicit bin edges (with bins=int NumPy derives the edges from each chunk by definition)',
    'reference = the same library computation on the concatenated data (differential oracle); re-chunking is judged against '
    'its stated contract',
    'results are compared by value (a generator of results is materialised; float results to 1e-9)',
    'no sampling for n above the bound',
]
EXPLANATION = 'exhaustive enumeration of chunkings (all cut sets) x computations, streamed vs in-memory'
MANIFEST_TEXT = ('Every dataset profile of n = 1..7 (quick) / 1..10 (thorough) sorted entries in <= 3 key groups x all 2^(n-1) '
                 'chunkings x computations {mean axis None/0, bincount, histogram(edges), count_kmers, groupby on str / identifier / '
                 'int keys, chunk_entries(n\') for every n\' = 1..n+1, chunk_lines on file buffers, user streamable function with '
                 'sum and list reductions, get_reverse_complement on a stream} and per-chromosome pipelines on genomes of 1..3 '
                 'chromosomes {pileup sum/data, mask data, two reductions sharing a node, histogram reduction, values under '
                 'intervals: row max and column mean; stranded=True intervals extended to a size: pileup sum/data, mask data} evaluated with bnp.compute: streamed result == in-memory result; '
                 're-chunking yields chunks of exactly n\' except a last chunk of 1..n\'. Long entries: four sequences of 400 001 bases x all 8 '
                 'chunkings (chunks of 0.4 to 1.6 million k-mers) x count_kmers k = 1, 2 against whole-array NumPy counts. For chunkings with <= 2 cuts also '
                 'a chunk without entries at the start, after the first chunk and at the end of the stream.')
MANIFEST_NOTE = 'Trusted: NumPy; the in-memory evaluation of the same library function is the reference (differential).'
TECHNIQUE = 'bounded exhaustive enumeration of all chunkings x computations, differential against in-memory evaluation'


def bounds(tier, seed):
    return {'max_n': 7 if tier == 'quick' else 10, 'max_groups': 3,
            'pipeline_genomes': [1, 2, 3], 'pipeline_max_entries': 5 if tier == 'quick' else 6}


def compositions_upto(n, k):
    """all compositions of n into 1..k positive parts"""
    for parts in range(1, k + 1):
        for cuts in itertools.combinations(range(1, n), parts - 1):
            b = (0,) + cuts + (n,)
            yield tuple(b[i + 1] - b[i] for i in range(parts))


def all_cuts(n):
    for bits in itertools.product((0, 1), repeat=max(0, n - 1)):
        yield tuple(i + 1 for i, b in enumerate(bits) if b)


_E = []


def entry_class():
    if not _E:
        import bionumpy as bnp
        from bionumpy.bnpdataclass import bnpdataclass
        from bionumpy.typing import SequenceID

        @bnpdataclass
        class E:
            key_str: str
            key_id: SequenceID
            key_int: int
            value: int
            seq: bnp.DNAEncoding
        _E.append(E)
    return _E[0]


KEYS = [('a', 1), ('bb', 2), ('ccc', 7)]
SEQS = ['ACGT', 'AC', 'GGT', 'ACGTT', 'A', 'TTTT', 'CA', 'GATTACA', 'C', 'AGAG']


def dataset_rows(profile):
    rows = []
    i = 0
    for g, size in enumerate(profile):
        for _ in range(size):
            rows.append((KEYS[g][0], KEYS[g][0], KEYS[g][1], (3 * i + g) % 8, SEQS[i % len(SEQS)]))
            i += 1
    return rows


def mk(rows):
    E = entry_class()
    if not rows:
        return E.empty()
    return E([r[0] for r in rows], [r[1] for r in rows], [r[2] for r in rows], [r[3] for r in rows], [r[4] for r in rows])


def chunks_of(rows, cuts):
    b = [0] + list(cuts) + [len(rows)]
    return [rows[a:c] for a, c in zip(b[:-1], b[1:])]


def mk_stream(rows, cuts, empty_at=None):
    """empty_at: position at which a chunk WITHOUT entries is inserted (a chunk in which nothing passed a filter)"""
    from bionumpy.streams import NpDataclassStream
    chunks = chunks_of(rows, cuts)
    if empty_at is not None:
        chunks.insert(min(empty_at, len(chunks)), [])
    return NpDataclassStream(iter([mk(c) for c in chunks]), dataclass=entry_class())


def val(v):
    """library result -> comparable Python value"""
    import types
    if isinstance(v, types.GeneratorType):
        return tuple(val(x) for x in v)
    if isinstance(v, (tuple, list)):
        return tuple(val(x) for x in v)
    if hasattr(v, 'counts') and hasattr(v, 'alphabet'):
        return ('counts', tuple(int(x) for x in np.asarray(v.counts).ravel()), tuple(v.alphabet))
    if hasattr(v, 'to_array') and not isinstance(v, np.ndarray):
        v = np.asarray(v.to_array())       # run-length encoded result
    if isinstance(v, np.ndarray):
        return tuple(round(float(x), 9) for x in np.ravel(v).tolist())
    if isinstance(v, (np.generic, int, float)):
        return round(float(v), 9)
    return v


# ---------------------------------------------------------------- stream computations: f(source) where source is table or stream
def _col(src, name):
    return getattr(src, name)


def comp_registry():
    import bionumpy as bnp
    from bionumpy.streams import streamable

    @streamable(sum)
    def total_value(chunk):
        return int(np.sum(chunk.value))

    @streamable(list)
    def lens(chunk):
        return len(chunk)

    def groupby_obs(src, key):
        return tuple((str(k), tuple(observe.table_rows(v))) for k, v in bnp.groupby(src, key))

    reg = {
        'mean': lambda s: val(bnp.mean(_col(s, 'value'))),
        'mean_axis0': lambda s: val(bnp.mean(_col(s, 'value'), axis=0)),
        'bincount': lambda s: val(bnp.bincount(_col(s, 'value'))),
        'histogram_edges': lambda s: val(bnp.histogram(_col(s, 'value'), bins=[0, 2, 5, 10])),
        'count_kmers_2': lambda s: val(bnp.sequence.count_kmers(_col(s, 'seq'), 2)),
        'count_kmers_1': lambda s: val(bnp.sequence.count_kmers(_col(s, 'seq'), 1)),
        'groupby_str': lambda s: groupby_obs(s, 'key_str'),
        'groupby_id': lambda s: groupby_obs(s, 'key_id'),
        'groupby_int': lambda s: groupby_obs(s, 'key_int'),
        'user_sum': lambda s: val(total_value(s)),
        'revcomp': None,   # handled specially (concatenation of the per-chunk results)
    }
    return reg, lens


def run_stream_case(res, profile, cuts, cname, reg, empty_at=None):
    rows = dataset_rows(profile)
    case = {'part': 'stream', 'profile': list(profile), 'cuts': list(cuts), 'comp': cname, 'empty_at': empty_at}
    splits_group = any(0 < sum(profile[:g + 1]) != c and True for c in cuts for g in range(len(profile))) and \
        any(c not in {sum(profile[:g + 1]) for g in range(len(profile))} for c in cuts)
    feats = {'comp': cname, 'cut_inside_group': bool(splits_group), 'single_chunk': len(cuts) == 0}
    if empty_at is not None:
        feats['empty_chunk'] = 'first' if empty_at == 0 else ('last' if empty_at > len(cuts) else 'middle')
    import bionumpy as bnp
    res.evaluations += 1
    res.states += 1
    res.planned += 1
    res.traces += 1
    res.transitions += 2
    if cuts:
        res.nontrivial += 1
    try:
        if cname == 'revcomp':
            ref = tuple(observe.column(bnp.sequence.get_reverse_complement(mk(rows).seq)))
        else:
            ref = reg[cname](mk(rows))
    except observe.ObserverError:
        raise
    except Exception as e:
        res.unsupported += 1
        res.outcome('reference-raises:' + exc_name(e))
        return
    try:
        if cname == 'revcomp':
            got = tuple(x for c in bnp.sequence.get_reverse_complement(mk_stream(rows, cuts, empty_at).seq) for x in observe.column(c))
        else:
            got = reg[cname](mk_stream(rows, cuts, empty_at))
    except observe.ObserverError:
        raise
    except Exception as e:
        res.fail('streamed-raises', case, dict(feats, exc=exc_name(e)), expected=ref, observed=repr(e)[:300], tb=tb_string(e))
        res.outcome('streamed-raises')
        return
    if got != ref:
        res.fail('streamed-differs-from-in-memory', case, feats, expected=ref, observed=got)
        res.outcome('differs')
    else:
        res.outcome('equal:' + cname)


# ---------------------------------------------------------------- long entries: chunks above / below a million k-mers
# The datasets above are small; a computation that switches to block-wise evaluation for long inputs depends on the
# chunking only when a chunk is long.  Four entries of ~400 000 bases: every chunking (8) x the k-mer counts; chunks of 1,
# 2, 3 and 4 entries hold 0.4, 0.8, 1.2 and 1.6 million k-mers.  Oracle: in-memory result AND whole-array NumPy counts.
BIG_LEN = 400001
_BIG = {}


def big_rows():
    if 'rows' not in _BIG:
        rows = []
        for i, r in enumerate(dataset_rows((2, 2))):
            pat = SEQS[(i + 3) % len(SEQS)] + 'ACGGT'[i:] + 'T' * i
            rows.append(r[:4] + ((pat * (BIG_LEN // len(pat) + 2))[:BIG_LEN + i],))
        _BIG['rows'] = rows
    return _BIG['rows']


def big_model(k):
    idx = {c: i for i, c in enumerate('ACGT')}
    total = np.zeros(4 ** k, dtype=np.int64)
    for r in big_rows():
        a = np.frombuffer(r[4].encode(), dtype=np.uint8)
        code = np.zeros(256, dtype=np.int64)
        for c, i in idx.items():
            code[ord(c)] = i
        a = code[a]
        m = len(a) - k + 1
        c = np.zeros(m, dtype=np.int64)
        for j in range(k):
            c += a[j:j + m] * 4 ** j
        total += np.bincount(c, minlength=4 ** k)
    return tuple(int(x) for x in total)


def run_big_case(res, cuts, k):
    import bionumpy as bnp
    rows = big_rows()
    case = {'part': 'stream-big', 'cuts': list(cuts), 'k': k}
    feats = {'comp': 'count_kmers_%d' % k, 'entries': 'long (4 x 400 001 bases)', 'single_chunk': len(cuts) == 0,
             'largest_chunk_above_10^6_kmers': max(len(c) for c in chunks_of(rows, cuts)) >= 3}
    res.evaluations += 1
    res.states += 1
    res.planned += 1
    res.traces += 1
    res.transitions += 1
    res.nontrivial += 1
    want = big_model(k)
    try:
        got = val(bnp.sequence.count_kmers(mk_stream(rows, cuts).seq, k))
    except observe.ObserverError:
        raise
    except Exception as e:
        res.fail('streamed-raises', case, dict(feats, exc=exc_name(e)), expected='counts', observed=repr(e)[:300], tb=tb_string(e))
        return
    if got[1] != want:
        res.fail('streamed-differs-from-in-memory', case, feats, expected=want, observed=got[1])
        res.outcome('differs')
    else:
        res.outcome('equal:big:count_kmers_%d' % k)


def run_rechunk_case(res, profile, cuts, n2):
    from bionumpy.streams.chunk_entries import chunk_entries
    rows = dataset_rows(profile)
    n = len(rows)
    case = {'part': 'chunk_entries', 'profile': list(profile), 'cuts': list(cuts), 'n2': n2}
    sizes = [len(c) for c in chunks_of(rows, cuts)]
    feats = {'comp': 'chunk_entries', 'some_input_chunk_ge_2n': any(s >= 2 * n2 for s in sizes)}
    res.evaluations += 1
    res.states += 1
    res.planned += 1
    res.traces += 1
    res.transitions += 1
    if cuts:
        res.nontrivial += 1
    try:
        out = [observe.table_rows(c) for c in chunk_entries(mk_stream(rows, cuts), n2)]
    except observe.ObserverError:
        raise
    except Exception as e:
        res.fail('rechunk-raises', case, dict(feats, exc=exc_name(e)), expected='chunks', observed=repr(e)[:300], tb=tb_string(e))
        return
    flat = [r for c in out for r in c]
    exp = observe.table_rows(mk(rows))
    lens = [len(c) for c in out]
    if flat != exp:
        res.fail('rechunk-changes-entries-or-order', case, feats, expected=exp, observed=out)
    elif any(l != n2 for l in lens[:-1]) or (lens and not (1 <= lens[-1] <= n2)):
        res.fail('rechunk-sizes', case, feats, expected='all %d except a last of 1..%d' % (n2, n2), observed=lens)
        res.outcome('bad-sizes')
    else:
        res.outcome('rechunk-ok')


def run_chunk_lines_case(res, profile, cuts, n2):
    """chunk_lines on the chunks delivered by the BED reader for a chunk size derived from the cut set"""
    from bionumpy.io.parser import NumpyFileReader, chunk_lines
    from bionumpy.io.npdataclassreader import NpDataclassReader
    from bionumpy.io.delimited_buffers import BedBuffer
    rows = dataset_rows(profile)
    n = len(rows)
    lines = [('%s\t%d\t%d\n' % (r[1], r[3], r[3] + 1)).encode() for r in rows]
    data = b''.join(lines)
    k = max(1, len(lines[0]) * (1 + len(cuts) % 3))
    case = {'part': 'chunk_lines', 'profile': list(profile), 'cuts': list(cuts), 'n2': n2}
    feats = {'comp': 'chunk_lines'}
    res.evaluations += 1
    res.states += 1
    res.planned += 1
    res.traces += 1
    res.transitions += 1
    try:
        bufs = NpDataclassReader(NumpyFileReader(io.BytesIO(data), BedBuffer)).read_chunks(k)
        out = [observe.table_rows(b) for b in chunk_lines(bufs, n2)]
    except observe.ObserverError:
        raise
    except Exception as e:
        res.fail('rechunk-raises', case, dict(feats, exc=exc_name(e)), expected='chunks', observed=repr(e)[:300], tb=tb_string(e))
        return
    flat = [r for c in out for r in c]
    exp = [(r[1], r[3], r[3] + 1) for r in rows]
    lens = [len(c) for c in out]
    if flat != exp:
        res.fail('rechunk-changes-entries-or-order', case, feats, expected=exp, observed=out)
    elif any(l != n2 for l in lens[:-1]) or (lens and not (0 <= lens[-1] <= n2)):
        res.fail('rechunk-sizes', case, feats, expected='all %d except the last' % n2, observed=lens)
    else:
        res.outcome('chunk-lines-ok')


# ---------------------------------------------------------------- genome pipelines
PIPE_INTERVALS = [(1, 4), (2, 3), (0, 2), (1, 2), (1, 5), (0, 6)]


def pipeline_entries(n_chrom, profile):
    ents = []
    i = 0
    for g, size in enumerate(profile):
        for _ in range(size):
            a, b = PIPE_INTERVALS[i % len(PIPE_INTERVALS)]
            ents.append(('chr%d' % (g + 1), a, b))
            i += 1
    return ents


def pipe_registry():
    import bionumpy as bnp

    def rows_of(t):
        return tuple(observe.table_rows(t))

    def shared(gi):
        p = gi.get_pileup()
        return val(bnp.compute([(p + p).sum(), (p > 1).sum()]))

    def under(gi_p, gi_m, how):
        x = gi_p.get_pileup()[gi_m]
        r = x.max(axis=-1) if how == 'rowmax' else x.mean(axis=0)
        return val(bnp.compute(r))

    return {
        'pileup_sum': lambda mk_gi: val(bnp.compute(mk_gi().get_pileup().sum())),
        'pileup_data': lambda mk_gi: rows_of(bnp.compute(mk_gi().get_pileup().get_data())),
        'mask_data': lambda mk_gi: rows_of(bnp.compute(mk_gi().get_mask().get_data())),
        'shared_node_two_reductions': lambda mk_gi: shared(mk_gi()),
        'histogram_reduction': lambda mk_gi: val(bnp.compute(np.histogram(mk_gi().get_pileup(), bins=[0, 1, 2, 5]))),
        'under_intervals_rowmax': lambda mk_gi: under(mk_gi(), mk_gi(), 'rowmax'),
        'under_intervals_colmean': lambda mk_gi: under(mk_gi(), mk_gi(), 'colmean'),
        # the non-default stranded=True route (strand-aware extension before the pileup)
        'stranded_extended_pileup_sum': lambda mk_gi: val(bnp.compute(mk_gi().extended_to_size(3).get_pileup().sum())),
        'stranded_extended_pileup_data': lambda mk_gi: rows_of(bnp.compute(mk_gi().extended_to_size(3).get_pileup().get_data())),
        'stranded_mask_data': lambda mk_gi: rows_of(bnp.compute(mk_gi().get_mask().get_data())),
    }


def run_pipeline_case(res, n_chrom, profile, cuts, pname, preg):
    import bionumpy as bnp
    from bionumpy.datatypes import Interval
    from bionumpy.streams import NpDataclassStream
    ents = pipeline_entries(n_chrom, profile)
    g = bnp.Genome.from_dict({'chr%d' % (i + 1): 7 for i in range(n_chrom)})

    stranded = pname.startswith('stranded')
    if stranded:
        from bionumpy.datatypes import StrandedInterval
        strand_of = {tuple(e): '+-'[i % 2] for i, e in enumerate(ents)}

    def tab(rs):
        if stranded:
            return StrandedInterval([r[0] for r in rs], [r[1] for r in rs], [r[2] for r in rs], [strand_of[tuple(r)] for r in rs])
        return Interval([r[0] for r in rs], [r[1] for r in rs], [r[2] for r in rs])

    kw = {'stranded': True} if stranded else {}

    def mem():
        return g.get_intervals(tab(ents), **kw)

    def streamed():
        return g.get_intervals(NpDataclassStream(iter([tab(c) for c in chunks_of(ents, cuts)]),
                                                 dataclass=StrandedInterval if stranded else Interval), **kw)

    case = {'part': 'pipeline', 'n_chrom': n_chrom, 'profile': list(profile), 'cuts': list(cuts), 'pipe': pname}
    feats = {'comp': 'pipeline:' + pname, 'chromosome_without_data': len(profile) < n_chrom}
    res.evaluations += 1
    res.states += 1
    res.planned += 1
    res.traces += 1
    res.transitions += 2
    if cuts:
        res.nontrivial += 1
    try:
        ref = preg[pname](mem)
    except observe.ObserverError:
        raise
    except Exception as e:
        res.unsupported += 1
        res.outcome('reference-raises:' + exc_name(e))
        return
    try:
        got = preg[pname](streamed)
    except observe.ObserverError:
        raise
    except Exception as e:
        res.fail('streamed-raises', case, dict(feats, exc=exc_name(e)), expected=ref, observed=repr(e)[:300], tb=tb_string(e))
        res.outcome('streamed-raises')
        return
    if got != ref:
        res.fail('streamed-differs-from-in-memory', case, feats, expected=ref, observed=got)
        res.outcome('differs')
    else:
        res.outcome('equal:pipeline')


def shards(tier, seed):
    b = bounds(tier, seed)
    out = []
    for n in range(1, b['max_n'] + 1):
        for profile in compositions_upto(n, b['max_groups']):
            out.append({'part': 'stream', 'profile': list(profile)})
    for nc in b['pipeline_genomes']:
        for n in range(1, b['pipeline_max_entries'] + 1):
            for profile in compositions_upto(n, nc):
                out.append({'part': 'pipeline', 'n_chrom': nc, 'profile': list(profile)})
    out.sort(key=lambda d: -sum(d['profile']))
    return [{'part': 'stream-big', 'profile': [2, 2], 'k': 1}, {'part': 'stream-big', 'profile': [2, 2], 'k': 2}] + out


def run_shard(desc, deadline):
    res = Result()
    profile = tuple(desc['profile'])
    n = sum(profile)
    if desc['part'] == 'stream-big':
        for cuts in all_cuts(n):
            if deadline.expired():
                res.capped = True
                return res
            run_big_case(res, cuts, desc['k'])
        # the whole table in memory (no stream) against the same whole-array counts
        import bionumpy as bnp
        got = val(bnp.sequence.count_kmers(mk(big_rows()).seq, desc['k']))
        res.transitions += 1
        if got[1] != big_model(desc['k']):
            res.fail('streamed-differs-from-in-memory', {'part': 'stream-big', 'cuts': None, 'k': desc['k']},
                     {'comp': 'count_kmers_%d' % desc['k'], 'entries': 'long (4 x 400 001 bases)', 'in_memory': True},
                     expected=big_model(desc['k']), observed=got[1])
        return res
    if desc['part'] == 'stream':
        reg, _ = comp_registry()
        for cuts in all_cuts(n):
            if deadline.expired():
                res.capped = True
                return res
            for cname in reg:
                run_stream_case(res, profile, cuts, cname, reg)
            if len(cuts) <= 2:
                # a chunk without entries at the start, after the first chunk and at the end of the stream
                for empty_at in sorted({0, 1, len(cuts) + 1}):
                    for cname in reg:
                        run_stream_case(res, profile, cuts, cname, reg, empty_at)
            for n2 in range(1, n + 2):
                run_rechunk_case(res, profile, cuts, n2)
            if len(cuts) <= 2:
                for n2 in range(1, n + 2):
                    run_chunk_lines_case(res, profile, cuts, n2)
        res.sample({'profile': list(profile), 'rows': [list(r) for r in dataset_rows(profile)], 'chunkings': 2 ** max(0, n - 1)})
    else:
        preg = pipe_registry()
        for cuts in all_cuts(n):
            if deadline.expired():
                res.capped = True
                return res
            for pname in preg:
                run_pipeline_case(res, desc['n_chrom'], profile, cuts, pname, preg)
        res.sample({'genome_chromosomes': desc['n_chrom'], 'entries': pipeline_entries(desc['n_chrom'], profile)})
    return res


def replay_case(case):
    res = Result()
    profile = tuple(case.get('profile', (2, 2)))
    cuts = tuple(case['cuts'] or ())
    if case['part'] == 'stream-big':
        if case['cuts'] is None:
            import bionumpy as bnp
            got = val(bnp.sequence.count_kmers(mk(big_rows()).seq, case['k']))
            if got[1] != big_model(case['k']):
                res.fail('streamed-differs-from-in-memory', case, {'comp': 'count_kmers_%d' % case['k'],
                         'entries': 'long (4 x 400 001 bases)', 'in_memory': True}, expected=big_model(case['k']), observed=got[1])
        else:
            run_big_case(res, tuple(case['cuts']), case['k'])
    elif case['part'] == 'stream':
        reg, _ = comp_registry()
        run_stream_case(res, profile, cuts, case['comp'], reg, case.get('empty_at'))
    elif case['part'] == 'chunk_entries':
        run_rechunk_case(res, profile, cuts, case['n2'])
    elif case['part'] == 'chunk_lines':
        run_chunk_lines_case(res, profile, cuts, case['n2'])
    else:
        run_pipeline_case(res, case['n_chrom'], profile, cuts, case['pipe'], pipe_registry())
    return [{'kind': g['kind'], 'features': g['features'], 'observed': g['exemplars'][0]['observed'],
             'expected': g['exemplars'][0]['expected'], 'traceback': g['exemplars'][0]['traceback']}
            for g in res.fail_groups.values()]
