"""C09 -- genomic arrays are exact, lossless views of dense per-base arrays.

A case is (genome, root arrays, expression tree).  Roots are built by the real library from bedGraph records
(Genome.get_track) or from interval sets (Genome.get_intervals(...).get_mask() / .get_pileup()); the tree is
evaluated on the real GenomicArray objects with Python operators / NumPy ufuncs and, in lock-step, on dense
NumPy arrays (models/genome.py).  Sections:

  bg     shape A: EVERY bedGraph of the genome (every run layout = every combination of 'starts at 0 / later',
         'ends at size / before', gap / no gap, per contig; value assignments int / float / bool, explicit zero
         runs; the empty bedGraph), full observation of the array + a fixed menu of derived expressions
  iv     shape A: every multiset of <= K intervals in several input orders -> mask and pileup, same observations
  rl     shape A: GenomicRunLengthArray.from_intervals(starts, ends, size) directly (the prefix / postfix events)
  pairs  shape B, depth 1 with EVERY track as root: every ordered pair of bedGraph tracks of a genome x
         {+ - * < > ==}; every ordered pair of masks x {& |}  (all run alignments of two operands)
  deep   shape B: BFS over expression results from a small root set, all binary / scalar / unary operators,
         states merged on (dense value, dtype, run boundaries of the implementation)

Oracle clauses (= failure `kind`s) -- one per clause of the statement:
  construction-raises / operation-raises     building the array / applying the operator failed
  to_dict-contigs, to_dict-length, to_dict-values   expansion: contig names+order, length == contig size, values
  result-values                              operator result differs from the same NumPy operation on dense arrays
  get_data-<clause>, to_bedgraph-<clause>    back-conversion: unknown-contig / not-genome-order / overlapping /
                                             outside-contig / expands-differently  (models.genome.judge_records)
  extract-values                             array[contig] expands differently from the contig's dense slice
  sum-differs, histogram-differs             reductions differ from np.sum / np.histogram(bins=edges) on the dense array
  str-differs                                str() shows other values than the dense array (only when parsable)
  <observation>-raises                       the observation call itself failed
"""
import itertools
import math

import numpy as np

from engine import observe
from engine.result import Result, tb_string
from models import genome as M
from .common import exc_name

PROPERTY = 'C09'
LEVEL = 'model_checking'
TECHNIQUE = ('bounded exhaustive enumeration of bedGraphs / interval sets (shape A) and explicit-state breadth-first search '
             'over expression results (shape B) against dense per-base NumPy arrays')
RULE = ('a case = (genome, root arrays, expression tree). Roots: every run layout of every contig (itertools.product over '
        'contigs of every list of disjoint runs) x value assignment (every assignment from the value set, or a fixed pattern '
        'along the genome, as listed in bounds), every multiset of <= K intervals in the listed input orders. Trees: the '
        'derived menu on every root; every ordered pair of roots x every binary operator (pairs); BFS closure up to the depth '
        'bound with states merged on (dense value, dtype, run boundaries) (deep). Never sampled. Non-trivial = the dense array '
        'of the case\'s result holds at least two different values (so gap filling / run alignment / run splitting at contig '
        'boundaries really happened)')
ASSUMPTIONS = [
    'bedGraph records are sorted, non-overlapping, inside their contig and in genome order (preconditions of the statement)',
    'values are small integers and dyadic floats (0.5, 2.0), so run-length and dense sums are bit-identical (DESIGN 4.3)',
    '~ & | are applied only to arrays the library itself produced as boolean (comparison results, get_mask()); a bool-VALUED '
    'bedGraph is checked for value-equal expansion only; arithmetic and comparisons only on numeric arrays (DESIGN 4.3)',
    'values are compared at value level (1 == 1.0 == True); a dtype class that differs from NumPy\'s is counted in '
    'extra[dtype_kind_differs], not judged',
    'np.histogram is called with explicit bin edges; str() is judged only when every line parses as "name: [v v ...]" with '
    'exactly contig-size values',
    'interval sets contain intervals inside their contig; zero-length intervals [p,p) (p inside the contig, covering no base) are explored in one slice of the iv section only',
    'GenomicRunLengthArray.from_intervals is judged directly only for strictly separated intervals (what get_boolean_mask '
    'passes), with the default / a scalar value and with one value per interval (the documented `values: ArrayLike`); touching '
    'intervals are executed and counted in extra, not judged',
    'contig names are chr1..chrN (names with "_" belong to C10); in-memory arrays only (streamed arrays belong to C11/C12)',
    'state merging reads the run boundaries of the implementation best-effort via getattr(_global_track._events); if '
    'unavailable every expression is its own state (over-fine, never unsound)',
    'full depth-D closure is explored for D <= 2; depth 3 is explored as every depth-2 result combined with every leaf '
    '(root or scalar, both operand orders) and ~ (the full depth-3 closure has > 10^9 trees)',
]
EXPLANATION = ('every bedGraph / interval set up to the bound is expanded by the real code and compared base by base with a dense '
               'array built record by record; expression results are explored breadth-first with the dense NumPy result as oracle '
               'and every reached array is converted back and re-expanded')
MANIFEST_TEXT = ('Exhaustive enumeration against dense NumPy arrays. quick: every bedGraph on genomes of 1..2 contigs of size 1..3 '
                 '(all value assignments from {1,2} as int; float, True and explicit-zero value patterns), 1..2 contigs with a size-4 contig, '
                 '3 and 4 contigs of size 1..2 (value patterns); every multiset of <= 2 intervals (sorted and reversed; on 2 contigs of size <= 2 also <= 3 intervals in every order, with and without zero-length intervals) as mask and '
                 'pileup; each with to_dict / get_data / array[contig].to_bedgraph / sum / histogram / str and a menu of derived '
                 'expressions; every ordered pair of tracks x {+,-,*,<,>,==} and of masks x {&,|} on genomes (3), (2,2), (1,2,1); BFS '
                 'closure of depth 2 over {+,-,*,<,>,==,&,|,~, scalars 0,1,2} from 6 root sets. thorough: all value assignments from '
                 '{0,1,2} on 1..2 contigs of size 1..3, 3 contigs of size 1..3 (value patterns), 1..2 contigs up to size 5, 3 contigs with one size-4 '
                 'contig (others <= 2), 4 contigs of size 1..2; <= 3 intervals in every order; pairs on 7 genomes; depth-2 closure and depth 3 '
                 '(every depth-2 result x every leaf, both operand orders, and ~) from 12 root sets.')
MANIFEST_NOTE = ('Trusted: NumPy (it is the oracle: the same operation on dense arrays), CPython, engine/observe.py, '
                 'models/genome.py. npstructures run-length arrays are NOT trusted: they are exercised as part of the library\'s '
                 'behaviour.')

SCALARS = (0, 1, 2)


# =========================================================================================== bounds / plan
def _bg_slices(tier, seed):
    """list of (slice name, genomes, [(kind, mode), ...])"""
    g23 = M.genomes(2, 3)
    if tier == 'quick':
        ext_kind = ('int', 'float', 'bool')[seed % 3]
        return [
            ('a:<=2 contigs, size<=3', g23,
             [('int', ('all', (1, 2))), ('float', ('pattern', (1, 2))), ('float', ('pattern', (2, 1))), ('bool', ('pattern', (1,))),
              ('int', ('pattern', (0, 1))), ('int', ('pattern', (1, 0)))]),
            ('c:<=2 contigs, one of size 4 (extension slice: value kind rotates with the seed)',
             [g for g in M.genomes(2, 4) if max(g) == 4], [(ext_kind, ('pattern', (1, 2)))]),
            ('d:3 contigs, size<=2', M.genomes(3, 2, 3), [('int', ('pattern', (1, 2))), ('int', ('pattern', (0, 1)))]),
            ('e:4 contigs, size<=2', M.genomes(4, 2, 4), [('int', ('pattern', (1, 2)))]),
        ]
    return [
        ('a:<=2 contigs, size<=3', g23,
         [('int', ('all', (0, 1, 2))), ('float', ('all', (0, 1, 2))), ('bool', ('all', (1, 0)))]),
        ('b:3 contigs, size<=3', M.genomes(3, 3, 3),
         [('int', ('pattern', (1, 2))), ('int', ('pattern', (0, 1))), ('float', ('pattern', (1, 2))), ('bool', ('pattern', (1,)))]),
        ('c:<=2 contigs, a contig of size 4 or 5', [g for g in M.genomes(2, 5) if max(g) >= 4],
         [('int', ('pattern', (1, 2))), ('float', ('pattern', (2, 1))), ('bool', ('pattern', (1,)))]),
        ('d:3 contigs, exactly one of size 4, others <=2',
         [g for g in M.genomes(3, 4, 3) if sorted(g)[-1] == 4 and sorted(g)[-2] <= 2], [('int', ('pattern', (1, 2)))]),
        ('e:4 contigs, size<=2', M.genomes(4, 2, 4),
         [('int', ('pattern', (1, 2))), ('int', ('pattern', (0, 1))), ('float', ('pattern', (1, 2))), ('bool', ('pattern', (1,)))]),
    ]


def _iv_slices(tier, seed):
    """list of (slice name, genomes, max intervals, orders)"""
    if tier == 'quick':
        return [('a:<=2 contigs size<=3, 3 contigs size<=2; <=2 intervals', M.genomes(2, 3) + M.genomes(3, 2, 3), 2, 'sorted+reversed'),
                ('b:1 contig size 4; <=3 intervals', [(4,)], 3, 'sorted+reversed'),
                ('c:2 contigs size<=2; <=3 intervals in EVERY order (also not grouped by contig)', M.genomes(2, 2), 3, 'all'),
                ('d:2 contigs size<=2; <=3 intervals of which >= 1 zero-length [p,p), every order', M.genomes(2, 2), 3, 'all+zero')]
    return [('a1:<=2 contigs size<=3; <=3 intervals', M.genomes(2, 3), 3, 'all'),
            ('a2:3 contigs size<=3; <=2 intervals', M.genomes(3, 3, 3), 2, 'all'),
            ('a3:3 contigs size<=2; <=3 intervals', M.genomes(3, 2, 3), 3, 'all'),
            ('b:<=2 contigs up to size 5 (one >=4); <=2 intervals', [g for g in M.genomes(2, 5) if max(g) >= 4], 2, 'sorted+reversed'),
            ('c:4 contigs size<=2; <=2 intervals', M.genomes(4, 2, 4), 2, 'sorted+reversed'),
            ('d:<=2 contigs size<=3; <=3 intervals of which >= 1 zero-length [p,p), every order', M.genomes(2, 3), 3, 'all+zero')]


def _pairs_slices(tier, seed):
    """list of (genome, [(kind, mode)...] for the track list, max intervals for the mask list)"""
    if tier == 'quick':
        return [((3,), [('int', ('all', (1, 2)))], 2),
                ((2, 2), [('int', ('pattern', (1, 2))), ('float', ('pattern', (2, 1)))], 2),
                ((1, 2, 1), [('int', ('pattern', (1, 2)))], 1)]
    return [((3,), [('int', ('all', (0, 1, 2))), ('float', ('pattern', (1, 2)))], 3),
            ((4,), [('int', ('all', (1, 2)))], 2),
            ((2, 2), [('int', ('all', (1, 2))), ('float', ('pattern', (2, 1)))], 2),
            ((1, 2, 1), [('int', ('all', (1, 2)))], 2),
            ((2, 1), [('int', ('all', (0, 1, 2)))], 2),
            ((3, 2), [('int', ('pattern', (1, 2)))], 1),
            ((1, 1, 1, 1), [('int', ('all', (1, 2)))], 2)]


def _bgspec(kind, recs):
    return {'source': 'bedgraph', 'vkind': kind, 'records': [list(r) for r in recs]}


def _ivspec(source, ivs):
    return {'source': source, 'intervals': [list(i) for i in ivs]}


# root sets of the deep search: (contig sizes, roots).  Chosen so that the operands' run boundaries coincide, nest and
# cross, a run of equal value spans a contig boundary, a contig is empty, int meets float, and both library-made
# array kinds from intervals (mask: bool, pileup: RunLength2dArray.sum) take part.
DEEP_ROOTSETS = [
    ((2, 2), [_bgspec('int', [(0, 0, 2, 1), (1, 0, 2, 1)]), _bgspec('int', [(0, 1, 2, 2), (1, 0, 1, 2)]), _ivspec('mask', [(0, 1, 2), (1, 0, 1)])]),
    ((3,), [_bgspec('int', [(0, 0, 2, 1), (0, 2, 3, 2)]), _bgspec('float', [(0, 1, 2, 0.5)]), _ivspec('mask', [(0, 0, 1), (0, 1, 2)])]),
    ((1, 2, 1), [_bgspec('int', [(1, 0, 2, 2)]), _ivspec('pileup', [(0, 0, 1), (1, 0, 2), (1, 1, 2), (2, 0, 1)]), _ivspec('mask', [(1, 1, 2), (2, 0, 1)])]),
    ((2, 2), [_bgspec('float', [(0, 0, 1, 0.5), (1, 1, 2, 2.0)]), _bgspec('int', [(0, 0, 2, 2), (1, 0, 2, 2)]), _ivspec('mask', [(0, 0, 2)])]),
    ((4,), [_bgspec('int', [(0, 1, 3, 1)]), _bgspec('int', [(0, 0, 2, 2), (0, 2, 4, 1)]), _ivspec('mask', [(0, 0, 1), (0, 3, 4)])]),
    ((2, 1), [_bgspec('int', []), _bgspec('int', [(0, 1, 2, 1), (1, 0, 1, 1)]), _ivspec('mask', [])]),
    ((1, 1, 1), [_bgspec('int', [(0, 0, 1, 1), (2, 0, 1, 2)]), _bgspec('float', [(1, 0, 1, 0.5)]), _ivspec('mask', [(1, 0, 1)])]),
    ((3, 2), [_bgspec('int', [(0, 2, 3, 1), (1, 0, 1, 1)]), _ivspec('pileup', [(0, 0, 3), (0, 1, 2), (1, 0, 2)]), _ivspec('mask', [(0, 0, 3), (1, 1, 2)])]),
    ((2, 2), [_bgspec('int', [(0, 0, 1, 0), (0, 1, 2, 1), (1, 0, 1, 0)]), _bgspec('bool', [(0, 1, 2, True), (1, 0, 1, True)]), _ivspec('mask', [(0, 0, 1), (1, 1, 2)])]),
    ((3,), [_bgspec('float', [(0, 0, 3, 2.0)]), _bgspec('float', [(0, 0, 1, 0.5), (0, 1, 2, 0.5)]), _ivspec('mask', [(0, 1, 2)])]),
    ((1, 3), [_bgspec('int', [(0, 0, 1, 2), (1, 0, 1, 2), (1, 2, 3, 1)]), _bgspec('int', [(1, 1, 2, 1)]), _ivspec('mask', [(0, 0, 1), (1, 0, 1)])]),
    ((1, 1, 1, 1), [_bgspec('int', [(0, 0, 1, 1), (1, 0, 1, 1), (3, 0, 1, 2)]), _ivspec('pileup', [(1, 0, 1), (1, 0, 1), (2, 0, 1)]), _ivspec('mask', [(0, 0, 1), (2, 0, 1)])]),
]


def _deep_plan(tier, seed):
    """list of (root set index, depth)"""
    if tier == 'quick':
        rot = seed % 3
        idx = [0, 1, 2, 3 + rot, 6 + rot, 9 + rot]
        return [(i, 2) for i in idx]
    return [(i, 3) for i in range(len(DEEP_ROOTSETS))]


def bounds(tier, seed):
    return {
        'bedgraph_slices': [{'slice': n, 'genomes': len(g), 'value_modes': [[k, list(m[:1]) + [list(m[1])]] for k, m in modes],
                             'cases': _bg_count(g, modes)} for n, g, modes in _bg_slices(tier, seed)],
        'interval_slices': [{'slice': n, 'genomes': len(g), 'max_intervals': k, 'orders': o, 'sources': ['mask', 'pileup']}
                            for n, g, k, o in _iv_slices(tier, seed)],
        'rl_from_intervals': {'sizes': '1..5' if tier == 'quick' else '1..6'},
        'pairs': [{'genome': list(g), 'track_modes': [[k, m[0], list(m[1])] for k, m in modes], 'mask_max_intervals': k2,
                   'ops': list(M.ARITH + M.COMPARE), 'bool_ops': list(M.LOGIC)} for g, modes, k2 in _pairs_slices(tier, seed)],
        'deep': [{'rootset': i, 'sizes': list(DEEP_ROOTSETS[i][0]), 'depth': d,
                  'depth3': 'every depth-2 result x every leaf, both orders, and ~' if d == 3 else None} for i, d in _deep_plan(tier, seed)],
        'scalars': list(SCALARS), 'histogram_edges': M.HIST_EDGES,
        'derived_menu': 'numeric t: t+1, 2-t, t*t, t>1, ~(t>1), (t==0)|(t>1); mask m: ~m, m&~m, m|~m',
    }


def _layout_weight(size, mode):
    if mode[0] == 'all':
        return sum(len(mode[1]) ** len(l) for l in M.run_layouts(size))
    return len(M.run_layouts(size))


def _bg_count(genomes_, modes):
    n = 0
    for g in genomes_:
        for kind, mode in modes:
            n += math.prod(_layout_weight(s, mode) for s in g)
    return n


COST_MS = {'bg': 21.0, 'iv': 18.0, 'pair': 1.8}      # measured CPU cost per case (root + derived menu) / per transition
TARGET_S = {'quick': 15.0, 'thorough': 110.0}


def shards(tier, seed):
    out = []
    target = TARGET_S[tier]
    for si, (name, gs, modes) in enumerate(_bg_slices(tier, seed)):
        k = max(1, round(_bg_count(gs, modes) * COST_MS['bg'] / 1000.0 / target))
        for p in range(k):
            out.append({'section': 'bg', 'slice': si, 'part': p, 'of': k, 'tier': tier, 'seed': seed})
    for si, (name, gs, kmax, orders) in enumerate(_iv_slices(tier, seed)):
        n = sum(len(list(_iv_cases(g, kmax, orders))) for g in gs) * 2
        k = max(1, round(n * COST_MS['iv'] / 1000.0 / target))
        for p in range(k):
            out.append({'section': 'iv', 'slice': si, 'part': p, 'of': k, 'tier': tier, 'seed': seed})
    out.append({'section': 'rl', 'tier': tier, 'seed': seed})
    for si, (g, modes, kmax) in enumerate(_pairs_slices(tier, seed)):
        nt = _bg_count([g], modes)
        nm = len(list(_iv_cases(g, kmax, 'sorted')))
        k = max(1, round((nt * nt * 6 + nm * nm * 2) * COST_MS['pair'] / 1000.0 / target))
        for p in range(k):
            out.append({'section': 'pairs', 'slice': si, 'part': p, 'of': k, 'tier': tier, 'seed': seed})
    for ri, depth in _deep_plan(tier, seed):
        k = 1
        for p in range(k):
            out.append({'section': 'deep', 'rootset': ri, 'depth': depth, 'part': p, 'of': k, 'tier': tier, 'seed': seed})
    return out


# =========================================================================================== real objects
_GENOMES = {}


def get_genome(sizes):
    import bionumpy as bnp
    sizes = tuple(sizes)
    g = _GENOMES.get(sizes)
    if g is None:
        g = _GENOMES[sizes] = bnp.Genome.from_dict(dict(zip(M.chrom_names(len(sizes)), sizes)))
    return g


def build_root_impl(sizes, spec):
    """the real construction call (may raise: judged by the caller)"""
    from bionumpy.datatypes import BedGraph, Interval
    names = M.chrom_names(len(sizes))
    g = get_genome(sizes)
    if spec['source'] == 'bedgraph':
        recs = spec['records']
        vals = [_pyval(r[3], spec['vkind']) for r in recs]
        bg = BedGraph([names[r[0]] for r in recs], [r[1] for r in recs], [r[2] for r in recs], vals)
        return g.get_track(bg)
    ivs = spec['intervals']
    gi = g.get_intervals(Interval([names[i[0]] for i in ivs], [i[1] for i in ivs], [i[2] for i in ivs]))
    return gi.get_mask() if spec['source'] == 'mask' else gi.get_pileup()


def _pyval(v, kind):
    return {'int': int, 'float': float, 'bool': bool}[kind](v)


def build_root_model(sizes, spec):
    if spec['source'] == 'bedgraph':
        recs = [(r[0], r[1], r[2], _pyval(r[3], spec['vkind'])) for r in spec['records']]
        return M.concat(M.dense_from_bedgraph(sizes, recs, spec['vkind']))
    ivs = [tuple(i) for i in spec['intervals']]
    return M.concat(M.mask(sizes, ivs) if spec['source'] == 'mask' else M.coverage(sizes, ivs))


def apply_impl(op, a, b=None):
    if op == '~':
        return ~a
    if op == '+':
        return a + b
    if op == '-':
        return a - b
    if op == '*':
        return a * b
    if op == '<':
        return a < b
    if op == '>':
        return a > b
    if op == '==':
        return a == b
    if op == '&':
        return a & b
    if op == '|':
        return a | b
    raise ValueError(op)


def apply_model(op, a, b=None):
    return M.apply_invert(a) if op == '~' else M.apply_binary(op, a, b)


def events_of(impl):
    ev = getattr(getattr(impl, '_global_track', None), '_events', None)
    if ev is None:
        return None
    try:
        return tuple(int(x) for x in np.asarray(ev).tolist())
    except Exception:
        return None


# =========================================================================================== observation oracles
class Obs:
    """collects oracle failures for one state: list of (kind, expected, observed, traceback)"""

    def __init__(self):
        self.fails = []
        self.calls = 0
        self.notes = []

    def fail(self, kind, expected=None, observed=None, tb=None):
        self.fails.append({'kind': kind, 'expected': expected, 'observed': observed, 'traceback': tb})


def _call(obs, label, fn):
    """run one real bionumpy call; an exception is an observation (`<label>-raises`)"""
    obs.calls += 1
    try:
        return True, fn()
    except observe.ObserverError:
        raise
    except Exception as e:
        obs.fail(label + '-raises', expected='a value', observed=exc_name(e) + ': ' + str(e)[:200], tb=tb_string(e))
        return False, None


def _rows(table, with_value):
    cols = [observe.column(table.chromosome), observe.column(table.start), observe.column(table.stop)]
    if with_value:
        cols.append(observe.column(table.value))
    n = len(cols[0])
    if isinstance(cols[0], str):        # a single 0-d row cannot happen for a table, be safe
        cols[0] = [cols[0]]
        n = 1
    if any(len(c) != n for c in cols):
        return None
    return [tuple(c[i] for c in cols) for i in range(n)]


def judge_expand(obs, sizes, impl, flat):
    """expansion.  to_dict: contig names in genome order, length == contig size, values == dense."""
    names = M.chrom_names(len(sizes))
    per = M.split(flat, sizes)
    ok, d = _call(obs, 'to_dict', impl.to_dict)
    if ok:
        keys = list(d.keys())
        if keys != names:
            obs.fail('to_dict-contigs', expected=names, observed=keys)
        else:
            arrays = [np.asarray(d[n]) for n in names]
            lens = [int(a.shape[0]) if a.ndim == 1 else -1 for a in arrays]
            if lens != list(sizes):
                obs.fail('to_dict-length', expected=list(sizes), observed=lens)
            elif not all(M.values_equal(a, p) for a, p in zip(arrays, per)):
                obs.fail('to_dict-values', expected=[p.tolist() for p in per], observed=[a.tolist() for a in arrays])
            elif any(M.kind_of(a) != M.kind_of(flat) for a in arrays):
                obs.notes.append('dtype_kind_differs')


def judge_reduce(obs, sizes, impl, flat):
    """reductions: sum (method and np.sum) and np.histogram with explicit edges"""
    exp_sum = M.dense_sum(flat)
    ok, s = _call(obs, 'sum', impl.sum)
    if ok and not (np.ndim(s) == 0 and _scalar(s) == exp_sum):
        obs.fail('sum-differs', expected=exp_sum, observed=_jsonable(s))
    ok, s = _call(obs, 'np.sum', lambda: np.sum(impl))
    if ok and not (np.ndim(s) == 0 and _scalar(s) == exp_sum):
        obs.fail('sum-differs', expected=exp_sum, observed=_jsonable(s))
    try:
        exp_h = M.dense_histogram(flat)
    except TypeError:
        exp_h = None
        obs.notes.append('histogram_unsupported_by_numpy_for_dtype')
    if exp_h is not None:
        ok, h = _call(obs, 'histogram', lambda: np.histogram(impl, bins=M.HIST_EDGES))
        if ok:
            try:
                got = (np.asarray(h[0]).tolist(), np.asarray(h[1]).tolist())
            except Exception:
                got = None
            if got is None or list(got[0]) != exp_h[0] or list(got[1]) != exp_h[1]:
                obs.fail('histogram-differs', expected=exp_h, observed=_jsonable(got if got is not None else repr(h)))


def _scalar(s):
    return np.asarray(s).tolist()


def _jsonable(v):
    try:
        return np.asarray(v).tolist()
    except Exception:
        return repr(v)


def judge_back(obs, sizes, impl, flat):
    """get_data(): records in genome order, non-overlapping, inside the contig, expanding to the same dense array"""
    names = M.chrom_names(len(sizes))
    per = M.split(flat, sizes)
    ok, data = _call(obs, 'get_data', impl.get_data)
    if not ok:
        return
    with_value = hasattr(data, 'value')
    rows = _rows(data, with_value)
    if rows is None:
        obs.fail('get_data-column-lengths', expected='columns of equal length', observed=repr(data)[:300])
        return
    v = M.judge_records(sizes, names, rows, per, with_value)
    if v is not None:
        obs.fail('get_data-' + v[0], expected=[p.tolist() for p in per], observed={'records': [list(r) for r in rows], 'detail': _jsonable_detail(v[1])})


def _jsonable_detail(d):
    if isinstance(d, dict):
        return d
    return [x if isinstance(x, (int, float, str, bool)) else repr(x) for x in d]


def judge_contigs(obs, sizes, impl, flat):
    """array[contig] -> per-contig run-length array: .to_array() and .to_bedgraph(contig)"""
    names = M.chrom_names(len(sizes))
    per = M.split(flat, sizes)
    for ci, name in enumerate(names):
        ok, sub = _call(obs, 'extract', lambda: impl[name])
        if not ok:
            continue
        ok, arr = _call(obs, 'extract', sub.to_array)
        if ok and not M.values_equal(arr, per[ci]):
            obs.fail('extract-values', expected=per[ci].tolist(), observed=_jsonable(arr))
        ok, bg = _call(obs, 'to_bedgraph', lambda: sub.to_bedgraph(name))
        if not ok:
            continue
        rows = _rows(bg, True)
        if rows is None:
            obs.fail('to_bedgraph-column-lengths', expected='columns of equal length', observed=repr(bg)[:300])
            continue
        v = M.judge_records([sizes[ci]], [name], rows, [per[ci]], True)
        if v is not None:
            obs.fail('to_bedgraph-' + v[0], expected=per[ci].tolist(), observed={'records': [list(r) for r in rows], 'detail': _jsonable_detail(v[1])})


def parse_str(text, names):
    """'chr1: [0 1 2]\\nchr2: [1. 0.5]' -> {name: [values]} or None when a line does not have that form"""
    out = {}
    lines = text.split('\n')
    if len(lines) != len(names):
        return None
    for line, name in zip(lines, names):
        if not line.startswith(name + ': '):
            return None
        body = line[len(name) + 2:].strip()
        if not (body.startswith('[') and body.endswith(']')):
            return None
        vals = []
        for tok in body[1:-1].split():
            if tok == 'True':
                vals.append(True)
            elif tok == 'False':
                vals.append(False)
            else:
                try:
                    vals.append(float(tok))
                except ValueError:
                    return None
        out[name] = vals
    return out


def judge_str(obs, sizes, impl, flat):
    names = M.chrom_names(len(sizes))
    per = M.split(flat, sizes)
    ok, text = _call(obs, 'str', lambda: str(impl))
    if not ok:
        return
    parsed = parse_str(text, names[:10]) if isinstance(text, str) else None
    if parsed is None or any(len(parsed[n]) != s for n, s in zip(names, sizes)):
        obs.notes.append('str_not_parsable(not judged)')
        return
    if any(parsed[n] != p.tolist() for n, p in zip(names, per)):
        obs.fail('str-differs', expected=[p.tolist() for p in per], observed=text)


LEVELS = {'light': (judge_expand, judge_reduce), 'back': (judge_expand, judge_reduce, judge_back),
          'full': (judge_expand, judge_reduce, judge_back, judge_contigs, judge_str)}


def judge_state(sizes, impl, flat, level):
    """If the expansion itself is wrong the state is reported for that clause only: every other observation would
    repeat the same difference (they are all compared with the same dense array)."""
    obs = Obs()
    for fn in LEVELS[level]:
        fn(obs, sizes, impl, flat)
        if fn is judge_expand and obs.fails:
            obs.notes.append('expansion_failed:other_clauses_not_evaluated')
            break
    return obs


# =========================================================================================== trees
def tree_str(t):
    if t[0] == 'root':
        return 'r%d' % t[1]
    if t[0] == 'scalar':
        return repr(t[1])
    if t[0] == '~':
        return '~(%s)' % tree_str(t[1])
    return '(%s %s %s)' % (tree_str(t[1]), t[0], tree_str(t[2]))


def eval_tree_model(t, root_models):
    if t[0] == 'root':
        return root_models[t[1]]
    if t[0] == 'scalar':
        return t[1]
    if t[0] == '~':
        return apply_model('~', eval_tree_model(t[1], root_models))
    return apply_model(t[0], eval_tree_model(t[1], root_models), eval_tree_model(t[2], root_models))


def eval_tree_impl(t, root_impls):
    if t[0] == 'root':
        return root_impls[t[1]]
    if t[0] == 'scalar':
        return t[1]
    if t[0] == '~':
        return apply_impl('~', eval_tree_impl(t[1], root_impls))
    return apply_impl(t[0], eval_tree_impl(t[1], root_impls), eval_tree_impl(t[2], root_impls))


def operand_kind(model_value):
    return 'scalar' if np.ndim(model_value) == 0 else M.kind_of(model_value)


def _breaks(flat):
    l = np.asarray(flat).tolist()
    return frozenset(i for i in range(1, len(l)) if l[i] != l[i - 1])


def expr_features(sizes, roots, tree, root_models):
    """facts about the case only: top operator with operand kinds, contig layout, alignment of the operands' change points"""
    f = {'contigs': '1' if len(sizes) == 1 else '>1'}
    if tree[0] == 'root':
        f['expr'] = 'root'
        f.update(root_features(sizes, roots[tree[1]]))
        return f
    ops = [eval_tree_model(x, root_models) for x in tree[1:]]
    kinds = [operand_kind(o) for o in ops]
    f['expr'] = (tree[0] + kinds[0]) if tree[0] == '~' else '%s %s %s' % (kinds[0], tree[0], kinds[1])
    arrays = [o for o in ops if np.ndim(o) == 1]
    if len(arrays) == 2:
        b0, b1 = _breaks(arrays[0]), _breaks(arrays[1])
        f['breaks'] = 'same' if b0 == b1 else ('nested' if (b0 <= b1 or b1 <= b0) else 'crossing')
    else:
        f['breaks'] = 'n/a'
    if len(roots) == 1:
        f['root_source'] = roots[0]['source'] + (':' + roots[0]['vkind'] if roots[0]['source'] == 'bedgraph' else '')
    return f


def root_features(sizes, spec):
    off = M.offsets(sizes)
    total = off[-1]
    if spec['source'] == 'bedgraph':
        recs = spec['records']
        g = [(off[r[0]] + r[1], off[r[0]] + r[2]) for r in recs]
        return {
            'source': 'bedgraph', 'vkind': spec['vkind'], 'empty': len(recs) == 0,
            'starts_at_0': bool(g) and g[0][0] == 0, 'ends_at_end': bool(g) and g[-1][1] == total,
            'has_gap': any(g[i + 1][0] != g[i][1] for i in range(len(g) - 1)),
            'abuts_across_contigs': any(g[i + 1][0] == g[i][1] and recs[i + 1][0] != recs[i][0] for i in range(len(g) - 1)),
            'zero_valued_record': any(not r[3] for r in recs),
        }
    ivs = [tuple(i) for i in spec['intervals']]
    cov = M.concat(M.coverage(sizes, ivs)).tolist() if ivs else []
    g = sorted((off[i[0]] + i[1], off[i[0]] + i[2]) for i in ivs)
    return {
        'source': spec['source'], 'empty': len(ivs) == 0, 'overlapping': any(c > 1 for c in cov),
        'touching': any(g[i + 1][0] == g[i][1] for i in range(len(g) - 1)),
        'input_sorted': [(off[i[0]] + i[1], off[i[0]] + i[2]) for i in ivs] == g,
        'starts_at_0': bool(g) and g[0][0] == 0, 'ends_at_end': bool(g) and max(x[1] for x in g) == total,
    }


# =========================================================================================== one case
def run_case(sizes, roots, tree, level, root_impls=None, root_models=None, operands=None):
    """Evaluate ONE case on the real objects and on the model.
    -> dict(status='ok'|'fail', fails=[...], impl, model, calls).  `operands` = (impl operands, model operands) of the
    top operator when the caller already holds them (BFS); otherwise everything is rebuilt from the roots."""
    calls = 0
    if root_models is None:
        root_models = [build_root_model(sizes, s) for s in roots]
    model = eval_tree_model(tree, root_models)
    fails = []
    impl = None
    try:
        if tree[0] == 'root':
            if root_impls is not None:
                impl = root_impls[tree[1]]
            else:
                calls += 1
                impl = build_root_impl(sizes, roots[tree[1]])
        else:
            if operands is None:
                if root_impls is None:
                    root_impls = [build_root_impl(sizes, s) for s in roots]
                    calls += len(roots)
                ops_impl = [eval_tree_impl(x, root_impls) for x in tree[1:]]
            else:
                ops_impl = operands
            calls += 1
            impl = apply_impl(tree[0], *ops_impl)
    except observe.ObserverError:
        raise
    except Exception as e:
        kind = 'construction-raises' if tree[0] == 'root' else 'operation-raises'
        fails.append({'kind': kind, 'expected': _jsonable(model), 'observed': exc_name(e) + ': ' + str(e)[:200], 'traceback': tb_string(e)})
        return {'fails': fails, 'impl': None, 'model': model, 'calls': calls, 'notes': []}
    if impl is NotImplemented or not hasattr(impl, 'to_dict'):
        fails.append({'kind': 'operation-raises', 'expected': _jsonable(model), 'observed': 'result is %r' % (type(impl).__name__,), 'traceback': None})
        return {'fails': fails, 'impl': None, 'model': model, 'calls': calls, 'notes': []}
    obs = judge_state(sizes, impl, model, level)
    for f in obs.fails:
        if tree[0] != 'root' and f['kind'] == 'to_dict-values':
            f = dict(f, kind='result-values')
        fails.append(f)
    return {'fails': fails, 'impl': impl, 'model': model, 'calls': calls + obs.calls, 'notes': obs.notes}


def record(res, section, sizes, roots, tree, r, root_models, outcome):
    res.evaluations += 1
    res.planned += 1
    res.traces += 1
    res.transitions += r['calls']
    for n in r['notes']:
        res.extra[n] += 1
    flat = np.asarray(r['model'])
    if flat.ndim == 1 and len(set(flat.tolist())) >= 2:
        res.nontrivial += 1
    if r['fails']:
        case = {'section': section, 'sizes': list(sizes), 'roots': roots, 'tree': tree}
        feats = dict(expr_features(sizes, roots, tree, root_models), section=section)
        for f in r['fails']:
            res.fail(f['kind'], case, feats, expected=f['expected'], observed=f['observed'], tb=f['traceback'])
        res.outcome(outcome + ':FAIL:' + r['fails'][0]['kind'])
    else:
        res.outcome(outcome)


# derived menus: (tree builder, observation level); R = ['root', 0]
R0 = ['root', 0]
_GT1 = ['>', R0, ['scalar', 1]]
MENU_NUMERIC = [
    (['+', R0, ['scalar', 1]], 'light'),
    (['-', ['scalar', 2], R0], 'light'),
    (['*', R0, R0], 'light'),
    (_GT1, 'back'),
    (['~', _GT1], 'back'),
    (['|', ['==', R0, ['scalar', 0]], _GT1], 'back'),
]
MENU_BOOL = [
    (['~', R0], 'back'),
    (['&', R0, ['~', R0]], 'back'),
    (['|', R0, ['~', R0]], 'back'),
]


def run_root_with_menu(res, section, sizes, spec, seen):
    roots = [spec]
    root_models = [build_root_model(sizes, spec)]
    r = run_case(sizes, roots, R0, 'full', root_models=root_models)
    src = spec['source'] + (':' + spec['vkind'] if spec['source'] == 'bedgraph' else '')
    nrec = len(spec.get('records', spec.get('intervals', [])))
    record(res, section, sizes, roots, R0, r, root_models, '%s:n=%d' % (src, min(nrec, 4)))
    res.states += 1
    if r['impl'] is None or r['fails']:
        return      # a state that failed its own oracle is reported once and never expanded
    if spec['source'] == 'bedgraph' and spec['vkind'] == 'bool':
        return      # a bool-valued bedGraph is checked for value-equal expansion only (DESIGN 4.3)
    menu = MENU_BOOL if spec['source'] == 'mask' else MENU_NUMERIC
    impls = [r['impl']]
    failed = []
    for tree, level in menu:
        ts = tree_str(tree)
        if any(f in ts for f in failed):
            continue    # built on a sub-expression that already failed
        rr = run_case(sizes, roots, tree, level, root_impls=impls, root_models=root_models)
        record(res, section, sizes, roots, tree, rr, root_models, 'derived:%s' % ts)
        res.states += 1
        if rr['fails']:
            failed.append(ts)


# =========================================================================================== sections
def _bg_cases(gs, modes):
    """canonical order: genome, value mode, layout, assignment"""
    for g in gs:
        for kind, mode in modes:
            for layout in M.genome_layouts(g):
                for vals in M.value_assignments(len(layout), mode):
                    yield g, kind, [(ci, a, b, M.to_kind(v, kind)) for (ci, a, b), v in zip(layout, vals)]


def run_bg(res, desc, deadline):
    name, gs, modes = _bg_slices(desc['tier'], desc['seed'])[desc['slice']]
    for i, (g, kind, recs) in enumerate(_bg_cases(gs, modes)):
        if i % desc['of'] != desc['part']:
            continue
        if deadline.expired():
            res.capped = True
            return
        spec = _bgspec(kind, recs)
        run_root_with_menu(res, 'bg', g, spec, None)
        if len(res.samples) < 2 and len(recs) >= 2:
            res.sample({'section': 'bg', 'sizes': list(g), 'root': spec, 'dense': build_root_model(g, spec).tolist()})


def _orders(ivs, orders):
    ivs = list(ivs)
    if orders == 'all':
        seen = []
        for p in itertools.permutations(ivs):
            if list(p) not in seen:
                seen.append(list(p))
        return seen
    out = [ivs]
    if orders != 'sorted' and ivs[::-1] != ivs:
        out.append(ivs[::-1])
    return out


def _iv_cases(g, kmax, orders):
    allv = M.all_intervals(g)
    if orders == 'all+zero':
        # also zero-length intervals [p,p) with p inside the contig (they cover no base); only sets that contain one
        zero = [(ci, p, p) for ci, s in enumerate(g) for p in range(s)]
        for k in range(1, kmax + 1):
            for ms in itertools.combinations_with_replacement(allv + zero, k):
                if any(a == b for _, a, b in ms):
                    for o in _orders(ms, 'all'):
                        yield o
        return
    for k in range(0, kmax + 1):
        for ms in itertools.combinations_with_replacement(allv, k):
            for o in _orders(ms, orders):
                yield o


def run_iv(res, desc, deadline):
    name, gs, kmax, orders = _iv_slices(desc['tier'], desc['seed'])[desc['slice']]
    i = -1
    for g in gs:
        for ivs in _iv_cases(g, kmax, orders):
            for source in ('mask', 'pileup'):
                i += 1
                if i % desc['of'] != desc['part']:
                    continue
                if deadline.expired():
                    res.capped = True
                    return
                spec = _ivspec(source, ivs)
                run_root_with_menu(res, 'iv', g, spec, None)
                if len(res.samples) < 2 and len(ivs) >= 2:
                    res.sample({'section': 'iv', 'sizes': list(g), 'root': spec, 'dense': build_root_model(g, spec).tolist()})


# ---- rl: GenomicRunLengthArray.from_intervals directly
RL_VARIANTS = [('default', {}), ('default_value=False', {'default_value': False}), ('values=3', {'values': 3}),
               ('values=array', None)]      # values=array: one value per interval (1, 2, ...), the documented `values: ArrayLike`


def rl_case(size, layout, variant):
    """-> (status, fails) ; status in 'ok', 'raises'"""
    from bionumpy.arithmetics.intervals import GenomicRunLengthArray
    kw = dict(RL_VARIANTS)[variant]
    starts = np.array([a for a, b in layout], dtype=int)
    ends = np.array([b for a, b in layout], dtype=int)
    if kw is None:
        kw = {'values': np.arange(1, len(layout) + 1)}
        exp = np.zeros(size, dtype=int)
        for (a, b), v in zip(layout, kw['values']):
            exp[a:b] = v
    else:
        value = kw.get('values', True)
        exp = np.zeros(size, dtype=np.asarray(value).dtype)
        for a, b in layout:
            exp[a:b] = value
    try:
        rla = GenomicRunLengthArray.from_intervals(starts, ends, size, **kw)
        arr = np.asarray(rla.to_array())
        n = len(rla)
    except observe.ObserverError:
        raise
    except Exception as e:
        return 'raises', [{'kind': 'construction-raises', 'expected': exp.tolist(), 'observed': exc_name(e) + ': ' + str(e)[:200],
                           'traceback': tb_string(e)}]
    fails = []
    if n != size or arr.shape != (size,):
        fails.append({'kind': 'to_dict-length', 'expected': size, 'observed': [int(n), list(arr.shape)], 'traceback': None})
    elif not M.values_equal(arr, exp):
        fails.append({'kind': 'to_dict-values', 'expected': exp.tolist(), 'observed': arr.tolist(), 'traceback': None})
    return 'ok', fails


def rl_features(size, layout, variant):
    touching = any(layout[i + 1][0] == layout[i][1] for i in range(len(layout) - 1))
    return {'section': 'rl', 'variant': variant, 'empty': len(layout) == 0, 'starts_at_0': bool(layout) and layout[0][0] == 0,
            'ends_at_size': bool(layout) and layout[-1][1] == size, 'touching': touching}


def run_rl(res, desc, deadline):
    from bionumpy.arithmetics.intervals import GenomicRunLengthArray
    smax = 5 if desc['tier'] == 'quick' else 6
    for size in range(1, smax + 1):
        for layout in M.run_layouts(size):
            for variant, kw in RL_VARIANTS:
                if kw is None and not layout:
                    continue        # an empty `values` array for no intervals: nothing to interleave, not explored
                res.evaluations += 1
                res.planned += 1
                res.traces += 1
                res.states += 1
                res.transitions += 2
                feats = rl_features(size, layout, variant)
                status, fails = rl_case(size, [list(x) for x in layout], variant)
                if feats['touching']:
                    # from_intervals' own assertion admits touching intervals, but its only caller merges them first:
                    # executed, not judged
                    res.extra['rl_touching_intervals:%s(not judged)' % (status if not fails or status == 'raises' else 'differs')] += 1
                    res.outcome('rl:touching:not-judged')
                    continue
                if len(layout) >= 1 and not (feats['starts_at_0'] and feats['ends_at_size'] and len(layout) == 1):
                    res.nontrivial += 1
                for f in fails:
                    res.fail(f['kind'], {'section': 'rl', 'size': size, 'layout': [list(x) for x in layout], 'variant': variant}, feats,
                             expected=f['expected'], observed=f['observed'], tb=f['traceback'])
                res.outcome('rl:%s:%s:n=%d' % (variant, 'FAIL' if fails else 'ok', min(len(layout), 3)))
    res.sample({'section': 'rl', 'size': 4, 'layout': [[1, 2], [3, 4]], 'variant': 'default', 'dense': [False, True, False, True]})


# ---- BFS machinery shared by pairs and deep
class State:
    __slots__ = ('tree', 'model', 'impl', 'level', 'kind')

    def __init__(self, tree, model, impl, level):
        self.tree, self.model, self.impl, self.level = tree, model, impl, level
        self.kind = operand_kind(model)


def state_key(st_model, impl, tree):
    ev = events_of(impl)
    flat = np.asarray(st_model)
    base = (flat.dtype.str, tuple(flat.tolist()))
    return base + ((ev,) if ev is not None else ('tree', tree_str(tree)))


def transition(res, section, sizes, roots, root_models, op, a, b, seen, level_new, level_merged, next_level):
    """apply op to states a (and b: State or scalar) -> new State or None (merged / failed)"""
    if op == '~':
        tree = ['~', a.tree]
        operands = [a.impl]
    else:
        ta = a.tree if isinstance(a, State) else ['scalar', a]
        tb = b.tree if isinstance(b, State) else ['scalar', b]
        tree = [op, ta, tb]
        operands = [a.impl if isinstance(a, State) else a, b.impl if isinstance(b, State) else b]
    r = run_case(sizes, roots, tree, level_merged, root_models=root_models, operands=operands)
    kinds = ','.join((x.kind if isinstance(x, State) else 'scalar') for x in ([a] if op == '~' else [a, b]))
    out = None
    tag = 'merged'
    if r['impl'] is not None and not r['fails']:
        key = state_key(r['model'], r['impl'], tree)
        if key not in seen:
            seen.add(key)
            res.states += 1
            tag = 'new'
            out = State(tree, r['model'], r['impl'], next_level)
            if level_new != level_merged:
                extra = Obs()
                for fn in LEVELS[level_new]:
                    if fn not in LEVELS[level_merged]:
                        fn(extra, sizes, r['impl'], r['model'])
                r['fails'] = r['fails'] + extra.fails
                r['calls'] += extra.calls
                r['notes'] = r['notes'] + extra.notes
                if extra.fails:
                    out = None
    record(res, section, sizes, roots, tree, r, root_models, '%s(%s)->%s:%s' % (op, kinds, operand_kind(r['model']), tag))
    return out


def run_pairs(res, desc, deadline):
    g, modes, kmax = _pairs_slices(desc['tier'], desc['seed'])[desc['slice']]
    part, of = desc['part'], desc['of']
    # roots: every track / every mask (distinct specs), built once and shared by all pairs as a user would
    specs = []
    for _, kind, recs in _bg_cases([g], modes):
        s = _bgspec(kind, recs)
        if s not in specs:
            specs.append(s)
    mask_specs = []
    for ivs in _iv_cases(g, kmax, 'sorted'):
        mask_specs.append(_ivspec('mask', ivs))
    seen = set()
    for group, ops in ((specs, M.ARITH + M.COMPARE), (mask_specs, M.LOGIC)):
        models = [build_root_model(g, s) for s in group]
        impls = []
        for s, m in zip(group, models):
            r = run_case(g, [s], R0, 'back', root_models=[m])
            res.transitions += r['calls']
            if r['impl'] is None or r['fails']:
                impls.append(None)      # reported by sections bg / iv (same roots); a failed state is never an operand
                res.extra['pairs_root_fails_its_own_oracle(reported in bg/iv)'] += 1
            else:
                impls.append(r['impl'])
        for i in range(len(group)):
            if i % of != part or impls[i] is None:
                continue
            if deadline.expired():
                res.capped = True
                return
            for j in range(len(group)):
                if impls[j] is None:
                    continue
                roots = [group[i], group[j]]
                rm = [models[i], models[j]]
                a = State(['root', 0], models[i], impls[i], 0)
                b = State(['root', 1], models[j], impls[j], 0)
                for op in ops:
                    transition(res, 'pairs', g, roots, rm, op, a, b, seen, 'back', 'light', 1)
    if specs:
        res.sample({'section': 'pairs', 'sizes': list(g), 'tracks': len(specs), 'masks': len(mask_specs),
                    'example': {'roots': [specs[-1], specs[len(specs) // 2]], 'tree': '(r0 - r1)'}})


def _candidates(states, scalars, lo_a, final_linear):
    """every transition whose deepest operand has level lo_a (breadth-first closure step).  final_linear: the other operand
    must be a leaf (root or scalar)."""
    new = [s for s in states if s.level == lo_a]
    for a in new:
        if a.kind == 'bool':
            yield ('~', a, None)
    for a in states:
        for b in states:
            if a.level != lo_a and b.level != lo_a:
                continue
            if final_linear and not (a.level == 0 or b.level == 0):
                continue
            if a.kind == 'bool' and b.kind == 'bool':
                for op in M.LOGIC:
                    yield (op, a, b)
            elif a.kind != 'bool' and b.kind != 'bool':
                for op in M.ARITH + M.COMPARE:
                    yield (op, a, b)
    for a in new:
        if a.kind == 'bool':
            continue
        for s in scalars:
            for op in M.ARITH:
                yield (op, a, s)
                yield (op, s, a)
            for op in M.COMPARE:
                yield (op, a, s)


def run_deep(res, desc, deadline):
    sizes, roots = DEEP_ROOTSETS[desc['rootset']]
    depth, part, of = desc['depth'], desc['part'], desc['of']
    root_models = [build_root_model(sizes, s) for s in roots]
    states = []
    seen = set()
    for i, spec in enumerate(roots):
        r = run_case(sizes, roots, ['root', i], 'full', root_models=root_models)
        if part == 0:
            record(res, 'deep', sizes, roots, ['root', i], r, root_models, 'root:%s' % spec['source'])
        if r['impl'] is None or r['fails']:
            continue          # reported above (part 0); a failed state is never an operand
        if spec['source'] == 'bedgraph' and spec['vkind'] == 'bool':
            continue          # value-equal expansion only; never an operand
        seen.add(state_key(r['model'], r['impl'], ['root', i]))
        states.append(State(['root', i], r['model'], r['impl'], 0))
        res.states += 1 if part == 0 else 0
    for d in range(1, depth + 1):
        final = d == depth
        linear = final and depth >= 3
        quiet = Result()        # inner levels are judged and counted by part 0 only; the other parts just rebuild the states
        for ti, (op, a, b) in enumerate(_candidates(list(states), SCALARS, d - 1, linear)):
            if final and (ti // 6) % of != part:     # consecutive candidates are the 6 operators of one operand pair
                continue
            if deadline.expired():
                res.capped = True
                return
            if final:
                st = transition(res, 'deep', sizes, roots, root_models, op, a, b, seen, 'back', 'light', d)
            elif part == 0:
                st = transition(res, 'deep', sizes, roots, root_models, op, a, b, seen, 'full' if d == 1 else 'back', 'light', d)
            else:
                st = _quiet_transition(op, a, b, seen, d)
            if st is not None and not final:
                states.append(st)
    if part == 0:
        res.sample({'section': 'deep', 'sizes': list(sizes), 'roots': roots, 'depth': depth, 'states_below_final_level': len(states),
                    'example_tree': tree_str(states[-1].tree) if states else None})


def _quiet_transition(op, a, b, seen, next_level):
    """rebuild a state of an inner level without judging it (another part of the same root set judges it)"""
    if op == '~':
        tree, operands, mops = ['~', a.tree], [a.impl], [a.model]
    else:
        ta = a.tree if isinstance(a, State) else ['scalar', a]
        tb = b.tree if isinstance(b, State) else ['scalar', b]
        tree = [op, ta, tb]
        operands = [a.impl if isinstance(a, State) else a, b.impl if isinstance(b, State) else b]
        mops = [a.model if isinstance(a, State) else a, b.model if isinstance(b, State) else b]
    model = apply_model(op, *mops)
    try:
        impl = apply_impl(op, *operands)
        if not hasattr(impl, 'to_dict'):
            return None
        got = np.concatenate([np.asarray(v) for v in impl.to_dict().values()])
    except Exception:
        return None
    if not M.values_equal(got, model):
        return None             # part 0 reports it; a failed state is never expanded
    key = state_key(model, impl, tree)
    if key in seen:
        return None
    seen.add(key)
    return State(tree, model, impl, next_level)


SECTION_RUNNERS = {'bg': run_bg, 'iv': run_iv, 'rl': run_rl, 'pairs': run_pairs, 'deep': run_deep}


def run_shard(desc, deadline):
    import time
    res = Result()
    t0 = time.process_time()
    SECTION_RUNNERS[desc['section']](res, desc, deadline)
    # cost accounting only (never used to steer the enumeration): CPU milliseconds per section, for the budget in the report
    res.extra['cpu_ms:' + desc['section']] += int((time.process_time() - t0) * 1000)
    return res


# =========================================================================================== replay
def replay_case(case):
    if case['section'] == 'rl':
        status, fails = rl_case(case['size'], case['layout'], case['variant'])
        feats = rl_features(case['size'], [tuple(x) for x in case['layout']], case['variant'])
        if feats['touching']:
            return []
        return [dict(f, features=feats) for f in fails]
    sizes, roots, tree = tuple(case['sizes']), case['roots'], case['tree']
    root_models = [build_root_model(sizes, s) for s in roots]
    r = run_case(sizes, roots, tree, 'full', root_models=root_models)
    feats = dict(expr_features(sizes, roots, tree, root_models), section=case['section'])
    return [dict(f, features=feats) for f in r['fails']]


def repro_py(case):
    if case['section'] == 'rl':
        kw = dict(RL_VARIANTS)[case['variant']]
        if kw is None:
            kw = {'values': list(range(1, len(case['layout']) + 1))}
            return ('import numpy as np\nfrom bionumpy.arithmetics.intervals import GenomicRunLengthArray\n'
                    'layout = %r\nr = GenomicRunLengthArray.from_intervals(np.array([a for a, b in layout], dtype=int), '
                    'np.array([b for a, b in layout], dtype=int), %d, values=np.array(%r))\nprint(len(r), r.to_array())\n'
                    % (case['layout'], case['size'], kw['values']))
        return ('import numpy as np\nfrom bionumpy.arithmetics.intervals import GenomicRunLengthArray\n'
                'layout = %r\nr = GenomicRunLengthArray.from_intervals(np.array([a for a, b in layout], dtype=int), '
                'np.array([b for a, b in layout], dtype=int), %d, **%r)\nprint(len(r), r.to_array())\n'
                % (case['layout'], case['size'], kw))
    sizes = case['sizes']
    names = M.chrom_names(len(sizes))
    lines = ['import numpy as np, bionumpy as bnp', 'from bionumpy.datatypes import BedGraph, Interval',
             'genome = bnp.Genome.from_dict(%r)' % dict(zip(names, sizes))]
    for i, s in enumerate(case['roots']):
        if s['source'] == 'bedgraph':
            recs = s['records']
            lines.append('r%d = genome.get_track(BedGraph(%r, %r, %r, %r))' % (
                i, [names[r[0]] for r in recs], [r[1] for r in recs], [r[2] for r in recs], [_pyval(r[3], s['vkind']) for r in recs]))
        else:
            ivs = s['intervals']
            lines.append('r%d = genome.get_intervals(Interval(%r, %r, %r)).get_%s()' % (
                i, [names[x[0]] for x in ivs], [x[1] for x in ivs], [x[2] for x in ivs], s['source']))
    root_models = [build_root_model(tuple(sizes), s) for s in case['roots']]
    lines.append('x = %s' % tree_str(case['tree']))
    lines.append('print(x.to_dict())      # dense NumPy says: %r' % (np.asarray(eval_tree_model(case['tree'], root_models)).tolist(),))
    lines.append('print(x.get_data()); print(x.sum(), np.histogram(x, bins=%r)); print(x)' % (M.HIST_EDGES,))
    return '\n'.join(lines) + '\n'
